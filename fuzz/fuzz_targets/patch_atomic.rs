//! C12 / C13 (thorough tier): byte-level, coverage-guided search over patch documents against
//! model-free oracles, through the real `rip_workspace::Workspace::apply_patch`.
//!
//! input = [tree selector byte][patch text]. The tree selector decides which of a fixed set of
//! files exist (LF, CRLF, no trailing newline, empty, nested), so that the same patch text can hit
//! "missing file", "already exists" and "context not found" at different operations.
//!
//! Oracles (panic message starts with the id of the property asserted):
//!  * C12 atomic: when apply_patch returns Err, every file in the workspace has the bytes it had
//!    before and no new file remains (directories are not compared);
//!  * C12 reported: when it returns Ok, every file that was created, deleted or whose bytes
//!    changed is in `changed_files` (paths compared after dropping "." and empty components);
//!  * C13 escape: nothing outside the workspace root is created, modified or deleted, whatever the
//!    outcome (a sentinel tree next to the workspace is compared).
#![no_main]

use std::collections::BTreeMap;
use std::path::{Path, PathBuf};
use std::sync::OnceLock;

use libfuzzer_sys::fuzz_target;

type Files = BTreeMap<String, Vec<u8>>;

const TREE: &[(&str, &[u8])] = &[
    ("a.txt", b"one\ntwo\nthree\n"),
    ("b.txt", b"alpha\r\nbeta\r\ngamma\r\n"),
    ("dir/c.txt", b"x\ny"),
    ("empty.txt", b""),
    ("dir/sub/d.txt", b"l1\nl2\nl3\nl4\nl5\nl6\nl7\nl8\n"),
    ("e.txt", b"same\nsame\nsame\nend\n"),
    ("u.txt", "gr\u{fc}n\n\u{65e5}\u{672c}\n".as_bytes()),
    ("bin.dat", &[0xff, 0xfe, 0x00, 0x0a]),
];

fn base() -> &'static PathBuf {
    static BASE: OnceLock<PathBuf> = OnceLock::new();
    BASE.get_or_init(|| {
        let root = if Path::new("/dev/shm").is_dir() { PathBuf::from("/dev/shm") } else { std::env::temp_dir() };
        let dir = root.join(format!("rv-fuzz-patch-{}", std::process::id()));
        let _ = std::fs::remove_dir_all(&dir);
        std::fs::create_dir_all(&dir).expect("scratch");
        dir
    })
}

fn walk(root: &Path, dir: &Path, skip_rip: bool, out: &mut Files) {
    let Ok(rd) = std::fs::read_dir(dir) else { return };
    for e in rd.flatten() {
        let p = e.path();
        let rel = p.strip_prefix(root).unwrap_or(&p).to_string_lossy().to_string();
        if skip_rip && (rel == ".rip" || rel.starts_with(".rip/")) {
            continue;
        }
        let Ok(meta) = std::fs::symlink_metadata(&p) else { continue };
        if meta.is_dir() {
            walk(root, &p, skip_rip, out);
        } else if meta.file_type().is_symlink() {
            out.insert(rel, format!("SYMLINK:{:?}", std::fs::read_link(&p).ok()).into_bytes());
        } else {
            out.insert(rel, std::fs::read(&p).unwrap_or_default());
        }
    }
}

fn files(root: &Path, skip_rip: bool) -> Files {
    let mut out = Files::new();
    walk(root, root, skip_rip, &mut out);
    out
}

fn norm(p: &str) -> String {
    // the implementation reports paths with '\\' rewritten to '/' (its Windows spelling rule); a
    // backslash is an ordinary file-name byte here, so both sides are compared in that spelling
    p.replace('\\', "/").split('/').filter(|c| !c.is_empty() && *c != ".").collect::<Vec<_>>().join("/")
}

fuzz_target!(|data: &[u8]| {
    if data.len() < 2 {
        return;
    }
    let Ok(patch) = std::str::from_utf8(&data[1..]) else { return };
    let sel = data[0];
    let base = base();
    let ws = base.join("ws");
    let outside = base.join("outside");
    // reset all state of the previous iteration
    let _ = std::fs::remove_dir_all(&ws);
    let _ = std::fs::remove_dir_all(&outside);
    // anything else left next to them is an escape of the previous iteration already reported
    std::fs::create_dir_all(&ws).expect("ws");
    std::fs::create_dir_all(outside.join("dir")).expect("outside");
    std::fs::write(outside.join("a.txt"), b"outside a\n").expect("sentinel");
    std::fs::write(outside.join("dir/c.txt"), b"outside c\n").expect("sentinel");
    std::fs::write(base.join("sentinel.txt"), b"sentinel\n").expect("sentinel");
    for (i, (path, bytes)) in TREE.iter().enumerate() {
        if sel & (1 << i) != 0 {
            continue;
        }
        let p = ws.join(path);
        std::fs::create_dir_all(p.parent().unwrap()).expect("parent");
        std::fs::write(&p, bytes).expect("file");
    }
    let before = files(&ws, true);
    let before_out = files(base, false);
    let before_out: Files = before_out.into_iter().filter(|(k, _)| !k.starts_with("ws/")).collect();

    let result = rip_workspace::Workspace::new(&ws).and_then(|w| w.apply_patch(patch));

    let after = files(&ws, true);
    let after_out: Files = files(base, false).into_iter().filter(|(k, _)| !k.starts_with("ws/")).collect();
    if after_out != before_out {
        panic!("C13 escape: files outside the workspace root changed\n before: {:?}\n after: {:?}\n patch: {patch:?}",
            before_out.keys().collect::<Vec<_>>(), after_out.keys().collect::<Vec<_>>());
    }
    match result {
        Err(err) => {
            if after != before {
                let diff: Vec<&String> = before.keys().chain(after.keys()).filter(|k| before.get(*k) != after.get(*k)).collect();
                panic!("C12 atomic: apply_patch failed ({err}) but the workspace differs at {diff:?}\n sel={sel:#010b}\n patch: {patch:?}");
            }
        }
        Ok(res) => {
            let reported: Vec<String> = res.changed_files.iter().map(|p| norm(p)).collect();
            for k in before.keys().chain(after.keys()) {
                if before.get(k) != after.get(k) && !reported.contains(&norm(k)) {
                    panic!("C12 reported: {k} changed but is not in changed_files {:?}\n sel={sel:#010b}\n patch: {patch:?}", res.changed_files);
                }
            }
        }
    }
});
