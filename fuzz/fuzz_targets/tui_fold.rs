//! C20 (thorough tier): byte-level, coverage-guided search over frame streams and UI operations
//! against the fold oracles of C20, through the real `rip_tui::{TuiState, render}`.
//!
//! input = [cap_frames][cap_output lo][cap_output hi][flags] then lines. A line starting with `!`
//! is a UI operation (`!o` output view, `!t` theme, `!a` activity, `!k` tasks, `!d` detail, `!c`
//! close, `!n<u64>` now, `!f0|1` auto-follow, `!s<u64>` select, `!r<w>x<h>[d]` render); any other
//! line the real frame parser accepts is folded in with `update` (its seq is whatever the line says:
//! gaps, repeats, descending and u64::MAX come for free); other lines are skipped. The corpus is
//! seeded with generated frames of every type (corpus/tui_fold, `corpusgen tui_fold`).
//!
//! Oracles (panic message starts with `C20`; a panic inside the fold is a totality violation and
//! reaches libFuzzer as it is):
//!  * total: no step panics, derived accessors and `Debug` included, renders at terminal sizes 20x8 .. 200x60;
//!  * bounded: retained frames <= max(cap,1), output text <= max(cap,1) bytes, previews <= 8 KiB;
//!  * window: the retained frames are exactly the last `cap` folded in, in order;
//!  * lookup: `get_by_seq` / `index_of_seq` / `selected_event` return a frame with the seq asked
//!    for or nothing; in a gap-free window every retained seq is found;
//!  * deterministic: folding the same input again gives the same `Debug` state and the same
//!    rendered buffers.
#![no_main]

use libfuzzer_sys::fuzz_target;
use ratatui::backend::TestBackend;
use ratatui::Terminal;
use rip_kernel::Event;
use rip_tui::{render, RenderMode, TuiState};

enum Step {
    Frame(Box<Event>),
    OutputView,
    Theme,
    Activity,
    Tasks,
    Detail,
    Close,
    Now(u64),
    Follow(bool),
    Select(u64),
    Render(u16, u16, bool),
}

fn num(s: &[u8]) -> u64 {
    let mut n: u64 = 0;
    for b in s.iter().take_while(|b| b.is_ascii_digit()) {
        n = n.wrapping_mul(10).wrapping_add((b - b'0') as u64);
    }
    n
}

fn parse_steps(body: &[u8]) -> Vec<Step> {
    let mut steps = Vec::new();
    for line in body.split(|b| *b == b'\n').take(400) {
        if line.is_empty() {
            continue;
        }
        if line[0] == b'!' {
            let rest = &line[1..];
            let step = match rest.first() {
                Some(b'o') => Step::OutputView,
                Some(b't') => Step::Theme,
                Some(b'a') => Step::Activity,
                Some(b'k') => Step::Tasks,
                Some(b'd') => Step::Detail,
                Some(b'c') => Step::Close,
                Some(b'n') => Step::Now(num(&rest[1..])),
                Some(b'f') => Step::Follow(rest.get(1) == Some(&b'1')),
                Some(b's') => Step::Select(num(&rest[1..])),
                Some(b'r') => {
                    // terminal geometry is not in the property's quantifier: sizes stay in the range
                    // of an ordinary terminal (the same range as the proptest group; see DESIGN 0.5)
                    let w = (num(&rest[1..]) % 181) as u16 + 20;
                    let after = rest.iter().position(|b| *b == b'x').map(|p| &rest[p + 1..]).unwrap_or(&[]);
                    let h = (num(after) % 53) as u16 + 8;
                    Step::Render(w, h, rest.last() == Some(&b'd'))
                }
                _ => continue,
            };
            steps.push(step);
        } else if let Ok(ev) = serde_json::from_slice::<Event>(line) {
            steps.push(Step::Frame(Box::new(ev)));
        }
    }
    steps
}

fn render_to_string(state: &TuiState, w: u16, h: u16, decoded: bool) -> String {
    let mut terminal = Terminal::new(TestBackend::new(w, h)).expect("terminal");
    let mode = if decoded { RenderMode::Decoded } else { RenderMode::Json };
    terminal.draw(|f| render(f, state, mode, "input text")).expect("draw");
    let buf = terminal.backend().buffer().clone();
    let mut out = String::new();
    for y in 0..buf.area.height {
        for x in 0..buf.area.width {
            out.push_str(buf[(x, y)].symbol());
        }
        out.push('\n');
    }
    out
}

fn invariants(state: &TuiState, cap_frames: usize, cap_out: usize, pushed: &[u64], step: usize) {
    assert!(state.frames.len() <= cap_frames, "C20 bound: {} frames retained, cap {cap_frames} (step {step})", state.frames.len());
    assert!(state.output_text.len() <= cap_out, "C20 bound: output text {} bytes, cap {cap_out} (step {step})", state.output_text.len());
    for (id, t) in &state.tools {
        assert!(t.stdout_preview.len() <= 8192 && t.stderr_preview.len() <= 8192, "C20 bound: tool preview of {id} (step {step})");
    }
    for (id, t) in &state.tasks {
        assert!(
            t.stdout_preview.len() <= 8192 && t.stderr_preview.len() <= 8192 && t.pty_preview.len() <= 8192,
            "C20 bound: task preview of {id} (step {step})"
        );
    }
    let seqs: Vec<u64> = state.frames.iter().map(|e| e.seq).collect();
    assert!(
        state.frames.first_seq() == seqs.first().copied() && state.frames.last_seq() == seqs.last().copied(),
        "C20 window: first/last seq disagree with iteration (step {step})"
    );
    assert!(state.frames.is_empty() == seqs.is_empty(), "C20 window: is_empty (step {step})");
    let tail = &pushed[pushed.len().saturating_sub(cap_frames)..];
    assert!(tail == seqs.as_slice(), "C20 window: retained {seqs:?}, last folded in {tail:?} (step {step})");
    let mut probe: Vec<u64> = Vec::new();
    for s in pushed.iter().rev().take(16) {
        probe.extend([*s, s.wrapping_add(1), s.wrapping_sub(1)]);
    }
    if let Some(s) = state.selected_seq {
        probe.push(s);
    }
    probe.sort_unstable();
    probe.dedup();
    let contiguous = seqs.windows(2).all(|w| w[0].checked_add(1) == Some(w[1]));
    for s in probe {
        match state.frames.get_by_seq(s) {
            Some(ev) => assert!(ev.seq == s, "C20 lookup: asked seq {s}, got a frame with seq {} (retained {seqs:?})", ev.seq),
            None => assert!(!(contiguous && seqs.contains(&s)), "C20 lookup: seq {s} not found in the gap-free window {seqs:?}"),
        }
        if let Some(idx) = state.frames.index_of_seq(s) {
            let at = state.frames.iter().nth(idx).map(|e| e.seq);
            assert!(at == Some(s), "C20 lookup: index_of_seq({s}) = {idx}, frame there has seq {at:?}");
        }
    }
    if let (Some(sel), Some(ev)) = (state.selected_seq, state.selected_event()) {
        assert!(ev.seq == sel, "C20 lookup: selected seq {sel}, selected_event has seq {}", ev.seq);
    }
}

fn fold(max_frames: usize, max_output: usize, steps: &[Step], check: bool) -> (String, Vec<String>) {
    let mut state = TuiState::new(max_frames, max_output);
    let (cap_frames, cap_out) = (max_frames.max(1), max_output.max(1));
    let mut renders = Vec::new();
    let mut pushed: Vec<u64> = Vec::new();
    for (i, step) in steps.iter().enumerate() {
        match step {
            Step::Frame(ev) => {
                pushed.push(ev.seq);
                state.update((**ev).clone());
            }
            Step::OutputView => state.toggle_output_view(),
            Step::Theme => state.toggle_theme(),
            Step::Activity => state.toggle_activity_overlay(),
            Step::Tasks => state.toggle_tasks_overlay(),
            Step::Detail => state.open_selected_detail(),
            Step::Close => state.close_overlay(),
            Step::Now(t) => state.set_now_ms(*t),
            Step::Follow(b) => state.auto_follow = *b,
            Step::Select(s) => state.selected_seq = Some(*s),
            Step::Render(w, h, d) => renders.push(render_to_string(&state, *w, *h, *d)),
        }
        if check {
            invariants(&state, cap_frames, cap_out, &pushed, i);
        }
    }
    let _ = state.ttft_ms();
    let _ = state.e2e_ms();
    let _ = state.openresponses_headers_ms();
    let _ = state.openresponses_first_byte_ms();
    let _ = state.openresponses_first_provider_event_ms();
    let _ = state.is_stalled(1000);
    let _ = state.running_tool_ids().count();
    let _ = state.running_task_ids().count();
    let _ = state.running_job_ids().count();
    // final renders in both modes: every state must be drawable
    for (w, h, d) in [(80u16, 24u16, true), (64, 20, false)] {
        renders.push(render_to_string(&state, w, h, d));
    }
    (format!("{state:?}"), renders)
}

fuzz_target!(|data: &[u8]| {
    if data.len() < 5 {
        return;
    }
    let max_frames = match data[0] % 8 {
        0 => 0,
        1 => 1,
        2 => 2,
        n => (n as usize) * 5,
    };
    let max_output = match data[3] % 4 {
        0 => 0,
        1 => 1,
        2 => (data[1] as usize) | ((data[2] as usize) << 8),
        _ => 200_000,
    };
    let steps = parse_steps(&data[4..]);
    if steps.is_empty() {
        return;
    }
    let (dump1, renders1) = fold(max_frames, max_output, &steps, true);
    let (dump2, renders2) = fold(max_frames, max_output, &steps, false);
    assert!(dump1 == dump2, "C20 deterministic: the same steps gave two different states");
    assert!(renders1 == renders2, "C20 deterministic: the same steps rendered differently");
});
