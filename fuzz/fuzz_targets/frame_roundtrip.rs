//! C03 (thorough tier): byte-level, coverage-guided search over frame lines against model-free
//! round-trip oracles, through the real `rip_kernel::Event` (de)serialisers and
//! `rip_log::{EventLog, write_snapshot, read_snapshot, verify_snapshot}`.
//!
//! input = up to 6 lines; every line the real parser accepts as a frame is a frame "the system can
//! hold" (the corpus is seeded with generated frames of every type, corpus/frame_roundtrip, written
//! by `harness/src/bin/corpusgen.rs` from the independent wire table `gen::frame`); lines it rejects
//! are skipped (rejecting a line is not a C03 matter).
//!
//! Oracles (panic message starts with the id of the property asserted):
//!  * C03 reread: the text written for an accepted frame parses again (the log is replayable);
//!  * C03 fixpoint: the frame read back serialises to the same text, keeps its stream kind and
//!    stream id;
//!  * C03 field: every field of the written frame that the input line also carries has the
//!    input's value (recursively; a field only the written frame has is a default; fields only the
//!    input has are unknown to the type and not frames the system emits). Skipped for lines with a
//!    repeated key (JSON leaves the reading of those open);
//!  * C03 stream / envelope: the written frame names the stream the documented rule gives its type
//!    (continuity_* -> continuity, tool_task_* -> task, else session; stream_id = session_id) and
//!    carries the whole envelope;
//!  * C03 log: the frames, renumbered 0,1,2,.. per stream, appended to a fresh `EventLog` are
//!    reproduced by `replay` text for text and in order, `replay_stream` returns exactly the frames of
//!    each stream;
//!  * C03 snapshot: `write_snapshot` + `read_snapshot` reproduce a stream's frames, `verify_snapshot`
//!    accepts them.
//! Known finding excluded by construction: serde_json parses at most 127 nested containers, the
//! snapshot wraps frames in an array (one more level) -- lines nesting > 120 containers are skipped
//! (counted on stderr at exit is not possible under libFuzzer; the bound is far above what the
//! mutators reach from the corpus).
#![no_main]

use std::collections::BTreeMap;
use std::fmt;
use std::path::{Path, PathBuf};
use std::sync::atomic::{AtomicU64, Ordering};
use std::sync::OnceLock;

use libfuzzer_sys::fuzz_target;
use rip_kernel::{Event, StreamKind};
use rip_log::{read_snapshot, verify_snapshot, write_snapshot, EventLog};
use serde::de::{DeserializeSeed, MapAccess, SeqAccess, Visitor};
use serde_json::Value;

fn base() -> &'static PathBuf {
    static BASE: OnceLock<PathBuf> = OnceLock::new();
    BASE.get_or_init(|| {
        let root = if Path::new("/dev/shm").is_dir() { PathBuf::from("/dev/shm") } else { std::env::temp_dir() };
        let dir = root.join(format!("rv-fuzz-frame-{}", std::process::id()));
        let _ = std::fs::remove_dir_all(&dir);
        std::fs::create_dir_all(&dir).expect("scratch");
        dir
    })
}

/// container nesting of a JSON text (strings skipped)
fn nesting(text: &[u8]) -> usize {
    let (mut depth, mut max, mut in_str, mut esc) = (0usize, 0usize, false, false);
    for &b in text {
        if in_str {
            if esc {
                esc = false;
            } else if b == b'\\' {
                esc = true;
            } else if b == b'"' {
                in_str = false;
            }
            continue;
        }
        match b {
            b'"' => in_str = true,
            b'{' | b'[' => {
                depth += 1;
                max = max.max(depth);
            }
            b'}' | b']' => depth = depth.saturating_sub(1),
            _ => {}
        }
    }
    max
}

/// `true` when some object of the document repeats a key
struct DupSeed<'a>(&'a mut bool);

impl<'de> DeserializeSeed<'de> for DupSeed<'_> {
    type Value = ();
    fn deserialize<D: serde::Deserializer<'de>>(self, d: D) -> Result<(), D::Error> {
        d.deserialize_any(DupVisitor(self.0))
    }
}

struct DupVisitor<'a>(&'a mut bool);

impl<'de> Visitor<'de> for DupVisitor<'_> {
    type Value = ();
    fn expecting(&self, f: &mut fmt::Formatter) -> fmt::Result {
        f.write_str("any JSON")
    }
    fn visit_bool<E>(self, _: bool) -> Result<(), E> { Ok(()) }
    fn visit_i64<E>(self, _: i64) -> Result<(), E> { Ok(()) }
    fn visit_u64<E>(self, _: u64) -> Result<(), E> { Ok(()) }
    fn visit_f64<E>(self, _: f64) -> Result<(), E> { Ok(()) }
    fn visit_str<E>(self, _: &str) -> Result<(), E> { Ok(()) }
    fn visit_unit<E>(self) -> Result<(), E> { Ok(()) }
    fn visit_none<E>(self) -> Result<(), E> { Ok(()) }
    fn visit_seq<A: SeqAccess<'de>>(self, mut seq: A) -> Result<(), A::Error> {
        while seq.next_element_seed(DupSeed(&mut *self.0))?.is_some() {}
        Ok(())
    }
    fn visit_map<A: MapAccess<'de>>(self, mut map: A) -> Result<(), A::Error> {
        let mut seen = std::collections::BTreeSet::new();
        while let Some(k) = map.next_key::<String>()? {
            if !seen.insert(k) {
                *self.0 = true;
            }
            map.next_value_seed(DupSeed(&mut *self.0))?;
        }
        Ok(())
    }
}

fn has_dup_keys(line: &[u8]) -> bool {
    let mut dup = false;
    let mut de = serde_json::Deserializer::from_slice(line);
    let _ = DupSeed(&mut dup).deserialize(&mut de);
    dup
}

fn num_eq(a: &serde_json::Number, b: &serde_json::Number) -> bool {
    if a == b {
        return true;
    }
    // an integer-valued field of a float type is written back with a fraction (1 -> 1.0)
    match (a.as_f64(), b.as_f64()) {
        (Some(x), Some(y)) => x == y && (a.is_f64() || b.is_f64()),
        _ => false,
    }
}

/// every field of `written` that `input` also carries has the input's value
fn carried(written: &Value, input: &Value, path: &mut String) -> Result<(), String> {
    match (written, input) {
        (Value::Object(w), Value::Object(i)) => {
            for (k, wv) in w {
                if let Some(iv) = i.get(k) {
                    let len = path.len();
                    path.push('.');
                    path.push_str(k);
                    carried(wv, iv, path)?;
                    path.truncate(len);
                }
            }
            Ok(())
        }
        (Value::Array(w), Value::Array(i)) => {
            if w.len() != i.len() {
                return Err(format!("{path}: array of {} written for {}", w.len(), i.len()));
            }
            for (n, (wv, iv)) in w.iter().zip(i).enumerate() {
                let len = path.len();
                path.push_str(&format!("[{n}]"));
                carried(wv, iv, path)?;
                path.truncate(len);
            }
            Ok(())
        }
        (Value::Number(a), Value::Number(b)) if num_eq(a, b) => Ok(()),
        (a, b) if a == b => Ok(()),
        // an explicit null for an optional field reads as absent and may be written as its default
        (_, Value::Null) => Ok(()),
        (a, b) => Err(format!("{path}: wrote {} for input {}", short(a), short(b))),
    }
}

fn short(v: &Value) -> String {
    let s = v.to_string();
    if s.len() > 120 { format!("{}..", s.chars().take(120).collect::<String>()) } else { s }
}

fn kind_tag(k: StreamKind) -> u8 {
    match k {
        StreamKind::Session => 0,
        StreamKind::Task => 1,
        StreamKind::Continuity => 2,
        StreamKind::Artifact => 3,
    }
}

static ITER: AtomicU64 = AtomicU64::new(0);

fuzz_target!(|data: &[u8]| {
    let mut frames: Vec<Event> = Vec::new();
    for line in data.split(|b| *b == b'\n').take(6) {
        if line.is_empty() || nesting(line) > 120 {
            continue;
        }
        let Ok(e1) = serde_json::from_slice::<Event>(line) else { continue };
        let t1 = serde_json::to_string(&e1).expect("C03 write: an accepted frame does not serialise");
        let e2: Event = match serde_json::from_str(&t1) {
            Ok(e) => e,
            Err(err) => panic!("C03 reread: the written frame does not parse again ({err}): {t1}"),
        };
        let t2 = serde_json::to_string(&e2).expect("C03 write");
        assert!(t1 == t2, "C03 fixpoint: read-back frame serialises differently\n first: {t1}\nsecond: {t2}");
        assert!(
            e1.stream_kind() == e2.stream_kind() && e1.stream_id() == e2.stream_id(),
            "C03 fixpoint: stream changed on read-back: {t1}"
        );
        if !has_dup_keys(line) {
            if let (Ok(input), Ok(mut written)) = (serde_json::from_slice::<Value>(line), serde_json::from_str::<Value>(&t1)) {
                if let Some(o) = written.as_object_mut() {
                    // derived on write from the frame type and the session id: checked against the
                    // documented rule (continuity_* frames belong to a continuity stream,
                    // tool_task_* frames to a task stream, everything else to a session stream; the
                    // stream id is the frame's session_id), not against the input's spelling
                    let tag = o.get("type").and_then(Value::as_str).unwrap_or("").to_string();
                    let want = if tag.starts_with("continuity_") {
                        "continuity"
                    } else if tag.starts_with("tool_task_") {
                        "task"
                    } else {
                        "session"
                    };
                    let kind = o.remove("stream_kind");
                    let sid = o.remove("stream_id");
                    assert!(
                        kind.as_ref().and_then(Value::as_str) == Some(want),
                        "C03 stream: a {tag} frame is written with stream_kind {kind:?}, documented {want}: {t1}"
                    );
                    assert!(
                        sid.is_some() && sid.as_ref() == o.get("session_id"),
                        "C03 stream: stream_id {sid:?} is not the frame's session_id: {t1}"
                    );
                    for key in ["id", "session_id", "timestamp_ms", "seq", "type"] {
                        assert!(o.contains_key(key), "C03 envelope: written frame lacks {key}: {t1}");
                    }
                }
                if let Err(why) = carried(&written, &input, &mut String::new()) {
                    panic!("C03 field: {why}\n input: {}\n wrote: {t1}", String::from_utf8_lossy(line));
                }
            }
        }
        frames.push(e1);
    }
    if frames.is_empty() {
        return;
    }
    // renumber per stream so that the validated replay applies
    let mut next: BTreeMap<(u8, String), u64> = BTreeMap::new();
    for e in frames.iter_mut() {
        let n = next.entry((kind_tag(e.stream_kind()), e.stream_id().to_string())).or_insert(0);
        e.seq = *n;
        *n += 1;
    }
    let texts: Vec<String> = frames.iter().map(|e| serde_json::to_string(e).expect("C03 write")).collect();
    let it = ITER.fetch_add(1, Ordering::Relaxed);
    let dir = base().join(format!("i{}", it % 4));
    let _ = std::fs::remove_dir_all(&dir);
    std::fs::create_dir_all(&dir).expect("scratch");
    let log = EventLog::new(dir.join("events.jsonl")).expect("log");
    for e in &frames {
        log.append(e).expect("C03 log: append failed");
    }
    let replayed = log.replay().unwrap_or_else(|err| panic!("C03 log: replay fails after writing accepted frames: {err}"));
    let got: Vec<String> = replayed.iter().map(|e| serde_json::to_string(e).expect("C03 write")).collect();
    assert!(got == texts, "C03 log: replay differs from what was appended\n appended: {texts:?}\n replayed: {got:?}");
    for ((tag, id), _) in next.iter() {
        let kind = [StreamKind::Session, StreamKind::Task, StreamKind::Continuity, StreamKind::Artifact][*tag as usize];
        let want: Vec<&String> =
            frames.iter().zip(&texts).filter(|(e, _)| kind_tag(e.stream_kind()) == *tag && e.stream_id() == id).map(|(_, t)| t).collect();
        let stream = log
            .replay_stream(kind, id)
            .unwrap_or_else(|err| panic!("C03 log: replay_stream fails for {kind:?}/{id:?}: {err}"));
        let got: Vec<String> = stream.iter().map(|e| serde_json::to_string(e).expect("C03 write")).collect();
        assert!(
            got.iter().collect::<Vec<_>>() == want,
            "C03 log: replay_stream({kind:?},{id:?}) returns other frames\n want: {want:?}\n got: {got:?}"
        );
        // snapshot of this stream (file name = the id: only ids that are plain file names)
        if id.is_empty() || id.len() > 100 || !id.bytes().all(|b| b.is_ascii_alphanumeric() || b == b'-' || b == b'_') {
            continue;
        }
        let snapdir = dir.join("snapshots");
        let members: Vec<Event> =
            frames.iter().filter(|e| kind_tag(e.stream_kind()) == *tag && e.stream_id() == id).cloned().collect();
        let path = write_snapshot(&snapdir, id, &members).expect("C03 snapshot: write failed");
        let back = read_snapshot(&path).unwrap_or_else(|err| panic!("C03 snapshot: written snapshot unreadable: {err}"));
        let got: Vec<String> = back.iter().map(|e| serde_json::to_string(e).expect("C03 write")).collect();
        assert!(got.iter().collect::<Vec<_>>() == want, "C03 snapshot: read-back differs\n want: {want:?}\n got: {got:?}");
        if let Err(err) = verify_snapshot(&log, &path) {
            panic!("C03 snapshot: verify_snapshot rejects a snapshot of the log's own frames: {err}");
        }
        let _ = std::fs::remove_file(&path);
    }
});
