//! C15 (thorough tier): provider stream decoding is chunking-invariant, numbering is gap-free.
//!
//! input bytes -> (seq0, validation mode, partition, stream): the first bytes choose the cut
//! positions, the rest is the stream. Oracle (i): frames(partition) == frames(whole stream as one
//! chunk) on every field except id / timestamp_ms, through the real byte-level pipe
//! (`ripd::verif::run_sse_pipe`) and, for valid UTF-8, through SseDecoder + EventFrameMapper.
//! Oracle (iv): seqs are seq0, seq0+1, ... and the returned seq is seq0 + number of frames.
//! Known findings are tolerated in-target (see the two constants) so a campaign does not
//! rediscover them forever.
#![no_main]

use std::path::PathBuf;
use std::sync::OnceLock;

use libfuzzer_sys::arbitrary::Unstructured;
use libfuzzer_sys::fuzz_target;
use rip_kernel::{Event, EventKind, ProviderEventStatus};
use rip_provider_openresponses::{EventFrameMapper, SseDecoder, ValidationOptions};
use serde_json::Value;

/// events after `[DONE]` are emitted iff they share its chunk (signature chunking|events_after_done)
const SKIP_KNOWN_AFTER_DONE: bool = false;
/// U+FFFD count for a truncated >=2-byte sequence depends on the carry-over buffer
/// (signature chunking|invalid_utf8_replacement_runs)
const SKIP_KNOWN_UTF8_RUNS: bool = false;

#[derive(Debug, Clone, PartialEq)]
enum Kind {
    Provider {
        provider: String,
        status: &'static str,
        event_name: Option<String>,
        data: Option<Value>,
        raw: Option<String>,
        errors: Vec<String>,
        response_errors: Vec<String>,
    },
    Text(String),
    Other(String),
}

#[derive(Debug, Clone, PartialEq)]
struct Frame {
    seq: u64,
    session_id: String,
    kind: Kind,
}

fn norm(ev: &Event) -> Frame {
    let kind = match &ev.kind {
        EventKind::ProviderEvent { provider, status, event_name, data, raw, errors, response_errors } => Kind::Provider {
            provider: provider.clone(),
            status: match status {
                ProviderEventStatus::Event => "event",
                ProviderEventStatus::Done => "done",
                ProviderEventStatus::InvalidJson => "invalid_json",
            },
            event_name: event_name.clone(),
            data: data.clone(),
            raw: raw.clone(),
            errors: errors.clone(),
            response_errors: response_errors.clone(),
        },
        EventKind::OutputTextDelta { delta } => Kind::Text(delta.clone()),
        other => Kind::Other(format!("{other:?}")),
    };
    Frame { seq: ev.seq, session_id: ev.session_id.clone(), kind }
}

fn collapse_str(s: &str) -> String {
    let mut out = String::with_capacity(s.len());
    let mut prev = false;
    for ch in s.chars() {
        let is = ch == '\u{FFFD}';
        if !(is && prev) {
            out.push(ch);
        }
        prev = is;
    }
    out
}

fn collapse_value(v: &Value) -> Value {
    match v {
        Value::String(s) => Value::String(collapse_str(s)),
        Value::Array(a) => Value::Array(a.iter().map(collapse_value).collect()),
        Value::Object(m) => Value::Object(m.iter().map(|(k, v)| (collapse_str(k), collapse_value(v))).collect()),
        other => other.clone(),
    }
}

fn collapse(frames: &[Frame]) -> Vec<Frame> {
    frames
        .iter()
        .map(|f| Frame {
            seq: f.seq,
            session_id: f.session_id.clone(),
            kind: match &f.kind {
                Kind::Provider { provider, status, event_name, data, raw, response_errors, .. } => Kind::Provider {
                    provider: provider.clone(),
                    status,
                    event_name: event_name.as_deref().map(collapse_str),
                    data: data.as_ref().map(collapse_value),
                    raw: raw.as_deref().map(collapse_str),
                    errors: Vec::new(),
                    response_errors: response_errors.iter().map(|e| collapse_str(e)).collect(),
                },
                Kind::Text(d) => Kind::Text(collapse_str(d)),
                Kind::Other(d) => Kind::Other(d.clone()),
            },
        })
        .collect()
}

fn has_long_invalid_seq(mut bytes: &[u8]) -> bool {
    loop {
        match std::str::from_utf8(bytes) {
            Ok(_) => return false,
            Err(e) => match e.error_len() {
                None => return false,
                Some(n) if n >= 2 => return true,
                Some(n) => bytes = &bytes[e.valid_up_to() + n..],
            },
        }
    }
}

fn first_done(frames: &[Frame]) -> Option<usize> {
    frames.iter().position(|f| matches!(&f.kind, Kind::Provider { status, .. } if *status == "done"))
}

struct Env {
    rt: tokio::runtime::Runtime,
    log: PathBuf,
}

fn env() -> &'static Env {
    static ENV: OnceLock<Env> = OnceLock::new();
    ENV.get_or_init(|| {
        let base = if std::path::Path::new("/dev/shm").is_dir() { PathBuf::from("/dev/shm") } else { std::env::temp_dir() };
        let dir = base.join(format!("rv-fuzz-sse-{}", std::process::id()));
        let _ = std::fs::create_dir_all(&dir);
        Env {
            rt: tokio::runtime::Builder::new_current_thread().build().expect("runtime"),
            log: dir.join("events.jsonl"),
        }
    })
}

fn split(bytes: &[u8], cuts: &[usize]) -> Vec<Vec<u8>> {
    let mut out = Vec::new();
    let mut prev = 0;
    for &c in cuts {
        if c > prev && c < bytes.len() {
            out.push(bytes[prev..c].to_vec());
            prev = c;
        }
    }
    out.push(bytes[prev..].to_vec());
    out
}

fn pipe(bytes: &[u8], cuts: &[usize], seq0: u64, strict: bool) -> Vec<Frame> {
    let e = env();
    let (events, final_seq) = e.rt.block_on(ripd::verif::run_sse_pipe(split(bytes, cuts), seq0, strict, &e.log));
    let _ = std::fs::remove_file(&e.log);
    let frames: Vec<Frame> = events.iter().map(norm).collect();
    for (i, f) in frames.iter().enumerate() {
        assert_eq!(f.seq, seq0 + i as u64, "C15 numbering|pipe|seq_not_contiguous at frame {i} (seq0={seq0}, cuts={cuts:?})");
    }
    assert_eq!(final_seq, seq0 + frames.len() as u64, "C15 numbering|pipe|final_seq (seq0={seq0}, cuts={cuts:?})");
    frames
}

fn direct(text: &str, cuts: &[usize], strict: bool) -> Vec<Frame> {
    let validation = if strict { ValidationOptions::strict() } else { ValidationOptions::compat_missing_item_ids() };
    let mut decoder = SseDecoder::new_with_validation(validation);
    let mut mapper = EventFrameMapper::new("fuzz-direct");
    let mut frames = Vec::new();
    let mut prev = 0usize;
    for &c in cuts {
        let mut c = c.min(text.len());
        while !text.is_char_boundary(c) {
            c -= 1;
        }
        if c > prev && c < text.len() {
            for pe in decoder.push(&text[prev..c]) {
                frames.extend(mapper.map(&pe).iter().map(norm));
            }
            prev = c;
        }
    }
    for pe in decoder.push(&text[prev..]) {
        frames.extend(mapper.map(&pe).iter().map(norm));
    }
    for pe in decoder.finish() {
        frames.extend(mapper.map(&pe).iter().map(norm));
    }
    for (i, f) in frames.iter().enumerate() {
        assert_eq!(f.seq, i as u64, "C15 numbering|direct|seq_not_contiguous");
    }
    frames
}

fn decode(data: &[u8]) -> Option<(u64, bool, Vec<usize>, &[u8])> {
    let mut u = Unstructured::new(data);
    let seq0 = match u.arbitrary::<u8>().ok()? % 4 {
        0 => 0,
        1 => 1 + (u.arbitrary::<u8>().ok()? as u64),
        2 => 1u64 << 40,
        _ => (1u64 << 53) + 1,
    };
    let strict = u.arbitrary::<bool>().ok()?;
    let mode = u.arbitrary::<u8>().ok()?;
    let mut raw_cuts: Vec<u16> = Vec::new();
    let mut every = 0usize;
    match mode % 8 {
        0 => every = 1,
        1 => every = 2 + (u.arbitrary::<u8>().ok()? % 15) as usize,
        m => {
            for _ in 0..m {
                raw_cuts.push(u.arbitrary::<u16>().ok()?);
            }
        }
    }
    let stream = u.take_rest();
    if stream.len() < 2 || stream.len() > 1 << 16 {
        return None;
    }
    let mut cuts: Vec<usize> = if every > 0 {
        (1..stream.len()).filter(|c| c % every == 0).collect()
    } else {
        raw_cuts.iter().map(|c| 1 + (*c as usize) % (stream.len() - 1)).collect()
    };
    cuts.sort_unstable();
    cuts.dedup();
    Some((seq0, strict, cuts, stream))
}

fuzz_target!(|data: &[u8]| {
    let Some((seq0, strict, cuts, stream)) = decode(data) else { return };
    let whole = pipe(stream, &[], seq0, strict);
    let part = pipe(stream, &cuts, seq0, strict);
    if whole != part {
        let modulo = SKIP_KNOWN_UTF8_RUNS && has_long_invalid_seq(stream);
        let (w, p) = if modulo { (collapse(&whole), collapse(&part)) } else { (whole.clone(), part.clone()) };
        let mut tolerated = w == p;
        if !tolerated && SKIP_KNOWN_AFTER_DONE {
            if let (Some(dw), Some(dp)) = (first_done(&w), first_done(&p)) {
                let tail = w.len() > dw + 1 || p.len() > dp + 1;
                tolerated = tail && dw == dp && w[..=dw] == p[..=dp];
            }
        }
        if !tolerated {
            let n = whole.len().min(part.len());
            let i = (0..n).find(|i| whole[*i] != part[*i]).unwrap_or(n);
            panic!(
                "C15 chunking|pipe: frames differ (whole {} frames, partition {} frames, cuts={:?}) first difference at {}:\n whole: {:?}\n part:  {:?}",
                whole.len(), part.len(), cuts, i, whole.get(i), part.get(i)
            );
        }
    }
    if let Ok(text) = std::str::from_utf8(stream) {
        let dw = direct(text, &[], strict);
        let dp = direct(text, &cuts, strict);
        if dw != dp {
            let n = dw.len().min(dp.len());
            let i = (0..n).find(|i| dw[*i] != dp[*i]).unwrap_or(n);
            panic!(
                "C15 chunking|direct: frames differ (whole {} frames, partition {} frames, cuts={:?}) first difference at {}:\n whole: {:?}\n part:  {:?}",
                dw.len(), dp.len(), cuts, i, dw.get(i), dp.get(i)
            );
        }
    }
});
