#!/usr/bin/env bash
# Thorough-tier libFuzzer campaign on one target of /verif/fuzz (oracle inside the target).
# usage: fuzz_run.sh <PROP> <target> <seconds>           campaign
#        fuzz_run.sh <PROP> <target> --replay <artifact>  re-run one saved input
# exit 1 + "VIOLATION property=<id> replay=<artifact>" when the in-target oracle fails (the target's
# panic message starts with the id of the property it asserts, which overrides <PROP>);
# exit 2 on build failure or a libFuzzer resource report (timeout / oom / leak); else 0.
set -u
PROP="$1"; TARGET="$2"; shift 2
ROOT="${VERIF_ROOT:-/verif}"
FUZZ=$ROOT/fuzz
TDIR=$ROOT/target/fuzz
ART=$FUZZ/artifacts/$TARGET
RUNCORPUS=$FUZZ/corpus-run/$TARGET
SEEDS=$ROOT/corpus/$TARGET
export CARGO_NET_OFFLINE=true RUSTFLAGS="--cfg rip_verif"
unset CARGO_BUILD_RUSTFLAGS CARGO_ENCODED_RUSTFLAGS CARGO_TARGET_DIR
mkdir -p "$ART" "$RUNCORPUS" "$SEEDS" "$ROOT/target"
[ -f "$FUZZ/Cargo.lock" ] || cp /repo/Cargo.lock "$FUZZ/Cargo.lock"
cd "$FUZZ" || exit 2
BLOG="$TDIR.$TARGET.build.log"; RLOG="$TDIR.$TARGET.run.log"
if ! cargo +nightly fuzz build --fuzz-dir "$FUZZ" --target-dir "$TDIR" "$TARGET" >"$BLOG" 2>&1; then
  cp /repo/Cargo.lock "$FUZZ/Cargo.lock"   # one retry with a fresh copy of the repository lock
  if ! cargo +nightly fuzz build --fuzz-dir "$FUZZ" --target-dir "$TDIR" "$TARGET" >"$BLOG" 2>&1; then
    grep -E "^error" -A6 "$BLOG" | head -40
    echo "INCONCLUSIVE property=$PROP: fuzz target $TARGET does not build"
    exit 2
  fi
fi
BIN="$TDIR/x86_64-unknown-linux-gnu/release/$TARGET"
[ -x "$BIN" ] || { echo "INCONCLUSIVE property=$PROP: $BIN missing"; exit 2; }
prop_of_log() { # the id the failing assertion names, else the default
  grep -A2 "panicked at" "$RLOG" | grep -oE "\bC[0-9][0-9]\b" | head -1 || true
}
if [ "${1:-}" = "--replay" ]; then
  FILE="$2"
  "$BIN" "$FILE" >"$RLOG" 2>&1; RC=$?
  if [ "$RC" != 0 ]; then
    P=$(prop_of_log); P=${P:-$PROP}
    grep -A3 "panicked at" "$RLOG" | head -8
    echo "VIOLATION property=$P replay=$FILE"; exit 1
  fi
  echo "replay ok: $FILE"; exit 0
fi
SECS="${1:-60}"
STAMP="$(mktemp)"
"$BIN" "$RUNCORPUS" "$SEEDS" -seed="${VERIF_SEED:-1}" -max_total_time="$SECS" -len_control=0 -timeout=30 \
  -artifact_prefix="$ART/" -print_final_stats=1 >"$RLOG" 2>&1
RC=$?
grep -E "stat::|Done [0-9]+ runs|panicked" "$RLOG" | head -12
FOUND=0; SLOW=0
for f in $(find "$ART" -type f -name 'crash-*' -newer "$STAMP" 2>/dev/null); do
  P=$(prop_of_log); P=${P:-$PROP}
  grep -A3 "panicked at" "$RLOG" | head -8
  echo "VIOLATION property=$P replay=$f"
  FOUND=1
done
# a libFuzzer timeout / oom / leak report is a resource verdict, not an oracle verdict: inconclusive
for f in $(find "$ART" -type f \( -name 'timeout-*' -o -name 'oom-*' -o -name 'leak-*' \) -newer "$STAMP" 2>/dev/null); do
  echo "INCONCLUSIVE property=$PROP: libFuzzer resource report $f"
  SLOW=1
done
rm -f "$STAMP"; rm -rf /dev/shm/rv-fuzz-"${TARGET%%_*}"-* 2>/dev/null
if [ "$FOUND" = 1 ]; then exit 1; fi
if [ "$SLOW" = 1 ]; then exit 2; fi
if [ "$RC" != 0 ]; then echo "INCONCLUSIVE property=$PROP: libFuzzer exited $RC without an artifact (see $RLOG)"; exit 2; fi
exit 0
