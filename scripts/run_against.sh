#!/usr/bin/env bash
# Run a check against another checkout of the repository (a scratch worktree with a mutant).
# usage: run_against.sh <repo-tree> <Cxx> [check args...]
# Nothing is written into /verif: evidence and found replays go to <repo-tree>/.rv-root.
set -u
TREE="$(cd "$1" && pwd)"; shift
PROP="$1"; shift
NAME="$(basename "$TREE")"
H="$TREE/.rv-harness"; R="$TREE/.rv-root"
mkdir -p "$H" "$R/evidence" "$R/replays/found"
rsync -a --delete --exclude target /verif/harness/ "$H/"
sed -i "s#/repo/crates/#$TREE/crates/#g" "$H/Cargo.toml"
cp "$TREE/Cargo.lock" "$H/Cargo.lock"
cp /verif/known_findings.json "$R/" 2>/dev/null
rsync -a --delete /verif/replays/regress "$R/replays/" 2>/dev/null
rsync -a --delete /verif/replays/known "$R/replays/" 2>/dev/null
export CARGO_NET_OFFLINE=true RUSTFLAGS="--cfg rip_verif" CARGO_TARGET_DIR="/tmp/rvtarget-$NAME" VERIF_ROOT="$R"
if [ ! -d "$CARGO_TARGET_DIR" ] && [ -d /verif/target/debug ]; then
  # seed with the compiled third-party dependencies to save a cold build
  mkdir -p "$CARGO_TARGET_DIR"; cp -a /verif/target/debug "$CARGO_TARGET_DIR/debug" 2>/dev/null
fi
BIN="$(echo "$PROP" | tr 'A-Z' 'a-z')"
rm -f "$CARGO_TARGET_DIR/debug/$BIN"   # never fall back to a stale binary when the build fails
( cd "$H" && cargo build --offline --bin "$BIN" 2>&1 | grep -E "^(error|warning: unused)|^\s+-->|Finished" | head -30 )
[ -x "$CARGO_TARGET_DIR/debug/$BIN" ] || { echo "build failed"; exit 2; }
if grep -q "^$PROP\$" /verif/scripts/needs_repo_bins.txt 2>/dev/null; then
  # checks that drive real repository binaries: build them from THIS tree
  BT="/tmp/rvtarget-$NAME-bins"
  if [ ! -d "$BT" ] && [ -d /verif/target/repo-bins/debug ]; then mkdir -p "$BT"; cp -a /verif/target/repo-bins/debug "$BT/debug" 2>/dev/null; fi
  ( cd "$TREE" && cargo build --offline -p ripd -p rip-cli --bins --target-dir "$BT" 2>&1 | grep -E "^error|Finished" | head -10 )
  [ -x "$BT/debug/ripd" ] && [ -x "$BT/debug/rip" ] || { echo "repo bins build failed"; exit 2; }
  export C18_RIPD_BIN="$BT/debug/ripd" C18_RIP_BIN="$BT/debug/rip" C19_RIPD_BIN="$BT/debug/ripd" C19_RIP_BIN="$BT/debug/rip" C20_RIP_BIN="$BT/debug/rip"
fi
cd "$R" && exec "$CARGO_TARGET_DIR/debug/$BIN" "$@"
