#!/usr/bin/env python3
"""Print the brief handed to a fresh seeding sub-agent.
usage: seed_prompt.py <Cxx> <round>
The agent sees ONLY this text (property title / statement / quantifier, titles of earlier seeded changes so it
picks something else, the worktree path and the deliverables) -- nothing from /verif's checks.
It also creates nothing: scripts/seed_setup.sh makes the worktree."""
import json, sys, os, glob
pid, rnd = sys.argv[1], sys.argv[2]
prop = None
for l in open('/verif/properties.jsonl'):
    p = json.loads(l)
    if p['id'] == pid: prop = p
earlier = []
for d in sorted(glob.glob(f'/verif/seeded/{pid}*')):
    try: earlier.append(json.load(open(d + '/meta.json')).get('title'))
    except Exception: pass
wt = f'/tmp/seed{rnd}-{pid}'
low = pid.lower()
print(f"""You are working alone in a scratch git worktree of the Rust project numman-ali/rip at {wt}
(a harness for coding agents: an HTTP/SSE authority `ripd` over an append-only JSONL event log with rebuildable
sidecar caches; crates under crates/). Work ONLY inside {wt}. Do not read or write /repo or /verif, and do not look
at other /tmp/seed* directories. There is no network: always pass --offline to cargo (CARGO_NET_OFFLINE=true).
Use `-j 6` for cargo builds (other jobs share the machine).

THE PROPERTY (id {pid}) that users of rip rely on:

Title: {prop['title']}

Statement: {prop['statement']}

It must hold: {prop['quantifier']['text']}

YOUR TASK: act as a careless-but-plausible maintainer. Make ONE small change to the source under crates/ (a refactor,
an "optimisation", a tidy-up, an off-by-one, a moved statement, a narrowed lock, a forgotten case: the kind of thing a
reviewer could wave through) that BREAKS this property, while
  * the workspace still compiles without new warnings,
  * every existing test still passes (the suite must not notice), and
  * ordinary use does NOT expose it at once: it must need something SPECIFIC to manifest -- a particular interleaving,
    a crash or fault at a particular point, a multi-step sequence of operations, an unusual input shape or size,
    a state left behind by an earlier failure, or two cooperating sites that each look fine alone.
Do not add cfg flags, env switches, magic constants that single out one input, or dead "if false" code: the change must
read like honest code. Prefer code paths that look well covered but are not.

Earlier seeded changes for this property (pick a DIFFERENT function, mechanism and clause of the property):
""" + ''.join(f"  - {t}\n" for t in earlier if t) + f"""
DELIVERABLES (all inside {wt}):
 1. The change itself, applied in the working tree (only files under crates/, no test edits, no Cargo.toml edits).
 2. A demonstration: ONE new integration-test file `crates/<crate>/tests/seed_{low}_demo.rs` (new, untracked file) using the
    crate's public API (plus dev-dependencies the crate already has; ripd already depends on axum/tokio/tempfile/reqwest).
    It must FAIL with your change and PASS without it, deterministically (run each 3 times), in under 2 minutes. Include a control test
    that passes either way if that helps to show the scenario is otherwise healthy. Keep it an integration test that drives a public
    surface (the public store / engine / workspace API, the HTTP server, or the `rip`/`ripd` binaries via CARGO_BIN_EXE / std::process).
 3. `SEED/patch.diff` = `git diff -- crates/` of the change ONLY (the untracked demo file must NOT be in it; check with
    `git apply -R --check SEED/patch.diff`).
 4. `SEED/demo/` = a copy of the demo file plus `RUN.md` (how to run, expected output with / without).
 5. `SEED/meta.json` with string fields: "property" ("{pid}"), "title" (one sentence: what was changed where),
    "what_breaks" (which clause, how), "needs_to_manifest" (the specific trigger), "files_changed" (list),
    "why_existing_tests_pass", "commands_run" (list), "existing_tests_result".

CHECK YOUR WORK: (a) demo fails with the change; (b) `git apply -R SEED/patch.diff`, demo passes; re-apply;
(c) with the change applied run the existing tests of every crate you touched plus ripd and rip-cli ONCE:
    cargo nextest run --offline --build-jobs 6 <-p crate ...> -p ripd -p rip-cli --no-fail-fast --config-file /tmp/seed-tools/nextest.toml --profile pb
    Known sandbox failures you may ignore (they fail without any change too): tests whose name contains pty_task,
    grep_reports_unreadable, ls_reports_unreadable, local_authority_recovers_from_stale_lock_under_concurrency,
    list_checkpoints_sorted (flaky), pipes_task_applies_cwd_and_env. Anything else failing means your change is too loud: pick another.
Budget: about 35 minutes of wall time. Do not run the whole workspace suite more than once. When done, reply with
a five-line summary (title, trigger, demo test names, results with/without, suite result). If you cannot find a change meeting
all conditions, say so plainly rather than delivering something that fails them.""")
