#!/usr/bin/env python3
"""Adds the libFuzzer campaign's numbers to evidence/<id>.json (coverage.fuzz_campaign).
usage: fuzz_evidence.py <Cxx> <target> <seconds> <exit code of fuzz_run.sh>"""
import json, os, re, sys, glob
prop, target, secs, rc = sys.argv[1], sys.argv[2], sys.argv[3], int(sys.argv[4])
root = os.environ.get("VERIF_ROOT", "/verif")
ev = os.path.join(root, "evidence", f"{prop}.json")
log = os.path.join(root, "target", f"fuzz.{target}.run.log")
try:
    e = json.load(open(ev))
except Exception:
    sys.exit(0)
txt = open(log, errors="replace").read() if os.path.exists(log) else ""
def stat(name):
    m = re.search(rf"stat::{name}:\s+(\d+)", txt)
    return int(m.group(1)) if m else None
cov = None
for m in re.finditer(r"cov: (\d+) ft: (\d+) corp: (\d+)", txt):
    cov = {"edges": int(m.group(1)), "features": int(m.group(2)), "corpus_units": int(m.group(3))}
e.setdefault("coverage", {})["fuzz_campaign"] = {
    "engine": "libFuzzer (cargo-fuzz, ASan, debug assertions), oracle inside the target",
    "target": f"fuzz/fuzz_targets/{target}.rs",
    "seconds": int(secs) if secs.isdigit() else secs,
    "seed_corpus_files": len(glob.glob(os.path.join(root, "corpus", target, "*"))),
    "executions": stat("number_of_executed_units"),
    "new_units_added": stat("new_units_added"),
    "final_coverage": cov,
    "verdict": {0: "no oracle failure", 1: "oracle failure (VIOLATION line printed)", 2: "inconclusive (build or resource report)"}.get(rc, str(rc)),
    "non_trivial_rule": "an execution is non-trivial when at least one line of the input is accepted by the real parser (counted by libFuzzer only as coverage, not per case)",
}
json.dump(e, open(ev, "w"), indent=1)
