#!/usr/bin/env bash
# Independent confirmation of a seeded change inside the seeding worktree /tmp/seed-<Cxx>:
#  demo fails with the mutation, passes without it, and the existing tests of the affected crates
#  (plus ripd and rip-cli) pass with it. Writes /verif/seeded/<Cxx>/verify.log and prints a summary.
set -u
# usage: verify_seed.sh <Cxx> [round]   (round 2: worktree /tmp/seed2-<Cxx>, output /verif/seeded/<Cxx>-2)
P="$1"; R="${2:-1}"
if [ "$R" = 1 ]; then WT="/tmp/seed-$P"; OUT="/verif/seeded/$P"; else WT="/tmp/seed$R-$P"; OUT="/verif/seeded/$P-$R"; fi
mkdir -p "$OUT"
LOG="$OUT/verify.log"; : > "$LOG"
cd "$WT" || exit 2
export CARGO_NET_OFFLINE=true; unset RUSTFLAGS
lower=$(echo "$P" | tr 'A-Z' 'a-z')
DEMO=$(ls crates/*/tests/seed_${lower}_demo*.rs 2>/dev/null | head -1)
if [ -z "$DEMO" ]; then echo "seed=$P no demo test file found under crates/*/tests" | tee -a "$LOG"; exit 2; fi
CRATE=$(echo "$DEMO" | cut -d/ -f2)
TEST=$(basename "$DEMO" .rs)
run_demo() { timeout 1500 cargo test --offline -p "$CRATE" --test "$TEST" -- --include-ignored 2>&1 | tee -a "$LOG" | grep -E "^test result" | tail -1; }
echo "== with mutation" >> "$LOG"; WITH=$(run_demo)
git apply -R SEED/patch.diff || { echo "cannot reverse patch" | tee -a "$LOG"; exit 2; }
echo "== without mutation" >> "$LOG"; WITHOUT=$(run_demo)
git apply SEED/patch.diff || { echo "cannot re-apply patch" | tee -a "$LOG"; exit 2; }
CRATES=$(git diff --name-only | grep '^crates/' | cut -d/ -f2 | sort -u | sed 's/^/-p /' | tr '\n' ' ')
echo "== existing tests with mutation: $CRATES -p ripd -p rip-cli" >> "$LOG"
timeout 3000 cargo nextest run --offline $CRATES -p ripd -p rip-cli --no-fail-fast --config-file /tmp/seed-tools/nextest.toml --profile pb -E "not binary($TEST) and not test(pty_task) and not test(local_authority_recovers_from_stale_lock_under_concurrency)" >> "$LOG" 2>&1
SUMMARY=$(grep -E "^\s+Summary" "$LOG" | tail -1)
FAILS=$(grep -E "^\s+(FAIL|TIMEOUT|TRY [0-9]+ (FAIL|TMT))" "$LOG" | sed -E 's/.*\] +//' | sort -u | grep -v -E "pty_task|grep_reports_unreadable|ls_reports_unreadable|local_authority_recovers_from_stale_lock_under_concurrency|list_checkpoints_sorted|pipes_task_applies_cwd_and_env" | tr '\n' ';')
echo "seed=$P demo=$CRATE/$TEST with=[$WITH] without=[$WITHOUT] suite=[$SUMMARY] unexpected_failures=[$FAILS]"
