#!/usr/bin/env bash
# Evaluate a seeded change: usage eval_seed.sh <Cxx> [extra check ids...]
# Expects /tmp/seed-<Cxx>/SEED/{patch.diff,meta.json,demo/} with the mutation applied in that worktree.
# 1. copies the deliverables to /verif/seeded/<Cxx>/  2. runs the registered check(s) against the mutated
# worktree (scripts/run_against.sh; /repo is not touched)  3. prints a verdict line.
set -u
P="$1"; shift
WT="/tmp/seed-$P"
OUT="/verif/seeded/$P"
mkdir -p "$OUT"
cp "$WT/SEED/patch.diff" "$OUT/patch.diff" || exit 2
cp "$WT/SEED/meta.json" "$OUT/meta.agent.json" 2>/dev/null
rm -rf "$OUT/demo"; cp -r "$WT/SEED/demo" "$OUT/demo" 2>/dev/null
for C in "$P" "$@"; do
  LOG="$OUT/check_$C.log"
  ( /verif/scripts/run_against.sh "$WT" "$C" --tier quick ) >"$LOG" 2>&1
  RC=$?
  echo "seed=$P check=$C rc=$RC violations=$(grep -c '^VIOLATION' "$LOG") :: $(tail -1 "$LOG")"
  grep -m3 "signature=" "$LOG" | sed 's/^/    /'
done
