#!/usr/bin/env bash
# Evaluate a seeded change: usage eval_seed.sh <Cxx> [extra check ids...]
# Takes /verif/seeded/<Cxx>/patch.diff (or, first time, /tmp/seed-<Cxx>/SEED/*), applies it to a FRESH
# worktree of /repo's current HEAD (so hooks and fixes are present), runs the registered check(s)
# against it with scripts/run_against.sh (/repo itself is not touched) and prints a verdict line.
set -u
# SEED_ROUND=2 : source /tmp/seed2-<Cxx>, output /verif/seeded/<Cxx>-2
P="$1"; shift
R="${SEED_ROUND:-1}"
if [ "$R" = 1 ]; then SRC="/tmp/seed-$P"; OUT="/verif/seeded/$P"; else SRC="/tmp/seed$R-$P"; OUT="/verif/seeded/$P-$R"; fi
mkdir -p "$OUT"
if [ -f "$SRC/SEED/patch.diff" ]; then
  cp "$SRC/SEED/patch.diff" "$OUT/patch.diff"
  cp "$SRC/SEED/meta.json" "$OUT/meta.agent.json" 2>/dev/null
  rm -rf "$OUT/demo"; cp -r "$SRC/SEED/demo" "$OUT/demo" 2>/dev/null
fi
[ -f "$OUT/patch.diff" ] || { echo "no patch for $P"; exit 2; }
WT="/tmp/evalwt-$P-r$R"
git -C /repo worktree remove --force "$WT" 2>/dev/null; rm -rf "$WT"
git -C /repo worktree add -q "$WT" HEAD || exit 2
if ! git -C "$WT" apply "$OUT/patch.diff"; then echo "seed=$P patch does not apply to current HEAD"; git -C /repo worktree remove --force "$WT"; exit 2; fi
for C in "$P" "$@"; do
  LOG="$OUT/check_$C.log"
  ( /verif/scripts/run_against.sh "$WT" "$C" --tier quick ) >"$LOG" 2>&1
  RC=$?
  echo "seed=$P check=$C rc=$RC violations=$(grep -c '^VIOLATION' "$LOG") :: $(tail -1 "$LOG")"
  grep -m3 "signature=" "$LOG" | sed 's/^/    /'
done
git -C /repo worktree remove --force "$WT"; rm -rf "/tmp/rvtarget-evalwt-$P-r$R" "/tmp/rvtarget-evalwt-$P-r$R-bins"
