#!/usr/bin/env bash
# C15 thorough tier: libFuzzer campaign on the SSE chunking target.
# usage: fuzz_sse.sh <seconds>      exit 1 + "VIOLATION property=C15 replay=<artifact>" on a crash (oracle assertion), exit 2 on timeout/oom, else 0
set -u
SECS="${1:-60}"
ROOT="${VERIF_ROOT:-/verif}"
FUZZ=$ROOT/fuzz
TDIR=$ROOT/target/fuzz
ART=$FUZZ/artifacts/sse_chunking
RUNCORPUS=$FUZZ/corpus-run/sse_chunking
SEEDS=$ROOT/corpus/sse_chunking
export CARGO_NET_OFFLINE=true RUSTFLAGS="--cfg rip_verif"
unset CARGO_BUILD_RUSTFLAGS CARGO_ENCODED_RUSTFLAGS CARGO_TARGET_DIR
mkdir -p "$ART" "$RUNCORPUS" "$SEEDS"
[ -f "$FUZZ/Cargo.lock" ] || cp /repo/Cargo.lock "$FUZZ/Cargo.lock"
cd "$FUZZ" || exit 2
if ! cargo +nightly fuzz build --fuzz-dir "$FUZZ" --target-dir "$TDIR" sse_chunking >"$TDIR.build.log" 2>&1; then
  # one retry with a fresh copy of the repository lock
  cp /repo/Cargo.lock "$FUZZ/Cargo.lock"
  if ! cargo +nightly fuzz build --fuzz-dir "$FUZZ" --target-dir "$TDIR" sse_chunking >"$TDIR.build.log" 2>&1; then
    grep -E "^error" -A6 "$TDIR.build.log" | head -40
    echo "INCONCLUSIVE property=C15: fuzz target does not build"
    exit 2
  fi
fi
BIN="$TDIR/x86_64-unknown-linux-gnu/release/sse_chunking"
[ -x "$BIN" ] || { echo "INCONCLUSIVE property=C15: $BIN missing"; exit 2; }
STAMP="$(mktemp)"
"$BIN" "$RUNCORPUS" "$SEEDS" -seed="${VERIF_SEED:-1}" -max_total_time="$SECS" -len_control=0 \
  -artifact_prefix="$ART/" -print_final_stats=1 >"$TDIR.run.log" 2>&1
RC=$?
grep -E "stat::|Done [0-9]+ runs|panicked|^C15 " "$TDIR.run.log" | head -12
FOUND=0
SLOW=0
for f in $(find "$ART" -type f -name 'crash-*' -newer "$STAMP" 2>/dev/null); do
  echo "VIOLATION property=C15 replay=$f"
  FOUND=1
done
# a libFuzzer timeout / oom / leak report is a resource verdict, not an oracle verdict: inconclusive
for f in $(find "$ART" -type f \( -name 'timeout-*' -o -name 'oom-*' -o -name 'leak-*' \) -newer "$STAMP" 2>/dev/null); do
  echo "INCONCLUSIVE property=C15: libFuzzer resource report $f"
  SLOW=1
done
rm -f "$STAMP"; rm -rf /dev/shm/rv-fuzz-sse-* 2>/dev/null
if [ "$FOUND" = 1 ]; then exit 1; fi
if [ "$SLOW" = 1 ]; then exit 2; fi
if [ "$RC" != 0 ]; then echo "INCONCLUSIVE property=C15: libFuzzer exited $RC without an artifact (see $TDIR.run.log)"; exit 2; fi
exit 0
