#!/usr/bin/env python3
"""Keeps known_findings.json 'fixed' entries pointing at the right commits: each entry carries the
commit subject; the short sha is re-resolved from /repo's current history."""
import json, subprocess
p = '/verif/known_findings.json'
k = json.load(open(p))
log = subprocess.run(['git', '-C', '/repo', 'log', '--format=%h\t%s'], capture_output=True, text=True).stdout.splitlines()
by_subject = {l.split('\t', 1)[1]: l.split('\t', 1)[0] for l in log}
for e in k['fixed']:
    if 'subject' not in e:
        # first time: take the subject from the (possibly rewritten-away) commit object
        r = subprocess.run(['git', '-C', '/repo', 'log', '-1', '--format=%s', e['commit']], capture_output=True, text=True)
        if r.returncode == 0 and r.stdout.strip():
            e['subject'] = r.stdout.strip()
    if e.get('subject') in by_subject:
        e['commit'] = by_subject[e['subject']]
    else:
        print('UNRESOLVED', e.get('commit'), e.get('subject'))
json.dump(k, open(p, 'w'), indent=1)
print('fixed entries:', len(k['fixed']))
