#!/usr/bin/env bash
# Prepare a scratch worktree for a seeding sub-agent: usage seed_setup.sh <Cxx> <round>
# Creates /tmp/seed<round>-<Cxx> (worktree of /repo HEAD) and /tmp/seed-tools/nextest.toml; prints the agent brief path.
set -eu
P="$1"; R="$2"
WT="/tmp/seed$R-$P"
mkdir -p /tmp/seed-tools
cp /verif/scripts/nextest.toml /tmp/seed-tools/nextest.toml
git -C /repo worktree remove --force "$WT" 2>/dev/null || true
rm -rf "$WT"
git -C /repo worktree add -q --detach "$WT" HEAD
mkdir -p "$WT/SEED/demo"
python3 /verif/scripts/seed_prompt.py "$P" "$R" > "/tmp/seed-tools/prompt${R}_$P.txt"
echo "/tmp/seed-tools/prompt${R}_$P.txt"
