#!/usr/bin/env bash
# verify + evaluate one seeded change, then drop its worktree: usage seed_process.sh <Cxx> <round> [extra checks...]
P="$1"; R="$2"; shift 2
OUT=/verif/seeded/$P-$R; [ "$R" = 1 ] && OUT=/verif/seeded/$P
mkdir -p "$OUT"
/verif/scripts/verify_seed.sh "$P" "$R" 2>&1 | tail -1
SEED_ROUND=$R /verif/scripts/eval_seed.sh "$P" "$@" 2>&1 | grep -v "^WARNING conda"
WT=/tmp/seed$R-$P; [ "$R" = 1 ] && WT=/tmp/seed-$P
if [ -f "$OUT/patch.diff" ]; then git -C /repo worktree remove --force "$WT" 2>/dev/null; rm -rf "$WT"; fi
