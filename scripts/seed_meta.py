#!/usr/bin/env python3
"""Compose /verif/seeded/<id>/meta.json from the seeding agent's meta, the verification log and check logs.
usage: seed_meta.py <Cxx> "<caught_by note>" """
import json, sys, os, re, glob
pid = sys.argv[1]; note = sys.argv[2] if len(sys.argv) > 2 else ""
d = f'/verif/seeded/{pid}'  # pid may be 'Cxx' or 'Cxx-2' (second seeding round)
agent = {}
try: agent = json.load(open(f'{d}/meta.agent.json'))
except Exception: pass
checks = {}
for f in sorted(glob.glob(f'{d}/check_*.log')):
    c = re.search(r'check_(C\d+)\.log', f).group(1)
    txt = open(f).read()
    last = txt.strip().splitlines()[-1] if txt.strip() else ''
    sigs = sorted(set(re.findall(r'signature=(\S+)', txt)))[:6]
    checks[c] = {"result_line": last, "violations": len(re.findall(r'^VIOLATION', txt, re.M)), "signatures": sigs}
ver = ''
try:
    lines = open(f'{d}/verify.log').read().splitlines()
    ver = [l for l in lines if l.startswith('test result') or 'Summary' in l]
except Exception: ver = []
meta = {
 "property": pid.split("-")[0],
 "title": agent.get("title"),
 "breaks": agent.get("what_breaks"),
 "needs_to_manifest": agent.get("needs_to_manifest"),
 "files_changed": agent.get("files_changed"),
 "why_existing_tests_pass": agent.get("why_existing_tests_pass"),
 "origin": "fresh sub-agent given only the property text and a scratch worktree (no access to /verif)",
 "verified_here": {
   "how": "scripts/verify_seed.sh: demo run with the mutation (must fail), with the patch reversed (must pass), existing tests of the touched crates + ripd + rip-cli with the mutation (nextest; PTY tests excluded: they cannot run in this sandbox)",
   "log_lines": ver,
 },
 "checks_run": {"how": "scripts/eval_seed.sh: patch applied to a fresh worktree of /repo HEAD, registered quick checks run against it via scripts/run_against.sh", "results": checks},
 "caught": note,
}
json.dump(meta, open(f'{d}/meta.json', 'w'), indent=1)
print(pid, 'meta written;', {c: v['violations'] for c, v in checks.items()})
