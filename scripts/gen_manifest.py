#!/usr/bin/env python3
"""Regenerates /verif/MANIFEST.json from scripts/manifest_src.json (single source of truth)."""
import json, os, subprocess
root = os.path.dirname(os.path.dirname(os.path.abspath(__file__)))
src = json.load(open(os.path.join(root, "scripts/manifest_src.json")))
props = [json.loads(l)["id"] for l in open(os.path.join(root, "properties.jsonl"))]
checks = []
for pid in props:
    c = src["checks"].get(pid)
    if not c:
        continue
    checks.append({
        "property_id": pid,
        "quick_cmd": f"./check {pid} --tier quick",
        "thorough_cmd": f"./check {pid} --tier thorough",
        "evidence_file": f"/verif/evidence/{pid}.json",
        "replay_cmd_template": f"./check {pid} --replay {{path}}",
        "engine": c.get("engine", "E1 proptest-runner"),
        "level_claimed": {"category": c["level"], "text": c["text"], "design_ref": c.get("design_ref", f"DESIGN.md §5 {pid}")},
        "level_note": c["note"],
        "technique": c["technique"],
    })
na = [{"property_id": pid, "reason": src["not_applicable"].get(pid, "check not built yet in this round; no claim is made")}
      for pid in props if pid not in src["checks"]]
hooks = src["hooks"]
try:
    log = subprocess.run(["git", "-C", "/repo", "log", "--format=%H %s"], capture_output=True, text=True).stdout.splitlines()
    hooks["source_commits"] = [l.split()[0] for l in log if " verif hook" in l][::-1]
except Exception:
    pass
m = {"version": 1, "setup_cmd": "./check --setup", "hooks": hooks, "engines": src["engines"], "checks": checks,
     "notes": src["notes"], "not_applicable": na}
json.dump(m, open(os.path.join(root, "MANIFEST.json"), "w"), indent=1)
print("checks:", len(checks), "not_applicable:", len(na))
