#!/usr/bin/env bash
# Runs the repository's own test suite with the verification guard OFF (no --cfg rip_verif) and
# compares the set of passing tests with /root/.vp/BASELINE.json stable_pass.
# exit 0 = every stable_pass test passed.
set -u
cd /repo || exit 2
unset RUSTFLAGS CARGO_ENCODED_RUSTFLAGS CARGO_BUILD_RUSTFLAGS
export CARGO_NET_OFFLINE=true
OUT="${1:-/tmp/rip-baseline-off}"
mkdir -p "$OUT"
cargo nextest run --workspace --no-fail-fast --config-file /verif/scripts/nextest.toml --profile pb \
  --test-threads 8 --offline >"$OUT/nextest.log" 2>&1
JUNIT=/repo/target/nextest/pb/junit.xml
python3 - "$JUNIT" <<'PY'
import json, sys, xml.etree.ElementTree as ET
base = json.load(open('/root/.vp/BASELINE.json'))
stable = set(base['stable_pass'])
root = ET.parse(sys.argv[1]).getroot()
passed, failed = set(), set()
for suite in root.iter('testsuite'):
    sname = suite.get('name')
    for case in suite.iter('testcase'):
        tid = f"{sname}::{case.get('name')}"
        bad = any(ch.tag in ('failure', 'error') for ch in case)
        (failed if bad else passed).add(tid)
missing = sorted(stable - passed)
print(f"passed={len(passed)} failed={len(failed)} stable_pass={len(stable)} stable_missing={len(missing)}")
for m in missing:
    print("  MISSING/FAILED:", m)
sys.exit(0 if not missing else 1)
PY
