//! C09 — compaction follows message count alone; idempotent and replay-safe.
//!
//! Oracle chain: property text + docs/03_contracts/compaction.md (+ ADR-0011/12/13/14) → a small
//! reference model over the truth frames of the thread (read by `Sandbox::truth_thread`, an
//! independent reader of events.jsonl) → every compaction response and every frame the call
//! appended. Caches are never touched (that is C04's subject).

#[path = "c09/model.rs"]
mod model;
#[path = "c09/checks.rs"]
mod checks;
#[path = "c09/conc.rs"]
mod conc;

use proptest::prelude::*;
use rv::engine::runner::catch;
use rv::engine::{pick, CaseReport, Check, GroupOpts};
use rv::store::{ops_strategy, Interp, Op, OpWeights};
use serde::{Deserialize, Serialize};
use serde_json::json;

use checks::{exec_call, RunState};

// ---------------------------------------------------------------------------------------------
// Case
// ---------------------------------------------------------------------------------------------

#[derive(Debug, Clone, Serialize, Deserialize, PartialEq)]
pub enum StrideSel {
    /// request field absent (documented default 10 000)
    Default,
    Abs(u64),
    /// n + d where n = message count of the thread at call time (d ∈ {-1,0,1})
    RelN(i8),
    /// max(1, n / k): a stride with about k cut points
    Frac(u8),
}

impl StrideSel {
    pub fn resolve(&self, n: u64) -> Option<u64> {
        match self {
            StrideSel::Default => None,
            StrideSel::Abs(x) => Some(*x),
            StrideSel::RelN(d) => Some(if *d < 0 {
                n.saturating_sub(d.unsigned_abs() as u64)
            } else {
                n.saturating_add(*d as u64)
            }),
            StrideSel::Frac(k) => Some((n / (*k).max(1) as u64).max(1)),
        }
    }
}

#[derive(Debug, Clone, Serialize, Deserialize, PartialEq)]
pub enum ManualSel {
    /// an existing message, by id
    Msg { choice: u16 },
    /// an existing message, by its seq
    SeqBoundary { choice: u16 },
    /// a seq that is not a message boundary (non-message frame, head+1, u64::MAX)
    SeqOff { choice: u16 },
    /// well-formed uuid that names no frame of the thread
    UnknownMsg,
    /// id of a non-message frame of the thread
    NonMessageId { choice: u16 },
    /// both selectors given
    Both { choice: u16 },
    /// stride selector (0 / not reached / reached)
    Stride { stride: StrideSel },
    /// a cut that already carries a checkpoint frame (latest frame must win afterwards)
    OnCheckpointed { choice: u16, by_seq: bool },
    /// one of the stride cut points
    OnStrideCut { stride: StrideSel, choice: u16, by_seq: bool },
}

#[derive(Debug, Clone, Serialize, Deserialize, PartialEq)]
pub enum Call {
    CutPoints { t: u16, stride: StrideSel, limit: Option<u32> },
    Status { t: u16, stride: StrideSel },
    Auto { t: u16, stride: StrideSel, max_new: Option<u32>, dry_run: Option<bool>, repeat: u8 },
    Schedule {
        t: u16,
        stride: StrideSel,
        max_new: Option<u32>,
        block: Option<bool>,
        execute: Option<bool>,
        dry_run: Option<bool>,
        repeat: u8,
    },
    Manual { t: u16, sel: ManualSel, markdown: bool },
    UnknownThread,
}

#[derive(Debug, Clone, Serialize, Deserialize)]
pub enum Step {
    Op(Op),
    Call(Call),
}

#[derive(Debug, Clone, Serialize, Deserialize)]
pub struct Case {
    /// HTTP tail: (thread choice, stride, max_new) for POST /threads/{id}/compaction-auto on a copy
    /// of the final store
    #[serde(default)]
    pub http: Option<(u16, Option<u64>, Option<u32>)>,
    pub steps: Vec<Step>,
}

fn t_s() -> BoxedStrategy<u16> {
    prop_oneof![3 => Just(0u16), 1 => any::<u16>()].boxed()
}

/// strides for mutating calls: favour values that yield cut points on threads of 5–60 messages
fn stride_mut_s() -> BoxedStrategy<StrideSel> {
    prop_oneof![
        2 => Just(StrideSel::Abs(1)),
        5 => Just(StrideSel::Abs(2)),
        5 => Just(StrideSel::Abs(3)),
        4 => Just(StrideSel::Abs(5)),
        2 => Just(StrideSel::Abs(16)),
        1 => Just(StrideSel::Abs(0)),
        1 => Just(StrideSel::RelN(-1)),
        2 => Just(StrideSel::RelN(0)),
        1 => Just(StrideSel::RelN(1)),
        1 => Just(StrideSel::Abs(10_000)),
        1 => Just(StrideSel::Abs(u64::MAX)),
        1 => Just(StrideSel::Default),
        4 => (2u8..7).prop_map(StrideSel::Frac),
    ]
    .boxed()
}

fn stride_query_s() -> BoxedStrategy<StrideSel> {
    prop_oneof![
        2 => Just(StrideSel::Abs(1)),
        2 => Just(StrideSel::Abs(2)),
        2 => Just(StrideSel::Abs(3)),
        2 => Just(StrideSel::Abs(5)),
        1 => Just(StrideSel::Abs(16)),
        1 => Just(StrideSel::Abs(0)),
        1 => Just(StrideSel::RelN(-1)),
        1 => Just(StrideSel::RelN(0)),
        1 => Just(StrideSel::RelN(1)),
        1 => Just(StrideSel::Abs(10_000)),
        1 => Just(StrideSel::Abs(u64::MAX)),
        1 => Just(StrideSel::Default),
        2 => (2u8..7).prop_map(StrideSel::Frac),
    ]
    .boxed()
}

fn limit_s() -> BoxedStrategy<Option<u32>> {
    prop_oneof![
        Just(None),
        Just(Some(0u32)),
        Just(Some(1)),
        Just(Some(2)),
        Just(Some(32)),
        Just(Some(33)),
        Just(Some(u32::MAX))
    ]
    .boxed()
}

fn max_new_s() -> BoxedStrategy<Option<u32>> {
    prop_oneof![
        4 => Just(None),
        1 => Just(Some(0u32)),
        3 => Just(Some(1)),
        3 => Just(Some(2)),
        2 => Just(Some(3)),
        1 => Just(Some(32)),
        1 => Just(Some(33)),
        1 => Just(Some(u32::MAX)),
    ]
    .boxed()
}

fn dry_s() -> BoxedStrategy<Option<bool>> {
    prop_oneof![3 => Just(None), 2 => Just(Some(false)), 1 => Just(Some(true))].boxed()
}

fn repeat_s() -> BoxedStrategy<u8> {
    prop_oneof![3 => Just(0u8), 3 => Just(1u8), 1 => Just(2u8)].boxed()
}

fn manual_sel_s() -> BoxedStrategy<ManualSel> {
    prop_oneof![
        3 => any::<u16>().prop_map(|choice| ManualSel::Msg { choice }),
        3 => any::<u16>().prop_map(|choice| ManualSel::SeqBoundary { choice }),
        2 => any::<u16>().prop_map(|choice| ManualSel::SeqOff { choice }),
        1 => Just(ManualSel::UnknownMsg),
        1 => any::<u16>().prop_map(|choice| ManualSel::NonMessageId { choice }),
        1 => any::<u16>().prop_map(|choice| ManualSel::Both { choice }),
        2 => prop_oneof![3 => stride_query_s(), 1 => Just(StrideSel::Abs(0))].prop_map(|stride| ManualSel::Stride { stride }),
        4 => (any::<u16>(), any::<bool>()).prop_map(|(choice, by_seq)| ManualSel::OnCheckpointed { choice, by_seq }),
        3 => (stride_mut_s(), any::<u16>(), any::<bool>())
            .prop_map(|(stride, choice, by_seq)| ManualSel::OnStrideCut { stride, choice, by_seq }),
    ]
    .boxed()
}

fn call_s() -> BoxedStrategy<Call> {
    prop_oneof![
        4 => (t_s(), stride_query_s(), limit_s()).prop_map(|(t, stride, limit)| Call::CutPoints { t, stride, limit }),
        3 => (t_s(), stride_query_s()).prop_map(|(t, stride)| Call::Status { t, stride }),
        8 => (t_s(), stride_mut_s(), max_new_s(), dry_s(), repeat_s())
            .prop_map(|(t, stride, max_new, dry_run, repeat)| Call::Auto { t, stride, max_new, dry_run, repeat }),
        5 => (
            t_s(),
            stride_mut_s(),
            max_new_s(),
            prop_oneof![2 => Just(None), 1 => Just(Some(true)), 3 => Just(Some(false))],
            prop_oneof![3 => Just(None), 2 => Just(Some(true)), 1 => Just(Some(false))],
            dry_s(),
            repeat_s()
        )
            .prop_map(|(t, stride, max_new, block, execute, dry_run, repeat)| Call::Schedule {
                t, stride, max_new, block, execute, dry_run, repeat
            }),
        // wide plans: stride 1 with max_new at / beyond the documented cap of 32
        1 => (t_s(), prop_oneof![Just(Some(32u32)), Just(Some(33)), Just(Some(u32::MAX))], dry_s(), repeat_s())
            .prop_map(|(t, max_new, dry_run, repeat)| Call::Auto { t, stride: StrideSel::Abs(1), max_new, dry_run, repeat }),
        1 => (t_s(), prop_oneof![Just(Some(32u32)), Just(Some(33)), Just(Some(u32::MAX))], dry_s())
            .prop_map(|(t, max_new, dry_run)| Call::Schedule { t, stride: StrideSel::Abs(1), max_new, block: Some(false), execute: None, dry_run, repeat: 0 }),
        4 => (t_s(), manual_sel_s(), prop::bool::weighted(0.9))
            .prop_map(|(t, sel, markdown)| Call::Manual { t, sel, markdown }),
        1 => Just(Call::UnknownThread),
    ]
    .boxed()
}

/// history weights: compaction ops are generated separately (as `Call`s, with a richer parameter
/// domain and full checks), so the shared op generator only builds the thread.
fn weights(profile: u8) -> OpWeights {
    match profile {
        // sparse, single thread: mostly messages
        0 => OpWeights { msg: 30, run: 2, run_linked: 1, cursor: 1, side_effects: 1, checkpoint: 0, auto: 0, branch: 0, restart: 1, ensure: 1 },
        // dense: many non-message frames between messages
        1 => OpWeights { msg: 10, run: 8, run_linked: 4, cursor: 4, side_effects: 8, checkpoint: 0, auto: 0, branch: 0, restart: 1, ensure: 1 },
        // several threads (branch / handoff children share the store)
        _ => OpWeights { msg: 30, run: 3, run_linked: 1, cursor: 1, side_effects: 2, checkpoint: 0, auto: 0, branch: 1, restart: 2, ensure: 1 },
    }
}

fn case_strategy(max_ops: usize, max_calls: usize) -> BoxedStrategy<Case> {
    prop_oneof![5 => Just(0u8), 3 => Just(1u8), 2 => Just(2u8), 1 => Just(3u8)]
        .prop_flat_map(move |profile| {
            let len = match profile {
                1 => max_ops * 2,
                3 => max_ops + max_ops / 3,
                _ => max_ops,
            };
            (
                Just(profile),
                ops_strategy(weights(if profile == 3 { 0 } else { profile }), len),
                proptest::collection::vec((any::<u16>(), call_s()), 1..max_calls),
                prop_oneof![Just(Some(32u32)), Just(Some(33)), Just(Some(u32::MAX))],
                prop_oneof![
                    15 => Just(None),
                    1 => (any::<u16>(), prop_oneof![Just(Some(1u64)), Just(Some(2)), Just(Some(3)), Just(Some(5)), Just(None)], prop_oneof![Just(None), Just(Some(1u32)), Just(Some(2)), Just(Some(3)), Just(Some(32))]).prop_map(Some),
                ],
            )
        })
        .prop_map(|(profile, ops, mut calls, wide_max, http)| {
            let mut steps: Vec<Step> = ops.into_iter().map(Step::Op).collect();
            let n = steps.len();
            if profile == 3 {
                // "wide" profile: a long untouched thread, then every call at the end, the first one
                // an auto call on stride 1 with max_new at / beyond the documented cap (>= 32 open cuts)
                calls.truncate(6);
                for c in calls.iter_mut() {
                    c.0 = u16::MAX;
                }
                calls.insert(
                    0,
                    (u16::MAX, Call::Auto { t: 0, stride: StrideSel::Abs(1), max_new: wide_max, dry_run: None, repeat: 1 }),
                );
            }
            let mut inserts: Vec<(usize, Step)> =
                calls.into_iter().map(|(pos, c)| (pick(pos, n) + 1, Step::Call(c))).collect();
            inserts.sort_by_key(|(p, _)| *p);
            for (p, s) in inserts.into_iter().rev() {
                steps.insert(p.min(steps.len()), s);
            }
            Case { steps, http }
        })
        .boxed()
}

// ---------------------------------------------------------------------------------------------
// Runner
// ---------------------------------------------------------------------------------------------

fn run(case: &Case) -> CaseReport {
    let mut rep = CaseReport::new();
    let mut it = Interp::new("c09a");
    let mut st = RunState::default();
    for (i, step) in case.steps.iter().enumerate() {
        match step {
            Step::Op(op) => {
                if matches!(op, Op::Restart) && st.mutations > 0 {
                    st.restart_after_mutation = true;
                }
                if catch(|| it.apply(op)).is_err() {
                    // a panic in a non-compaction operation is not C09's subject
                    rep.class("history_op_panicked");
                    rep.count("history_op_panics", 1);
                    return rep;
                }
            }
            Step::Call(c) => {
                let r = catch(|| exec_call(&mut it, c, i, Some((&mut rep, &mut st))));
                if let Err(p) = r {
                    rep.fail(format!("panic|{}", checks::call_tag(c)), json!({"step": i, "panic": p}));
                    return rep;
                }
            }
        }
    }
    checks::end_of_case(&it, &mut rep, &mut st);
    if let (Some((which, stride, max_new)), true) = (case.http, rep.ok()) {
        if let Err(p) = catch(|| checks::http_tail(&it, which, stride, max_new, &mut rep, &mut st)) {
            rep.fail("panic|http_auto", json!({"panic": p}));
        }
    }
    if st.auto_checkpoints > 0 && rep.ok() {
        // determinism: the same steps into a second, fresh store
        let mut b = Interp::new("c09b");
        let mut ok = true;
        for (i, step) in case.steps.iter().enumerate() {
            let r = match step {
                Step::Op(op) => catch(|| {
                    b.apply(op);
                }),
                Step::Call(c) => catch(|| exec_call(&mut b, c, i, None)),
            };
            if r.is_err() {
                ok = false;
                break;
            }
        }
        if ok {
            checks::compare_stores(&it, &b, &mut rep, &mut st);
        } else {
            rep.fail("determinism|second_store_panicked", json!({}));
        }
    }
    st.finish(&mut rep);
    rep
}

fn main() {
    let mut check = Check::new("C09", "exploration");
    check.assume("oracle = reference model over the truth frames of the thread (Sandbox::truth_thread): messages = continuity_message_appended frames in stream order; cut points = ordinals k*stride latest-first, at most clamp(limit,1,32); checkpointed <=> a checkpoint frame with that to_seq exists, latest frame wins (compaction.md, ADR-0011)");
    check.assume("caches are never faulted here (C04); inflight_job_id is documented best-effort and not asserted; skipped_inflight is only demanded when the unfinished job's spawn frame lies well inside the documented best-effort tail window");
    check.assume("limit=0 accepts either an empty list (doc: length <= limit) or the clamp-to-1 result; limit>32 accepts clamp-to-32 or the documented limit_too_large error; schedule decision \"dry_run\" (not in the documented enum, asserted by the repository's own server test) is tolerated for dry_run=true and counted");
    check.assume("order of checkpoint frames inside a job and of `planned` lists is not documented: compared as sets; job_spawned precedes and job_ended follows all checkpoint frames of the job");
    check.assume("the HTTP surface of compaction-auto (synchronous plan + spawn frame, job executed on the blocking pool) is exercised on a byte copy of the final store in ~6 % of the cases (a router costs 0.3 s to build); compaction-auto-schedule is exercised at store level only");
    let rule = "history from rv::store::ops_strategy (profiles: sparse / dense non-message frames / several threads; restarts) interleaved with generated compaction calls (cut_points, status, auto, schedule, manual checkpoint; strides 0,1,2,3,5,16,n-1,n,n+1,n/k,1e4,u64::MAX,default; limits/max_new 0,1,2,3,32,33,u32::MAX; immediate repeats); responses and appended frames compared with the model computed from truth just before the call; second fresh store for summary-text determinism. non-trivial = an auto/schedule call with >=1 planned cut point, or a repeat call, or a manual checkpoint on an already-checkpointed cut";
    let n = check.cases(3_000, 75_000);
    check.group("history", rule, GroupOpts { cases: n, max_shrink_iters: 500, ..Default::default() }, || case_strategy(70, 22), run);
    if check.known().matches(conc::SIG_SCHED_REPLAN).is_some() {
        conc::SCHED_REPLAN_LISTED.store(true, std::sync::atomic::Ordering::Relaxed);
    }
    let n = check.cases(150, 3_750);
    check.group(
        "concurrent",
        "generated history, then 2-4 OS threads sharing one ContinuityStore issue auto/schedule/cut_points/status calls while another thread appends messages; afterwards stream numbering, job frame pairing, checkpoint validity (message boundary at a stride multiple, readable summary with matching coverage), job result == planned. non-trivial = >=1 job ran concurrently with another caller (>=2 jobs spawned in the concurrent phase)",
        GroupOpts { cases: n, ..Default::default() },
        conc::case_strategy,
        conc::run,
    );
    check.finish();
}
