// ---------------------------------------------------------------------------------------------
// group `child_visibility` (included into c10.rs): "a new thread whose first two frames are its
// creation and its lineage record" under a harness-owned schedule. Actor A branches / hands off;
// actor B behaves like a client that watches the thread list and posts to a new thread the moment
// it becomes visible. A is parked at the store's hook points (log, cache, index) following a
// generated choice vector, B runs in between. Whatever the interleaving, a thread that can be
// posted to already has both frames.
// ---------------------------------------------------------------------------------------------

use std::sync::Arc;
use std::time::Duration;

use rv::sched::{set_thread_handler, Controller};

#[derive(Debug, Clone, Serialize, Deserialize)]
struct VisCase {
    pre_msgs: u8,
    /// per creation: handoff (true) or branch (false)
    creations: Vec<bool>,
    b_polls: u8,
    choices: Vec<u16>,
}

fn vis_case_strategy() -> BoxedStrategy<VisCase> {
    (0u8..4, proptest::collection::vec(any::<bool>(), 1..3), 8u8..40, proptest::collection::vec(any::<u16>(), 0..60))
        .prop_map(|(pre_msgs, creations, b_polls, choices)| VisCase { pre_msgs, creations, b_polls, choices })
        .boxed()
}

fn run_vis(case: &VisCase) -> CaseReport {
    let mut rep = CaseReport::new();
    let sb = rv::store::Sandbox::new("c10vis");
    let live = Arc::new(sb.open());
    let Ok(main) = live.store.ensure_default() else {
        rep.inconclusive("ensure_failed");
        return rep;
    };
    for i in 0..case.pre_msgs {
        let _ = live.store.append_message(&main, "user".into(), "cli".into(), format!("pre {i}"));
    }
    let ctrl = Controller::new(2);
    ctrl.only_points(&["log.before_write", "log.after_flush", "cache.done", "index.after_tmp", "index.after_rename", "artifact.after_rename", "h.poll"]);
    let mut handles = Vec::new();
    {
        // A: the creations
        let (live, ctrl, main, creations) = (live.clone(), ctrl.clone(), main.clone(), case.creations.clone());
        handles.push(std::thread::spawn(move || {
            set_thread_handler(Some(ctrl.thread_handler(0)));
            ctrl.arrive(0, "start");
            let _ = catch(|| {
                for (k, handoff) in creations.iter().enumerate() {
                    if *handoff {
                        let _ = live.store.handoff(&main, Some(format!("h{k}")), (Some("summary".to_string()), None), None, None, ("user".to_string(), "cli".to_string()));
                    } else {
                        let _ = live.store.branch(&main, Some(format!("b{k}")), None, None, "user".to_string(), "cli".to_string());
                    }
                }
            });
            set_thread_handler(None);
            ctrl.finish(0);
        }));
    }
    {
        // B: posts to every thread other than main as soon as the list shows it
        let (live, ctrl, main, polls) = (live.clone(), ctrl.clone(), main.clone(), case.b_polls);
        handles.push(std::thread::spawn(move || {
            set_thread_handler(Some(ctrl.thread_handler(1)));
            ctrl.arrive(1, "start");
            let _ = catch(|| {
                let mut posted: BTreeSet<String> = BTreeSet::new();
                for _ in 0..polls {
                    for meta in live.store.list() {
                        if meta.continuity_id != main && posted.insert(meta.continuity_id.clone()) {
                            let _ = live.store.append_message(&meta.continuity_id, "user".into(), "cli".into(), "first post to the new thread".into());
                        }
                    }
                    ctrl.arrive(1, "h.poll");
                }
            });
            set_thread_handler(None);
            ctrl.finish(1);
        }));
    }
    let ok = ctrl.run(&case.choices, Duration::from_secs(20));
    ctrl.release_all();
    for h in handles {
        let _ = h.join();
    }
    if !ok {
        rep.inconclusive("schedule_deadline");
        return rep;
    }
    // ---- verdict from the raw log
    let values = match sb.truth_values() {
        Ok(v) => v,
        Err(e) => {
            rep.fail("child_visibility|log_unreadable", json!({"error": e}));
            return rep;
        }
    };
    let mut by_thread: std::collections::BTreeMap<String, Vec<&Value>> = Default::default();
    for v in &values {
        if v["stream_kind"] == "continuity" {
            by_thread.entry(v["stream_id"].as_str().unwrap_or("").to_string()).or_default().push(v);
        }
    }
    let mut children = 0u64;
    let mut posted_children = 0u64;
    for (tid, frames) in &by_thread {
        if *tid == main {
            continue;
        }
        children += 1;
        let types: Vec<&str> = frames.iter().take(4).map(|f| f["type"].as_str().unwrap_or("")).collect();
        let lineage_second = matches!(types.get(1), Some(&"continuity_branched") | Some(&"continuity_handoff_created"));
        if frames.iter().any(|f| f["type"] == "continuity_message_appended") {
            posted_children += 1;
        }
        if types.first() != Some(&"continuity_created") || (frames.len() >= 2 && !lineage_second) {
            rep.fail("child_visibility|first_two_frames_not_creation_then_lineage", json!({"thread": tid, "first_frames": types, "trace": ctrl.trace().iter().map(|(a, p)| format!("{a}:{p}")).collect::<Vec<_>>()}));
        } else if frames.len() == 1 {
            // a child that exists with its creation frame alone after A finished
            rep.fail("child_visibility|child_without_lineage_frame", json!({"thread": tid}));
        }
    }
    rep.count("children", children);
    rep.count("children_posted_to_by_the_watcher", posted_children);
    rep.class_if(posted_children > 0, "watcher_posted_to_a_child");
    rep.nontrivial = posted_children > 0;
    rep
}
