//! Writes seed corpora for the libFuzzer targets from the harness's own generators (fixed seed, so
//! the files are reproducible). usage: corpusgen frame_roundtrip <dir> [count]
use proptest::strategy::{Strategy, ValueTree};
use proptest::test_runner::{Config, RngAlgorithm, TestRng, TestRunner};
use rv::gen::frame::{kinds, wire_frame_of, FrameOpts};
use rv::gen::json::JsonOpts;

fn main() {
    let args: Vec<String> = std::env::args().collect();
    let (target, dir) = (args.get(1).map(String::as_str).unwrap_or(""), args.get(2).expect("dir"));
    let count: usize = args.get(3).and_then(|s| s.parse().ok()).unwrap_or(3);
    std::fs::create_dir_all(dir).expect("dir");
    let mut runner = TestRunner::new_with_rng(
        Config { failure_persistence: None, ..Config::default() },
        TestRng::from_seed(RngAlgorithm::ChaCha, &[7u8; 32]),
    );
    match target {
        "frame_roundtrip" => {
            let opts = FrameOpts { big_chunks: false, json: JsonOpts { depth: 3, floats: true, max_len: 3 } };
            let mut all: Vec<String> = Vec::new();
            for k in kinds() {
                for n in 0..count {
                    let v = wire_frame_of(&k, opts).new_tree(&mut runner).expect("tree").current();
                    let line = serde_json::to_string(&v).expect("json");
                    std::fs::write(format!("{dir}/{}-{n}", k.tag), &line).expect("write");
                    if n == 0 {
                        all.push(line);
                    }
                }
            }
            // multi-line seeds: several streams in one input
            for (n, chunk) in all.chunks(5).enumerate() {
                std::fs::write(format!("{dir}/multi-{n}"), chunk.join("\n")).expect("write");
            }
        }
        other => panic!("unknown target {other:?}"),
    }
}
