//! Writes seed corpora for the libFuzzer targets from the harness's own generators (fixed seed, so
//! the files are reproducible). usage: corpusgen frame_roundtrip <dir> [count]
use proptest::strategy::{Strategy, ValueTree};
use proptest::test_runner::{Config, RngAlgorithm, TestRng, TestRunner};
use rv::gen::frame::{kinds, wire_frame_of, FrameOpts};
use rv::gen::json::JsonOpts;

fn main() {
    let args: Vec<String> = std::env::args().collect();
    let (target, dir) = (args.get(1).map(String::as_str).unwrap_or(""), args.get(2).expect("dir"));
    let count: usize = args.get(3).and_then(|s| s.parse().ok()).unwrap_or(3);
    std::fs::create_dir_all(dir).expect("dir");
    let mut runner = TestRunner::new_with_rng(
        Config { failure_persistence: None, ..Config::default() },
        TestRng::from_seed(RngAlgorithm::ChaCha, &[7u8; 32]),
    );
    match target {
        "frame_roundtrip" => {
            let opts = FrameOpts { big_chunks: false, json: JsonOpts { depth: 3, floats: true, max_len: 3 } };
            let mut all: Vec<String> = Vec::new();
            for k in kinds() {
                for n in 0..count {
                    let v = wire_frame_of(&k, opts).new_tree(&mut runner).expect("tree").current();
                    let line = serde_json::to_string(&v).expect("json");
                    std::fs::write(format!("{dir}/{}-{n}", k.tag), &line).expect("write");
                    if n == 0 {
                        all.push(line);
                    }
                }
            }
            // multi-line seeds: several streams in one input
            for (n, chunk) in all.chunks(5).enumerate() {
                std::fs::write(format!("{dir}/multi-{n}"), chunk.join("\n")).expect("write");
            }
        }
        "tui_fold" => {
            let opts = FrameOpts { big_chunks: false, json: JsonOpts { depth: 2, floats: true, max_len: 3 } };
            let ks = kinds();
            let ops = ["!o", "!t", "!a", "!k", "!d", "!c", "!n12345", "!f0", "!f1", "!s3", "!r80x24d", "!r40x10", "!r0x0d", "!r200x60"];
            // one file per frame type (three frames + a render) and mixed files with UI operations
            for (i, k) in ks.iter().enumerate() {
                let mut lines: Vec<String> = Vec::new();
                for n in 0..3 {
                    let mut v = wire_frame_of(k, opts).new_tree(&mut runner).expect("tree").current();
                    v["seq"] = serde_json::json!(n);
                    lines.push(serde_json::to_string(&v).expect("json"));
                }
                lines.push(ops[10 + i % 4].to_string());
                let mut bytes = vec![(i % 8) as u8, 0, 1, (i % 4) as u8];
                bytes.extend(lines.join("\n").as_bytes());
                std::fs::write(format!("{dir}/{}", k.tag), bytes).expect("write");
            }
            for n in 0..count * 8 {
                let mut lines: Vec<String> = Vec::new();
                for j in 0..12 {
                    let k = &ks[(n * 7 + j * 5) % ks.len()];
                    let mut v = wire_frame_of(k, opts).new_tree(&mut runner).expect("tree").current();
                    v["seq"] = serde_json::json!(match n % 4 { 0 => j as u64, 1 => (j * 2) as u64, 2 => (12 - j) as u64, _ => (j / 2) as u64 });
                    lines.push(serde_json::to_string(&v).expect("json"));
                    lines.push(ops[(n + j * 3) % ops.len()].to_string());
                }
                let mut bytes = vec![(n % 8) as u8, 40, 0, (n % 4) as u8];
                bytes.extend(lines.join("\n").as_bytes());
                std::fs::write(format!("{dir}/mixed-{n}"), bytes).expect("write");
            }
        }
        other => panic!("unknown target {other:?}"),
    }
}
