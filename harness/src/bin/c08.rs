//! C08 — compiled context is a pure function of thread truth up to the cut point.
//!
//! Histories are built through the real router (stub runs produce reply text, snapshots and
//! run_ended frames), then extended through the public store API (repeated run_ended frames,
//! dense non-message frames). The run-time compile entry point (H7) is evaluated for generated
//! anchors in several variants — caches intact / cache files deleted / caches removed / snapshots
//! removed / frames appended beyond the cut / frames appended WHILE compiling (hook
//! `compile.after_tail`) — and every result must equal the reference compiler written from
//! docs/03_contracts/context_bundle.md, ADR-0010/0018 and the property statement.

use std::sync::Arc;
use std::time::Duration;

use axum::http::Method;
use proptest::prelude::*;
use rip_kernel::{Event, EventKind};
use ripd::{ContinuityRunLink, ToolSideEffects};
use rv::engine::{pick, CaseReport, Check, GroupOpts};
use rv::fuel::{guarded, Guarded};
use rv::store::{Live, Sandbox};
use serde::{Deserialize, Serialize};
use serde_json::{json, Value};

const LIMIT: usize = 16;
const MAX_REFS: usize = 3;
const CUMULATIVE: &str = "cumulative_v1";

#[derive(Debug, Clone, Serialize, Deserialize)]
enum HStep {
    /// prompt through the router: stub run answers "ack: <content>"
    Post { content: String },
    /// tool envelope through the router: a run without reply text
    PostTool { n: u8 },
    /// a session not attached to the thread (its text can later be named by a run_ended frame)
    PlainSession { content: String },
    ManualByStride { stride: u8 },
    ManualByMessage { m: u16 },
    Auto { stride: u8, max_new: u8 },
    Rotate,
}

#[derive(Debug, Clone, Serialize, Deserialize)]
enum XOp {
    /// a further run_ended frame naming message m and session s (the LAST one at or before the cut wins)
    RunEndedAgain { m: u16, s: u16 },
    Cursor,
    SideEffects { n: u8 },
    Message { content: String },
}

#[derive(Debug, Clone, Serialize, Deserialize)]
struct Case {
    steps: Vec<HStep>,
    xops: Vec<XOp>,
    anchors: Vec<u16>,
    /// cache files to delete for variant (b): choices over the sorted file list
    deletes: Vec<u16>,
    /// frames appended beyond the cut for variant (d)
    beyond: Vec<XOp>,
    /// frames appended while compile sits at a hook point for variant (f)
    inject: Vec<XOp>,
    /// false: at `compile.before_tail` (after the head read), true: at `compile.after_tail`
    #[serde(default)]
    inject_after_tail: bool,
}

fn content() -> BoxedStrategy<String> {
    prop_oneof![
        8 => "[a-z]{1,8}( [a-z]{1,8}){0,3}".prop_map(|s| s),
        1 => rv::gen::text::text(20).prop_filter("non-json", |s| !s.trim_start().starts_with('{') && !s.trim().is_empty()),
        1 => "[a-z]{3}".prop_map(|w| w.repeat(400)),
    ]
    .boxed()
}

fn xop() -> BoxedStrategy<XOp> {
    prop_oneof![
        3 => (any::<u16>(), any::<u16>()).prop_map(|(m, s)| XOp::RunEndedAgain { m, s }),
        2 => Just(XOp::Cursor),
        3 => (1u8..6).prop_map(|n| XOp::SideEffects { n }),
        3 => content().prop_map(|content| XOp::Message { content }),
    ]
    .boxed()
}

fn case_strategy(long: bool) -> BoxedStrategy<Case> {
    let step = prop_oneof![
        12 => content().prop_map(|content| HStep::Post { content }),
        2 => (0u8..3).prop_map(|n| HStep::PostTool { n }),
        1 => content().prop_map(|content| HStep::PlainSession { content }),
        2 => (1u8..5).prop_map(|stride| HStep::ManualByStride { stride }),
        2 => any::<u16>().prop_map(|m| HStep::ManualByMessage { m }),
        3 => (1u8..5, 1u8..4).prop_map(|(stride, max_new)| HStep::Auto { stride, max_new }),
        1 => Just(HStep::Rotate),
    ];
    let n = if long { 18..44usize } else { 2..20usize };
    (
        proptest::collection::vec(step, n),
        proptest::collection::vec(xop(), 0..8),
        proptest::collection::vec(any::<u16>(), 1..4),
        proptest::collection::vec(any::<u16>(), 1..4),
        proptest::collection::vec(xop(), 1..5),
        proptest::collection::vec(xop(), 1..4),
        any::<bool>(),
    )
        .prop_map(|(steps, xops, anchors, deletes, beyond, inject, inject_after_tail)| Case { steps, xops, anchors, deletes, beyond, inject, inject_after_tail })
        .boxed()
}

// ---------------------------------------------------------------------------------------------
// reference compiler
// ---------------------------------------------------------------------------------------------

struct Truth {
    thread: Vec<Event>,
    /// concatenated output_text_delta per session id, from the raw log
    session_text: std::collections::BTreeMap<String, String>,
}

fn read_truth(sb: &Sandbox, tid: &str) -> Truth {
    let mut session_text: std::collections::BTreeMap<String, String> = Default::default();
    for v in sb.truth_values().unwrap_or_default() {
        if v["stream_kind"] == "session" && v["type"] == "output_text_delta" {
            session_text
                .entry(v["stream_id"].as_str().unwrap_or("").to_string())
                .or_default()
                .push_str(v["delta"].as_str().unwrap_or(""));
        }
    }
    Truth { thread: sb.truth_thread(tid).unwrap_or_default(), session_text }
}

fn model_cut(thread: &[Event], anchor: &str) -> Option<u64> {
    let msgs: Vec<&Event> = thread.iter().filter(|e| matches!(e.kind, EventKind::ContinuityMessageAppended { .. })).collect();
    let i = msgs.iter().position(|e| e.id == anchor)?;
    let head = thread.last().map(|e| e.seq).unwrap_or(0);
    let cut = match msgs.get(i + 1) {
        Some(next) => next.seq.saturating_sub(1),
        None => head,
    };
    Some(cut.max(msgs[i].seq))
}

/// The bundle and decision the docs determine for (truth, anchor, cut).
fn model_compile(t: &Truth, tid: &str, anchor: &str, cut: u64) -> Value {
    // candidate checkpoints: cumulative, to_seq <= cut, latest frame per to_seq
    let mut by_to: std::collections::BTreeMap<u64, (u64, Value)> = Default::default();
    for e in &t.thread {
        if let EventKind::ContinuityCompactionCheckpointCreated { checkpoint_id, summary_kind, summary_artifact_id, to_seq, .. } = &e.kind {
            if *to_seq > cut || summary_kind != CUMULATIVE {
                continue;
            }
            let rec = json!({"checkpoint_id": checkpoint_id, "summary_kind": summary_kind, "summary_artifact_id": summary_artifact_id, "to_seq": to_seq});
            match by_to.get(to_seq) {
                Some((fs, _)) if *fs >= e.seq => {}
                _ => {
                    by_to.insert(*to_seq, (e.seq, rec));
                }
            }
        }
    }
    let uniq: Vec<(u64, Value)> = by_to.iter().map(|(k, (_, v))| (*k, v.clone())).collect();
    let mut hierarchy: Vec<(u64, Value)> = Vec::new();
    if let Some(latest) = uniq.last() {
        hierarchy.push(latest.clone());
        let mut current = latest.0;
        while hierarchy.len() < MAX_REFS {
            if current <= 1 {
                break;
            }
            let threshold = current / 2;
            if threshold == 0 {
                break;
            }
            let Some(cand) = uniq.iter().rev().find(|(ts, _)| *ts <= threshold) else { break };
            if cand.0 >= current {
                break;
            }
            hierarchy.push(cand.clone());
            current = cand.0;
        }
        hierarchy.sort_by_key(|(ts, _)| *ts);
    }
    let strategy = match hierarchy.len() {
        0 => "recent_messages_v1",
        1 => "summaries_recent_messages_v1",
        _ => "hierarchical_summaries_recent_messages_v1",
    };
    let after = hierarchy.last().map(|(ts, _)| *ts);
    // replies: last run_ended at or before the cut per message
    let mut ended: std::collections::BTreeMap<String, String> = Default::default();
    for e in &t.thread {
        if e.seq > cut {
            break;
        }
        if let EventKind::ContinuityRunEnded { run_session_id, message_id, .. } = &e.kind {
            ended.insert(message_id.clone(), run_session_id.clone());
        }
    }
    let mut selected: Vec<&Event> = t
        .thread
        .iter()
        .filter(|e| matches!(e.kind, EventKind::ContinuityMessageAppended { .. }))
        .filter(|e| e.seq <= cut && after.map(|a| e.seq > a).unwrap_or(true))
        .collect();
    if selected.len() > LIMIT {
        selected = selected[selected.len() - LIMIT..].to_vec();
    }
    let mut items: Vec<Value> = hierarchy
        .iter()
        .map(|(ts, rec)| json!({"type": "summary_ref", "artifact_id": rec["summary_artifact_id"], "note": format!("compaction checkpoint to_seq={ts}")}))
        .collect();
    for m in selected {
        if let EventKind::ContinuityMessageAppended { actor_id, origin, content } = &m.kind {
            items.push(json!({"type": "message", "role": "user", "content": content, "actor_id": actor_id, "origin": origin, "thread_seq": m.seq, "thread_event_id": m.id}));
            if let Some(sid) = ended.get(&m.id) {
                let text = t.session_text.get(sid).cloned().unwrap_or_default();
                if !text.is_empty() {
                    items.push(json!({"type": "message", "role": "assistant", "content": text, "actor_id": null, "origin": null, "thread_seq": null, "thread_event_id": null}));
                }
            }
        }
    }
    json!({
        "from_seq": cut,
        "from_message_id": anchor,
        "strategy": strategy,
        "checkpoints": hierarchy.iter().map(|(_, r)| r.clone()).collect::<Vec<_>>(),
        "bundle": {
            "compiler": {"id": "rip.context_compiler.v1", "strategy": strategy},
            "source": {"thread_id": tid, "from_seq": cut, "from_message_id": anchor},
            "items": items,
        },
    })
}

/// What the implementation produced, reduced to the compared fields (plus `reason` for the
/// variant-vs-variant comparison).
fn observed(sb: &Sandbox, v: &Value) -> (Value, Value) {
    let id = v["bundle_artifact_id"].as_str().unwrap_or("");
    let bundle: Value = std::fs::read(sb.blob_path(id)).ok().and_then(|b| serde_json::from_slice(&b).ok()).unwrap_or(Value::Null);
    let cmp = json!({
        "from_seq": v["from_seq"],
        "from_message_id": v["from_message_id"],
        "strategy": v["decision"]["compiler_strategy"],
        "checkpoints": v["decision"]["compaction_checkpoints"],
        "bundle": {"compiler": bundle["compiler"], "source": bundle["source"], "items": bundle["items"]},
    });
    let extra = json!({"reason": v["decision"]["reason"], "resets": v["decision"]["resets"], "limits": v["decision"]["limits"],
        "compaction_checkpoint": v["decision"]["compaction_checkpoint"], "schema": bundle["schema"], "provenance": bundle["provenance"], "provider_items": v["items"]});
    (cmp, extra)
}

fn compile(live: &Live, sb: &Sandbox, tid: &str, anchor: &str) -> Result<Value, String> {
    let link = ContinuityRunLink { continuity_id: tid.to_string(), message_id: anchor.to_string(), actor_id: "user".into(), origin: "test".into() };
    let snap = sb.data.join("snapshots");
    match guarded(|| ripd::verif::compile_context_for_run(&live.store, &live.log, &snap, &link, "22222222-2222-4222-8222-222222222222")) {
        Guarded::Done(r) => r,
        Guarded::NonTermination(l) => Err(format!("non_termination:{l}")),
        Guarded::Panicked(p) => Err(format!("panic:{p}")),
    }
}

fn apply_xop(live: &Live, tid: &str, t: &Truth, op: &XOp) {
    let msgs: Vec<&Event> = t.thread.iter().filter(|e| matches!(e.kind, EventKind::ContinuityMessageAppended { .. })).collect();
    match op {
        XOp::RunEndedAgain { m, s } => {
            if msgs.is_empty() || t.session_text.is_empty() {
                return;
            }
            let mid = &msgs[pick(*m, msgs.len())].id;
            let sessions: Vec<&String> = t.session_text.keys().collect();
            let sid = sessions[pick(*s, sessions.len())];
            let _ = live.store.append_run_ended(tid, mid, sid, "completed".into(), "user".into(), "test".into());
        }
        XOp::Cursor => {
            let _ = ripd::verif::append_provider_cursor_updated(&live.store, tid, "openresponses", None, None, Some(json!({"previous_response_id": "r"})), "set", None, None, ("user", "test"));
        }
        XOp::SideEffects { n } => {
            let link = ContinuityRunLink { continuity_id: tid.to_string(), message_id: "m".into(), actor_id: "user".into(), origin: "test".into() };
            for _ in 0..*n {
                let _ = live.store.append_tool_side_effects(&link, "run-x", ToolSideEffects { tool_id: "t".into(), tool_name: "write".into(), affected_paths: None, checkpoint_id: None });
            }
        }
        XOp::Message { content } => {
            let _ = live.store.append_message(tid, "user".into(), "test".into(), content.clone());
        }
    }
}

thread_local! {
    static RT: tokio::runtime::Runtime = rv::runs::runtime(3);
}

fn build_history(case: &Case, rep: &mut CaseReport) -> Option<(Sandbox, String)> {
    RT.with(|rt| {
        rt.block_on(async {
            let auth = rv::runs::Authority::new("c08", None);
            let thread = auth.ensure_thread().await?;
            let mut message_ids: Vec<String> = Vec::new();
            for step in &case.steps {
                match step {
                    HStep::Post { content } => {
                        let (_s, v) = auth.post_message(&thread, content, None).await;
                        if let (Some(mid), Some(sid)) = (v["message_id"].as_str(), v["session_id"].as_str()) {
                            message_ids.push(mid.to_string());
                            if !auth.wait_run_ended(sid, Duration::from_secs(30)).await {
                                rep.inconclusive("run_not_ended");
                                return None;
                            }
                        }
                    }
                    HStep::PostTool { n } => {
                        let input = json!({"tool": "ls", "args": {"path": "."}, "n": n}).to_string();
                        let (_s, v) = auth.post_message(&thread, &input, None).await;
                        if let (Some(mid), Some(sid)) = (v["message_id"].as_str(), v["session_id"].as_str()) {
                            message_ids.push(mid.to_string());
                            if !auth.wait_run_ended(sid, Duration::from_secs(30)).await {
                                rep.inconclusive("run_not_ended");
                                return None;
                            }
                        }
                    }
                    HStep::PlainSession { content } => {
                        if let Some(sid) = auth.create_session().await {
                            let _ = auth.send_input(&sid, content).await;
                            if !auth.wait_snapshot(&sid, Duration::from_secs(30)).await {
                                rep.inconclusive("session_not_ended");
                                return None;
                            }
                        }
                    }
                    HStep::ManualByStride { stride } => {
                        let _ = rv::http::call_json(&auth.router, Method::POST, &format!("/threads/{thread}/compaction-checkpoint"),
                            Some(json!({"summary_markdown": "manual", "stride_messages": stride, "actor_id": "user", "origin": "test"}))).await;
                    }
                    HStep::ManualByMessage { m } => {
                        if !message_ids.is_empty() {
                            let mid = &message_ids[pick(*m, message_ids.len())];
                            let _ = rv::http::call_json(&auth.router, Method::POST, &format!("/threads/{thread}/compaction-checkpoint"),
                                Some(json!({"summary_markdown": "manual by message", "to_message_id": mid, "actor_id": "user", "origin": "test"}))).await;
                        }
                    }
                    HStep::Auto { stride, max_new } => {
                        // through the store semantics of the HTTP handler: job runs in the background; wait for job_ended
                        let (_s, v) = rv::http::call_json(&auth.router, Method::POST, &format!("/threads/{thread}/compaction-auto"),
                            Some(json!({"stride_messages": stride, "max_new_checkpoints": max_new, "actor_id": "user", "origin": "test"}))).await;
                        if let Some(job) = v["job_id"].as_str() {
                            let t0 = std::time::Instant::now();
                            loop {
                                let ended = auth.sandbox.truth_values().unwrap_or_default().iter().any(|f| f["type"] == "continuity_job_ended" && f["job_id"] == job);
                                if ended {
                                    break;
                                }
                                if t0.elapsed() > Duration::from_secs(30) {
                                    rep.inconclusive("job_not_ended");
                                    return None;
                                }
                                tokio::time::sleep(Duration::from_millis(3)).await;
                            }
                        }
                    }
                    HStep::Rotate => {
                        let _ = rv::http::call_json(&auth.router, Method::POST, &format!("/threads/{thread}/provider-cursor-rotate"),
                            Some(json!({"actor_id": "user", "origin": "test"}))).await;
                    }
                }
            }
            let Authority { sandbox, router } = auth;
            drop(router);
            // let the engine's background tasks wind down before another store instance writes
            tokio::time::sleep(Duration::from_millis(5)).await;
            Some((sandbox, thread))
        })
    })
}

use rv::runs::Authority;

fn diff_sig(a: &Value, b: &Value) -> String {
    for key in ["from_seq", "from_message_id", "strategy", "checkpoints"] {
        if a[key] != b[key] {
            return key.to_string();
        }
    }
    if a["bundle"]["compiler"] != b["bundle"]["compiler"] {
        return "bundle.compiler".into();
    }
    if a["bundle"]["source"] != b["bundle"]["source"] {
        return "bundle.source".into();
    }
    let (ia, ib) = (a["bundle"]["items"].as_array().cloned().unwrap_or_default(), b["bundle"]["items"].as_array().cloned().unwrap_or_default());
    if ia.len() != ib.len() {
        return format!("bundle.items.count_{}", if ia.len() < ib.len() { "fewer" } else { "more" });
    }
    for (x, y) in ia.iter().zip(ib.iter()) {
        if x != y {
            let role = y["role"].as_str().or(y["type"].as_str()).unwrap_or("?");
            return format!("bundle.items.{role}");
        }
    }
    "none".into()
}

fn append_bytes(path: &std::path::Path, bytes: &[u8]) {
    use std::io::Write;
    if let Ok(mut f) = std::fs::OpenOptions::new().append(true).open(path) {
        let _ = f.write_all(bytes);
    }
}

fn chop(path: &std::path::Path, n: u64) {
    if let Ok(f) = std::fs::OpenOptions::new().write(true).open(path) {
        if let Ok(len) = f.metadata().map(|m| m.len()) {
            let _ = f.set_len(len.saturating_sub(n));
        }
    }
}

fn run(case: &Case) -> CaseReport {
    let mut rep = CaseReport::new();
    rv::fuel::install();
    let Some((sb, tid)) = build_history(case, &mut rep) else {
        return rep;
    };
    // extend through the store API (a restarted authority over the same store)
    {
        let live = sb.open();
        for op in &case.xops {
            let t = read_truth(&sb, &tid);
            apply_xop(&live, &tid, &t, op);
        }
    }
    let t = read_truth(&sb, &tid);
    let msgs: Vec<&Event> = t.thread.iter().filter(|e| matches!(e.kind, EventKind::ContinuityMessageAppended { .. })).collect();
    if msgs.is_empty() {
        return rep;
    }
    let ncp = t.thread.iter().filter(|e| matches!(e.kind, EventKind::ContinuityCompactionCheckpointCreated { .. })).count();
    rep.class(format!("checkpoints:{}", match ncp { 0 => "0", 1 => "1", 2..=3 => "2-3", _ => "4+" }));
    rep.class(format!("messages:{}", match msgs.len() { 0..=4 => "1-4", 5..=16 => "5-16", _ => "17+" }));
    rep.class_if(t.session_text.values().any(|s| !s.is_empty()), "has_reply_text");

    for a in &case.anchors {
        let ai = pick(*a, msgs.len());
        let anchor = msgs[ai].id.clone();
        let has_successor = ai + 1 < msgs.len();
        rep.class(if has_successor { "anchor:mid" } else { "anchor:tail" });
        let cut = model_cut(&t.thread, &anchor).unwrap_or(0);
        let expected = model_compile(&t, &tid, &anchor, cut);
        let exp_hier = expected["checkpoints"].as_array().map(|c| c.len()).unwrap_or(0);
        rep.class(format!("strategy:{}", expected["strategy"].as_str().unwrap_or("?")));
        if exp_hier >= 1 || msgs.iter().filter(|m| m.seq <= cut).count() > LIMIT || has_successor {
            rep.nontrivial = true;
        }
        let mut results: Vec<(&str, Value, Value)> = Vec::new();
        // (a) caches as built
        let variants: Vec<(&str, Box<dyn Fn() -> Sandbox>)> = vec![
            ("a_caches_intact", Box::new(|| sb.fork("c08a"))),
            ("b_cache_files_deleted", Box::new(|| {
                let f = sb.fork("c08b");
                let files = rv::fault::cache_files(&f.streams_dir());
                for d in &case.deletes {
                    if !files.is_empty() {
                        let _ = std::fs::remove_file(&files[pick(*d, files.len())].1);
                    }
                }
                f
            })),
            ("c_caches_removed", Box::new(|| {
                let f = sb.fork("c08c");
                let _ = std::fs::remove_dir_all(f.streams_dir());
                f
            })),
            ("e_snapshots_removed", Box::new(|| {
                let f = sb.fork("c08e");
                let _ = std::fs::remove_dir_all(f.data.join("snapshots"));
                f
            })),
            // read-path forcing: an unterminated last line (what a crashed cache append leaves)
            // makes one sidecar unusable, so the compile input comes from the next read path
            // (messages+runs sidecar window -> full sidecar window -> replay)
            ("g_mr_sidecar_torn_tail", Box::new(|| {
                let f = sb.fork("c08g");
                append_bytes(&f.streams_dir().join(format!("{tid}.mr.v1.jsonl")), b"{\"id\":\"torn");
                f
            })),
            ("h_mr_sidecar_cut_mid_line", Box::new(|| {
                let f = sb.fork("c08h");
                chop(&f.streams_dir().join(format!("{tid}.mr.v1.jsonl")), 7);
                f
            })),
            ("i_full_sidecar_torn_tail", Box::new(|| {
                let f = sb.fork("c08i");
                append_bytes(&f.streams_dir().join(format!("{tid}.jsonl")), b"{\"id\":\"torn");
                f
            })),
            ("j_both_sidecars_torn_tail", Box::new(|| {
                let f = sb.fork("c08j");
                append_bytes(&f.streams_dir().join(format!("{tid}.mr.v1.jsonl")), b"{\"id\":\"torn");
                append_bytes(&f.streams_dir().join(format!("{tid}.jsonl")), b"{\"id\":\"torn");
                f
            })),
        ];
        for (name, make) in &variants {
            let f = make();
            let live = f.open();
            match compile(&live, &f, &tid, &anchor) {
                Ok(v) => {
                    let (cmp, extra) = observed(&f, &v);
                    if cmp != expected {
                        rep.fail(
                            format!("compile_differs_from_model|{name}|{}", diff_sig(&cmp, &expected)),
                            json!({"anchor_index": ai, "got": cmp, "expected": expected}),
                        );
                    }
                    results.push((name, cmp, extra));
                }
                Err(e) => {
                    let kind = e.split(':').next().unwrap_or("error").to_string();
                    rep.fail(format!("compile_failed|{name}|{}", if kind.len() < 24 { kind } else { "error".into() }), json!({"anchor_index": ai, "error": e}));
                }
            }
        }
        // the logged decision (incl. reason codes) and the provider items must not depend on the variant
        if let Some((_, _, first_extra)) = results.first() {
            for (name, _, extra) in &results[1..] {
                if extra != first_extra {
                    rep.fail(format!("decision_depends_on_cache_state|{name}"), json!({"anchor_index": ai, "a": first_extra, "other": extra}));
                }
            }
        }
        // (d) frames appended after the cut do not matter (only when the cut is fixed by a successor message)
        if has_successor {
            let f = sb.fork("c08d");
            let live = f.open();
            for op in &case.beyond {
                let tt = read_truth(&f, &tid);
                apply_xop(&live, &tid, &tt, op);
            }
            // a run_ended appended now has seq > cut and must not change the reply selection
            match compile(&live, &f, &tid, &anchor) {
                Ok(v) => {
                    let (cmp, _) = observed(&f, &v);
                    if cmp != expected {
                        rep.fail(format!("frames_beyond_cut_change_result|{}", diff_sig(&cmp, &expected)), json!({"anchor_index": ai, "got": cmp, "expected": expected}));
                    }
                }
                Err(e) => rep.fail("compile_failed|d_frames_beyond_cut", json!({"error": e})),
            }
            rep.count("variant_d", 1);
        }
        // (f) frames appended WHILE compiling (between the tail read and the head-seq read)
        {
            let f = sb.fork("c08f");
            let live = Arc::new(f.open());
            let before = read_truth(&f, &tid);
            let injected = Arc::new(std::sync::atomic::AtomicBool::new(false));
            {
                let live2 = live.clone();
                let tid2 = tid.clone();
                let ops = case.inject.clone();
                let injected = injected.clone();
                let fdata = f.data.clone();
                let fws = f.ws.clone();
                let at = if case.inject_after_tail { "compile.after_tail" } else { "compile.before_tail" };
                rv::sched::set_thread_handler(Some(Arc::new(move |point: &str, _ctx: &str| {
                    if point != at || injected.swap(true, std::sync::atomic::Ordering::SeqCst) {
                        return;
                    }
                    // re-read truth through a throw-away view of the same directories
                    let view = SandboxView { data: fdata.clone(), ws: fws.clone() };
                    for op in &ops {
                        let tt = view.truth(&tid2);
                        apply_xop(&live2, &tid2, &tt, op);
                    }
                })));
            }
            let res = compile(&live, &f, &tid, &anchor);
            rv::sched::set_thread_handler(None);
            let after = read_truth(&f, &tid);
            if injected.load(std::sync::atomic::Ordering::SeqCst) {
                rep.count("variant_f_injected", 1);
            }
            match res {
                Ok(v) => {
                    let (cmp, _) = observed(&f, &v);
                    let cut_before = model_cut(&before.thread, &anchor).unwrap_or(0);
                    let cut_after = model_cut(&after.thread, &anchor).unwrap_or(0);
                    let got_cut = cmp["from_seq"].as_u64().unwrap_or(u64::MAX);
                    // timing-independent post-hoc invariant: the cut is one of the two the racing
                    // truth allows, and the bundle is the model's for the final truth at that cut
                    if got_cut != cut_before && got_cut != cut_after {
                        rep.fail("racing_append|cut_outside_allowed", json!({"got": got_cut, "cut_before": cut_before, "cut_after": cut_after}));
                    } else {
                        let exp = model_compile(&after, &tid, &anchor, got_cut);
                        if cmp != exp {
                            rep.fail(format!("racing_append|bundle_not_function_of_truth_up_to_cut|{}", diff_sig(&cmp, &exp)), json!({"got": cmp, "expected": exp}));
                        }
                    }
                }
                Err(e) => rep.fail("compile_failed|f_racing_append", json!({"error": e})),
            }
        }
        rep.count("anchors_compiled", 1);
    }
    rep
}

/// Minimal read-only view used from inside the hook callback.
struct SandboxView {
    data: std::path::PathBuf,
    #[allow(dead_code)]
    ws: std::path::PathBuf,
}

impl SandboxView {
    fn truth(&self, tid: &str) -> Truth {
        let bytes = std::fs::read(self.data.join("events.jsonl")).unwrap_or_default();
        let values = rv::store::parse_log_values(&bytes).unwrap_or_default();
        let mut session_text: std::collections::BTreeMap<String, String> = Default::default();
        let mut thread = Vec::new();
        for v in values {
            if v["stream_kind"] == "session" && v["type"] == "output_text_delta" {
                session_text.entry(v["stream_id"].as_str().unwrap_or("").to_string()).or_default().push_str(v["delta"].as_str().unwrap_or(""));
            } else if v["stream_kind"] == "continuity" && v["stream_id"] == tid {
                if let Ok(e) = serde_json::from_value::<Event>(v) {
                    thread.push(e);
                }
            }
        }
        Truth { thread, session_text }
    }
}

// ---------------------------------------------------------------------------------------------
// compile_big: messages+runs sidecars beyond the 256 KiB initial tail window, anchors near the tail
// ---------------------------------------------------------------------------------------------

#[derive(Debug, Clone, Serialize, Deserialize)]
struct BigCase {
    /// content size (bytes) of each message, in order
    sizes: Vec<u16>,
    /// after message i (index into sizes) append this many non-message frames (side effects) and
    /// optionally a run_ended frame naming it
    dense_every: u8,
    run_ended_every: u8,
    /// manual checkpoints at these message indices (choices)
    checkpoints: Vec<u16>,
    /// anchors as distance from the last message
    anchors_from_tail: Vec<u8>,
}

fn big_strategy() -> BoxedStrategy<BigCase> {
    (
        proptest::collection::vec(prop_oneof![3 => 6000u16..9000, 2 => 3000u16..6000, 1 => 10u16..200, 1 => 12000u16..20000], 18..90),
        0u8..4,
        0u8..4,
        proptest::collection::vec(any::<u16>(), 0..3),
        proptest::collection::vec(prop_oneof![3 => 0u8..45, 1 => Just(0u8), 1 => 15u8..18], 1..5),
    )
        .prop_map(|(sizes, dense_every, run_ended_every, checkpoints, anchors_from_tail)| BigCase { sizes, dense_every, run_ended_every, checkpoints, anchors_from_tail })
        .boxed()
}

fn run_big(case: &BigCase) -> CaseReport {
    let mut rep = CaseReport::new();
    rv::fuel::install();
    let sb = Sandbox::new("c08big");
    let tid;
    {
        let live = sb.open();
        tid = live.store.ensure_default().expect("ensure");
        let mut ids: Vec<String> = Vec::new();
        let link = ContinuityRunLink { continuity_id: tid.clone(), message_id: "m".into(), actor_id: "user".into(), origin: "test".into() };
        for (i, size) in case.sizes.iter().enumerate() {
            let content: String = format!("{i} ") + &"lorem ipsum ".repeat(*size as usize / 12 + 1)[..*size as usize];
            if let Ok(id) = live.store.append_message(&tid, "user".into(), "test".into(), content) {
                ids.push(id.clone());
                if case.run_ended_every > 0 && i % case.run_ended_every as usize == 0 {
                    let rid = format!("00000000-0000-4000-8000-{:012}", i);
                    let _ = live.store.append_run_spawned(&tid, &id, &rid, "user".into(), "test".into());
                    let _ = live.store.append_run_ended(&tid, &id, &rid, "completed".into(), "user".into(), "test".into());
                }
                if case.dense_every > 0 && i % case.dense_every as usize == 0 {
                    for _ in 0..3 {
                        let _ = live.store.append_tool_side_effects(&link, "run-x", ToolSideEffects { tool_id: "t".into(), tool_name: "write".into(), affected_paths: None, checkpoint_id: None });
                    }
                }
            }
        }
        for c in &case.checkpoints {
            if !ids.is_empty() {
                let mid = ids[pick(*c, ids.len())].clone();
                let _ = live.store.compaction_checkpoint_cumulative_v1(
                    &tid,
                    ripd::CompactionCheckpointCumulativeV1Request {
                        summary_markdown: Some("manual".into()), summary_artifact_id: None, to_message_id: Some(mid), to_seq: None,
                        stride_messages: None, actor_id: "user".into(), origin: "test".into(),
                    },
                );
            }
        }
    }
    let t = read_truth(&sb, &tid);
    let msgs: Vec<&Event> = t.thread.iter().filter(|e| matches!(e.kind, EventKind::ContinuityMessageAppended { .. })).collect();
    if msgs.is_empty() {
        return rep;
    }
    let mr_len = rv::store::file_len(&sb.streams_dir().join(format!("{tid}.mr.v1.jsonl")));
    rep.class_if(mr_len > 256 * 1024, "mr_sidecar>256KiB");
    rep.class_if(mr_len > 512 * 1024, "mr_sidecar>512KiB");
    for d in &case.anchors_from_tail {
        let ai = msgs.len().saturating_sub(1 + *d as usize);
        let anchor = msgs[ai].id.clone();
        let cut = model_cut(&t.thread, &anchor).unwrap_or(0);
        let expected = model_compile(&t, &tid, &anchor, cut);
        if mr_len > 256 * 1024 && ai + 1 < msgs.len() {
            rep.nontrivial = true;
        }
        rep.class(if ai + 1 == msgs.len() { "anchor:tail" } else if *d < 16 { "anchor:within_16_of_tail" } else { "anchor:deeper" });
        for (name, drop_caches) in [("a_caches_intact", false), ("c_caches_removed", true)] {
            let f = sb.fork("c08bigv");
            if drop_caches {
                let _ = std::fs::remove_dir_all(f.streams_dir());
            }
            let live = f.open();
            match compile(&live, &f, &tid, &anchor) {
                Ok(v) => {
                    let (cmp, _) = observed(&f, &v);
                    if cmp != expected {
                        let slim = |x: &Value| json!({"from_seq": x["from_seq"], "strategy": x["strategy"], "checkpoints": x["checkpoints"],
                            "item_seqs": x["bundle"]["items"].as_array().map(|a| a.iter().map(|i| i["thread_seq"].clone()).collect::<Vec<_>>())});
                        rep.fail(
                            format!("compile_differs_from_model|{name}|{}", diff_sig(&cmp, &expected)),
                            json!({"anchor_from_tail": d, "mr_sidecar_bytes": mr_len, "got": slim(&cmp), "expected": slim(&expected)}),
                        );
                    }
                }
                Err(e) => rep.fail(format!("compile_failed|{name}|big"), json!({"error": e})),
            }
        }
        rep.count("anchors_compiled", 1);
    }
    rep
}

fn main() {
    let mut check = Check::new("C08", "exploration");
    check.assume("reference compiler written from docs/03_contracts/context_bundle.md, ADR-0010/0018 and the property statement: cut = (seq of the next message after the anchor) - 1, else the head, never below the anchor; cumulative checkpoints with to_seq <= cut, latest frame per to_seq; hierarchy = latest, then repeatedly the greatest to_seq <= current/2, at most 3, ascending; messages after the latest selected checkpoint and <= cut, last 16, oldest first, each followed by the concatenated output text of the run whose last run_ended <= cut names it");
    check.assume("cache variant (b) deletes whole cache files only; stale / garbage caches are C04's subject (listed findings there)");
    check.assume("reason codes, resets, limits and provider items are compared between variants, not against the model");
    check.assume("the racing-append variant accepts either cut the racing truth allows and requires the bundle to be the model's for the final truth at that cut");
    let rule = "history through the real router (stub prompts with reply text, tool runs, plain sessions, manual checkpoints by stride/message, auto compaction, cursor rotation) extended through the store API (repeated run_ended frames naming other sessions, dense side-effect/cursor frames, more messages); 1-3 anchors (tail, mid, far); per anchor the compile entry point in variants a/b/c/e (+d when a successor message fixes the cut, +f with frames appended at the compile.after_tail hook). non-trivial = >=1 checkpoint at or before the cut, or >16 messages before it, or anchor not the last message; distinct by case hash";
    let n = check.cases(260, 6000);
    check.group("compile", rule, GroupOpts { cases: n, max_shrink_iters: 60, watchdog_s: 900, ..Default::default() }, || case_strategy(false), run);
    let n = check.cases(60, 1500);
    check.group("compile_long", "same with 18-43 router steps (more than 16 messages, several checkpoint levels)", GroupOpts { cases: n, max_shrink_iters: 30, watchdog_s: 900, ..Default::default() }, || case_strategy(true), run);
    let n = check.cases(240, 6000);
    check.group(
        "compile_big",
        "threads built through the store API whose messages+runs sidecar exceeds the 256 KiB initial tail window (18-89 messages of 3-20 KiB, optional run_ended / dense side-effect frames, manual checkpoints), anchors at generated distances 0-44 from the tail; caches intact and removed vs the reference compiler. non-trivial = sidecar > 256 KiB and anchor not the last message",
        GroupOpts { cases: n, max_shrink_iters: 200, watchdog_s: 900, ..Default::default() },
        big_strategy,
        run_big,
    );
    check.finish();
}
