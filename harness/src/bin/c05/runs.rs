// ---------------------------------------------------------------------------------------------
// group `run_crash` (included into c05.rs): crash points inside whole RUNS driven through the real
// router — session frames, provider streams, tool side effects, automatic checkpoints, session
// snapshots, compaction jobs and branches — not only inside single store operations.
//
// Every shard owns a one-worker runtime whose threads (worker and blocking pool, via
// on_thread_start) carry a thread-local hook handler pointing at the shard's recorder, so shards
// stay independent. An image is kept only when no file of the store changed while it was being
// copied (stat signature before == after): that makes it the state between two file-system
// effects even though a run has more than one writer thread.
// ---------------------------------------------------------------------------------------------

use std::time::Duration;

use axum::http::Method;
use rv::provider::{sse_done, sse_json, Provider, Reply};
use rv::runs::{provider_config, Authority};

#[derive(Debug, Clone, Serialize, Deserialize)]
enum RStep {
    /// prompt through the router; with a provider: `deltas` text deltas of `size` bytes each
    Post { content: String, deltas: u8, size: u16 },
    /// tool envelope `write`: side-effects frame + automatic checkpoint
    PostWrite { n: u8 },
    PostBash { n: u8 },
    /// a session not attached to any thread
    PlainSession { content: String },
    Manual { stride: u8 },
    Auto { stride: u8, max_new: u8 },
    Rotate,
    Branch,
}

#[derive(Debug, Clone, Serialize, Deserialize)]
struct RunCase {
    provider: bool,
    steps: Vec<RStep>,
    params: Params,
    /// images at session-frame log points are evaluated every `session_stride`-th only
    session_stride: u8,
    surface_stride: u8,
    /// store-level continuation applied to every evaluated image (the router continuation is run
    /// on every 6th only: building a router costs ~0.3 s)
    #[serde(default)]
    cont: Vec<Op>,
    #[serde(default)]
    noise_kb: u16,
    #[serde(default)]
    noise_boundary: Option<u8>,
}

fn rstep() -> BoxedStrategy<RStep> {
    let content = prop_oneof![
        4 => "[a-z ]{1,24}",
        1 => rv::gen::text::text_around(8192, 64),
    ];
    prop_oneof![
        6 => (content.clone(), 1u8..40, prop_oneof![5 => 1u16..200, 1 => 4000u16..20000]).prop_map(|(content, deltas, size)| RStep::Post { content, deltas, size }),
        3 => any::<u8>().prop_map(|n| RStep::PostWrite { n }),
        1 => any::<u8>().prop_map(|n| RStep::PostBash { n }),
        1 => content.prop_map(|content| RStep::PlainSession { content }),
        2 => (1u8..3).prop_map(|stride| RStep::Manual { stride }),
        2 => (1u8..3, 1u8..3).prop_map(|(stride, max_new)| RStep::Auto { stride, max_new }),
        1 => Just(RStep::Rotate),
        1 => Just(RStep::Branch),
    ]
    .boxed()
}

fn run_case_strategy() -> BoxedStrategy<RunCase> {
    (
        any::<bool>(),
        proptest::collection::vec(rstep(), 1..5),
        params_strategy(),
        2u8..7,
        3u8..8,
        proptest::collection::vec(rv::store::op_strategy(OpWeights { branch: 1, restart: 0, ensure: 0, auto: 2, ..weights() }), 1..4),
        noise_strategy(),
        boundary_strategy(),
    )
        .prop_map(|(provider, steps, params, session_stride, surface_stride, cont, noise_kb, noise_boundary)| RunCase { provider, steps, params, session_stride, surface_stride, cont, noise_kb, noise_boundary })
        .boxed()
}

struct Slot {
    rec: Mutex<Option<Recorder>>,
    discarded: std::sync::atomic::AtomicU64,
}

/// (path, len, mtime) of every file under the store directories
fn stat_sig(dirs: &[&PathBuf]) -> Vec<(PathBuf, u64, std::time::SystemTime)> {
    fn walk(dir: &std::path::Path, out: &mut Vec<(PathBuf, u64, std::time::SystemTime)>) {
        let Ok(rd) = std::fs::read_dir(dir) else { return };
        for e in rd.flatten() {
            let p = e.path();
            let Ok(m) = e.metadata() else { continue };
            if m.is_dir() {
                walk(&p, out);
            } else {
                out.push((p, m.len(), m.modified().unwrap_or(std::time::UNIX_EPOCH)));
            }
        }
    }
    let mut out = Vec::new();
    for d in dirs {
        walk(d, &mut out);
    }
    out.sort();
    out
}

fn slot_handler(slot: Arc<Slot>) -> Arc<dyn Fn(&str, &str) + Send + Sync> {
    Arc::new(move |point: &str, ctx: &str| {
        if !is_boundary(point) {
            return;
        }
        let mut g = slot.rec.lock().unwrap_or_else(|e| e.into_inner());
        let Some(r) = g.as_mut() else { return };
        if !r.enabled || r.snaps.len() >= 300 {
            return;
        }
        // session-frame log points are thinned at recording time (a provider run logs hundreds)
        if point.starts_with("log.") && !ctx.starts_with("continuity") {
            r.session_points += 1;
            if r.session_points % r.session_stride.max(1) != 0 {
                return;
            }
        }
        let before = stat_sig(&[&r.data, &r.rip]);
        let n = r.snaps.len();
        let dir = r.root.join(format!("s{n}_{}", r.nth_in_op));
        let _ = copy_dir(&r.data, &dir.join("data"));
        if r.rip.exists() {
            let _ = copy_dir(&r.rip, &dir.join("rip"));
        } else {
            let _ = std::fs::create_dir_all(dir.join("rip"));
        }
        let after = stat_sig(&[&r.data, &r.rip]);
        if before != after {
            // another thread wrote while the copy was taken: not a state between two effects
            let _ = std::fs::remove_dir_all(&dir);
            slot.discarded.fetch_add(1, std::sync::atomic::Ordering::Relaxed);
            r.nth_in_op += 1;
            return;
        }
        let snap = Snap { dir, op: r.cur_op, point: point.to_string(), ctx: ctx.to_string(), nth_in_op: r.nth_in_op, torn: false };
        r.nth_in_op += 1;
        r.snaps.push(snap);
    })
}

thread_local! {
    static SHARD: (tokio::runtime::Runtime, Arc<Slot>) = {
        let slot = Arc::new(Slot { rec: Mutex::new(None), discarded: std::sync::atomic::AtomicU64::new(0) });
        let s2 = slot.clone();
        let rt = tokio::runtime::Builder::new_multi_thread()
            .worker_threads(1)
            .enable_all()
            .on_thread_start(move || rv::sched::set_thread_handler(Some(slot_handler(s2.clone()))))
            .build()
            .expect("runtime");
        (rt, slot)
    };
}

fn provider_reply(k: usize, deltas: u8, size: u16) -> Reply {
    let rid = format!("resp_{k}");
    let mut seqno = 0u64;
    let mut next = || {
        seqno += 1;
        seqno
    };
    let response = |status: &str| {
        json!({
            "background": false, "completed_at": null, "created_at": 0, "error": null, "frequency_penalty": 0,
            "id": rid, "incomplete_details": null, "instructions": null, "max_output_tokens": null,
            "max_tool_calls": null, "metadata": {}, "model": "fixture-model", "object": "response", "output": [],
            "parallel_tool_calls": false, "presence_penalty": 0, "previous_response_id": null,
            "prompt_cache_key": null, "reasoning": null, "safety_identifier": null, "service_tier": "",
            "status": status, "store": false, "temperature": 0, "text": {"format": {"type": "text"}},
            "tool_choice": "auto", "tools": [], "top_logprobs": 0, "top_p": 0, "truncation": "auto",
            "usage": null, "user": null
        })
    };
    let mut body = sse_json(&json!({"type":"response.created","sequence_number":next(),"response":response("in_progress")}));
    for i in 0..deltas {
        let piece: String = format!("d{i} ").chars().cycle().take(size.max(1) as usize).collect();
        body.push_str(&sse_json(&json!({"type":"response.output_text.delta","sequence_number":next(),"item_id":"msg_1","output_index":0,"content_index":0,"delta":piece,"logprobs":[]})));
    }
    body.push_str(&sse_json(&json!({"type":"response.completed","sequence_number":next(),"response":response("completed")})));
    body.push_str(&sse_done());
    Reply::sse(vec![body.into_bytes()])
}

/// what a finished step acknowledged
#[derive(Debug, Clone, Default)]
struct Acked {
    message_id: Option<String>,
    session_id: Option<String>,
    thread: Option<String>,
    /// the run was waited for: run_spawned and run_ended are logged
    run_complete: bool,
}

async fn wait_job(auth: &Authority, job: &str) -> bool {
    let t0 = std::time::Instant::now();
    loop {
        let ended = auth.sandbox.truth_values().unwrap_or_default().iter().any(|f| f["type"] == "continuity_job_ended" && f["job_id"] == job);
        if ended {
            return true;
        }
        if t0.elapsed() > Duration::from_secs(30) {
            return false;
        }
        tokio::time::sleep(Duration::from_millis(3)).await;
    }
}

fn run_crash(case: &RunCase) -> CaseReport {
    let mut rep = CaseReport::new();
    rv::fuel::install();
    SHARD.with(|(rt, slot)| {
        rv::sched::set_thread_handler(Some(slot_handler(slot.clone())));
        let snaproot = Scratch::new("c05rsnaps");
        let discarded0 = slot.discarded.load(std::sync::atomic::Ordering::Relaxed);
        // ---- the workload
        let outcome: Option<(Sandbox, Vec<Acked>, Vec<String>)> = rt.block_on(async {
            let provider = if case.provider {
                let mut script = Vec::new();
                let mut k = 0usize;
                for s in &case.steps {
                    if let RStep::Post { deltas, size, .. } = s {
                        script.push(provider_reply(k, *deltas, *size));
                        k += 1;
                    }
                }
                Some(Provider::start(script, provider_reply(999, 1, 8)).await)
            } else {
                None
            };
            let auth = Authority::new("c05run", provider.as_ref().map(|p| provider_config(p.endpoint())));
            *slot.rec.lock().unwrap_or_else(|e| e.into_inner()) = Some(Recorder {
                data: auth.sandbox.data.clone(),
                rip: auth.sandbox.ws.join(".rip"),
                root: snaproot.path().to_path_buf(),
                cur_op: 0,
                nth_in_op: 0,
                snaps: Vec::new(),
                enabled: true,
                session_points: 0,
                session_stride: case.session_stride as usize,
            });
            let set_op = |i: usize| {
                if let Some(r) = slot.rec.lock().unwrap_or_else(|e| e.into_inner()).as_mut() {
                    r.cur_op = i;
                    r.nth_in_op = 0;
                }
            };
            // op 0 = ensure
            let Some(thread) = auth.ensure_thread().await else {
                rep.inconclusive("ensure_failed");
                return None;
            };
            let mut threads = vec![thread.clone()];
            let mut acked: Vec<Acked> = vec![Acked { thread: Some(thread.clone()), ..Default::default() }];
            for (i, step) in case.steps.iter().enumerate() {
                set_op(i + 1);
                let mut a = Acked::default();
                let post = |input: String| {
                    let auth = &auth;
                    let thread = thread.clone();
                    async move { auth.post_message(&thread, &input, None).await }
                };
                match step {
                    RStep::Post { .. } | RStep::PostWrite { .. } | RStep::PostBash { .. } => {
                        let input = match step {
                            RStep::Post { content, .. } => content.clone(),
                            RStep::PostWrite { n } => json!({"tool":"write","args":{"path": format!("w{n}.txt"), "content": format!("content {n}")}}).to_string(),
                            RStep::PostBash { n } => json!({"tool":"bash","args":{"command": format!("echo {n} > b{n}.txt"), "cwd": "."}}).to_string(),
                            _ => unreachable!(),
                        };
                        let (_s, v) = post(input).await;
                        if let (Some(mid), Some(sid)) = (v["message_id"].as_str(), v["session_id"].as_str()) {
                            a.message_id = Some(mid.to_string());
                            a.session_id = Some(sid.to_string());
                            if !auth.wait_run_ended(sid, Duration::from_secs(60)).await || !auth.wait_snapshot(sid, Duration::from_secs(30)).await {
                                rep.inconclusive("run_not_ended");
                                return None;
                            }
                            a.run_complete = true;
                        }
                    }
                    RStep::PlainSession { content } => {
                        if let Some(sid) = auth.create_session().await {
                            let _ = auth.send_input(&sid, content).await;
                            if !auth.wait_snapshot(&sid, Duration::from_secs(60)).await {
                                rep.inconclusive("session_not_ended");
                                return None;
                            }
                            a.session_id = Some(sid);
                        }
                    }
                    RStep::Manual { stride } => {
                        let _ = rv::http::call_json(&auth.router, Method::POST, &format!("/threads/{thread}/compaction-checkpoint"),
                            Some(json!({"summary_markdown": "manual", "stride_messages": stride, "actor_id": "user", "origin": "test"}))).await;
                    }
                    RStep::Auto { stride, max_new } => {
                        let (_s, v) = rv::http::call_json(&auth.router, Method::POST, &format!("/threads/{thread}/compaction-auto"),
                            Some(json!({"stride_messages": stride, "max_new_checkpoints": max_new, "actor_id": "user", "origin": "test"}))).await;
                        if let Some(job) = v["job_id"].as_str() {
                            if !wait_job(&auth, job).await {
                                rep.inconclusive("job_not_ended");
                                return None;
                            }
                        }
                    }
                    RStep::Rotate => {
                        let _ = rv::http::call_json(&auth.router, Method::POST, &format!("/threads/{thread}/provider-cursor-rotate"),
                            Some(json!({"actor_id": "user", "origin": "test"}))).await;
                    }
                    RStep::Branch => {
                        let (_s, v) = rv::http::call_json(&auth.router, Method::POST, &format!("/threads/{thread}/branch"),
                            Some(json!({"actor_id": "user", "origin": "test"}))).await;
                        if let Some(t) = v["thread_id"].as_str() {
                            threads.push(t.to_string());
                            a.thread = Some(t.to_string());
                        }
                    }
                }
                acked.push(a);
            }
            if let Some(r) = slot.rec.lock().unwrap_or_else(|e| e.into_inner()).as_mut() {
                r.enabled = false;
            }
            let Authority { sandbox, router } = auth;
            drop(router);
            tokio::time::sleep(Duration::from_millis(5)).await;
            drop(provider);
            Some((sandbox, acked, threads))
        });
        let rec = slot.rec.lock().unwrap_or_else(|e| e.into_inner()).take();
        let Some((_sandbox, acked, _threads)) = outcome else {
            rv::sched::set_thread_handler(None);
            return;
        };
        let snaps = rec.map(|r| r.snaps).unwrap_or_default();
        rep.count("crash_points", snaps.len() as u64);
        rep.count("images_discarded_concurrent_write", slot.discarded.load(std::sync::atomic::Ordering::Relaxed) - discarded0);
        let mut seen_points: BTreeSet<String> = BTreeSet::new();
        let mut evaluated = 0u64;
        let mut in_run = 0u64;
        let mut router_restarts = 0u64;

        // which images are evaluated: session-frame log points thinned by the generated stride,
        // then at most MAX_EVAL of the rest, evenly spaced from a generated offset
        const MAX_EVAL: usize = 48;
        let mut candidates: Vec<usize> = Vec::new();
        for (si, snap) in snaps.iter().enumerate() {
            let _ = snap;
            candidates.push(si);
        }
        let k = candidates.len().div_ceil(MAX_EVAL).max(1);
        let offset = case.surface_stride as usize % k;
        let chosen: BTreeSet<usize> = candidates.iter().enumerate().filter(|(i, _)| i % k == offset).map(|(_, si)| *si).collect();
        rep.count("images_candidates", candidates.len() as u64);

        for (si, snap) in snaps.iter().enumerate() {
            if !chosen.contains(&si) {
                continue;
            }
            let point = snap.point.as_str();
            let session_frame_point = point.starts_with("log.") && !snap.ctx.starts_with("continuity");
            seen_points.insert(if session_frame_point { format!("{point}(session frame)") } else { point.to_string() });
            evaluated += 1;
            if snap.op >= 1 && snap.nth_in_op > 0 {
                in_run += 1;
            }
            let sb = recovered_sandbox(snap);
            // ---- a restarted authority over the image: fresh log + store first (read side)
            let rit = match rv::engine::runner::catch(|| Interp::attach(sb)) {
                Ok(i) => i,
                Err(p) => {
                    rep.fail(format!("recovery|{point}|restart_panics"), json!({"panic": p, "op": snap.op, "ctx": snap.ctx}));
                    continue;
                }
            };
            if let Err(e) = rit.live.log.replay_validated() {
                rep.fail(format!("recovery|{point}|replay_fails"), json!({"error": e.to_string(), "op": snap.op, "ctx": snap.ctx}));
                continue;
            }
            let values = match rit.sandbox.truth_values() {
                Ok(v) => v,
                Err(e) => {
                    rep.fail(format!("recovery|{point}|log_not_whole_frames"), json!({"error": e, "op": snap.op, "ctx": snap.ctx}));
                    continue;
                }
            };
            if let Err(e) = check_stream_numbering(&values) {
                rep.fail(format!("recovery|{point}|numbering"), json!({"error": e, "op": snap.op, "ctx": snap.ctx}));
                continue;
            }
            // acknowledged by steps that finished before the crashing step
            for (j, a) in acked.iter().enumerate().take(snap.op) {
                if let Some(mid) = &a.message_id {
                    let n = count_id(&values, mid);
                    if n != 1 {
                        rep.fail(format!("recovery|{point}|acknowledged_append_count"), json!({"op": j, "id": mid, "count": n, "crashed_in_op": snap.op}));
                    }
                    if a.run_complete {
                        for ty in ["continuity_run_spawned", "continuity_run_ended"] {
                            let n = values.iter().filter(|v| v["type"] == ty && v["message_id"] == mid.as_str()).count();
                            if n != 1 {
                                rep.fail(format!("recovery|{point}|acknowledged_run_frame_count|{ty}"), json!({"op": j, "message_id": mid, "count": n, "crashed_in_op": snap.op}));
                            }
                        }
                    }
                }
                if let (Some(sid), true) = (&a.session_id, a.run_complete || a.message_id.is_none()) {
                    let ends = values.iter().filter(|v| v["stream_kind"] == "session" && v["stream_id"] == sid.as_str() && v["type"] == "session_ended").count();
                    if ends != 1 {
                        rep.fail(format!("recovery|{point}|finished_session_end_frames"), json!({"op": j, "session": sid, "count": ends}));
                    }
                }
            }
            let mut ids: BTreeSet<&str> = BTreeSet::new();
            for v in &values {
                if let Some(id) = v["id"].as_str() {
                    if !ids.insert(id) {
                        rep.fail(format!("recovery|{point}|duplicate_frame_id"), json!({"id": id, "op": snap.op}));
                    }
                }
            }
            check_artifacts(&rit.sandbox, &values, point, &mut rep);
            let do_surface = evaluated % (case.surface_stride.max(1) as u64) == 0;
            if do_surface {
                // A run has more than one writer thread: the image taken at THIS thread's hook point
                // can at the same time sit between the truth append and a cache effect of ANOTHER
                // writer (a legitimate crash state, and exactly the listed stale-cache finding), so
                // the point name says nothing about which caches are behind. Read-surface
                // divergences of this group are therefore signed `recovery|mid_run|surface|<read>`;
                // the single-actor group crash_points keeps the per-point signatures.
                surface_compare(&rit, &case.params, "mid_run", "recovered", &mut rep);
            }
            // ---- continuation through a restarted ROUTER over the same image
            let known_threads: Vec<String> = values
                .iter()
                .filter(|v| v["type"] == "continuity_created")
                .filter_map(|v| v["stream_id"].as_str().map(|s| s.to_string()))
                .collect();
            // ---- continuation through the store API (every evaluated image)
            let mut rit = rit;
            if let Some(frac) = case.noise_boundary {
                let aimed = append_noise_to_boundary(&rit.live.log, &rit.sandbox.log_path(), frac, si);
                rep.count(if aimed { "noise_aimed_at_window_boundary" } else { "noise_aim_failed" }, 1);
            } else {
                append_noise_session(&rit.live.log, case.noise_kb, si);
            }
            let mut cont_acked: Vec<String> = Vec::new();
            for op in &case.cont {
                if let Ok(r) = rv::engine::runner::catch(|| rit.apply(op)) {
                    if let Ok(v) = r.result {
                        cont_acked.extend(acked_ids(&v));
                    }
                }
            }
            if let Err(e) = rit.live.log.replay_validated() {
                rep.fail(format!("recovery|{point}|continuation_breaks_replay"), json!({"error": e.to_string(), "op": snap.op, "ctx": snap.ctx, "via": "store"}));
                continue;
            }
            match rit.sandbox.truth_values() {
                Ok(v2) => {
                    if let Err(e) = check_stream_numbering(&v2) {
                        rep.fail(format!("recovery|{point}|continuation_numbering"), json!({"error": e, "op": snap.op, "ctx": snap.ctx, "via": "store"}));
                        continue;
                    }
                    for id in &cont_acked {
                        let n = count_id(&v2, id);
                        if n != 1 {
                            rep.fail(format!("recovery|{point}|continuation_ack_count"), json!({"id": id, "count": n, "via": "store"}));
                        }
                    }
                }
                Err(e) => {
                    rep.fail(format!("recovery|{point}|continuation_log_not_whole_frames"), json!({"error": e, "via": "store"}));
                    continue;
                }
            }
            if evaluated % 6 != 1 {
                continue;
            }
            router_restarts += 1;
            let Interp { sandbox: rsb, live, .. } = rit;
            drop(live);
            let verdict: Result<(), (String, Value)> = rt.block_on(async {
                let auth = match rv::engine::runner::catch(|| Authority::on(rsb, None)) {
                    Ok(a) => a,
                    Err(p) => return Err((format!("recovery|{point}|router_restart_panics"), json!({"panic": p}))),
                };
                let mut targets = known_threads.clone();
                if targets.is_empty() {
                    match auth.ensure_thread().await {
                        Some(t) => targets.push(t),
                        None => return Err((format!("recovery|{point}|continuation_ensure_refused"), json!({"op": snap.op}))),
                    }
                }
                let mut cont_ids = Vec::new();
                for t in &targets {
                    let (s, v) = auth.post_message(t, "after restart", None).await;
                    if s.as_u16() != 202 {
                        return Err((format!("recovery|{point}|continuation_refused"), json!({"thread": t, "status": s.as_u16(), "body": v, "op": snap.op, "ctx": snap.ctx})));
                    }
                    let (Some(mid), Some(sid)) = (v["message_id"].as_str(), v["session_id"].as_str()) else { continue };
                    cont_ids.push(mid.to_string());
                    if !auth.wait_run_ended(sid, Duration::from_secs(60)).await {
                        return Err(("inconclusive".into(), json!("continuation_run_not_ended")));
                    }
                }
                let sb = &auth.sandbox;
                let fresh = rip_log::EventLog::new(sb.log_path()).map_err(|e| (format!("recovery|{point}|continuation_breaks_replay"), json!({"error": e.to_string()})))?;
                if let Err(e) = fresh.replay_validated() {
                    return Err((format!("recovery|{point}|continuation_breaks_replay"), json!({"error": e.to_string(), "op": snap.op, "ctx": snap.ctx})));
                }
                let v2 = sb.truth_values().map_err(|e| (format!("recovery|{point}|continuation_log_not_whole_frames"), json!({"error": e})))?;
                if let Err(e) = check_stream_numbering(&v2) {
                    return Err((format!("recovery|{point}|continuation_numbering"), json!({"error": e, "op": snap.op, "ctx": snap.ctx})));
                }
                for id in &cont_ids {
                    let n = count_id(&v2, id);
                    if n != 1 {
                        return Err((format!("recovery|{point}|continuation_ack_count"), json!({"id": id, "count": n})));
                    }
                }
                let Authority { sandbox, router } = auth;
                drop(router);
                tokio::time::sleep(Duration::from_millis(2)).await;
                drop(sandbox);
                Ok(())
            });
            match verdict {
                Ok(()) => {}
                Err((sig, _)) if sig == "inconclusive" => {
                    rep.inconclusive("continuation_run_not_ended");
                    break;
                }
                Err((sig, detail)) => rep.fail(sig, detail),
            }
        }
        rv::sched::set_thread_handler(None);
        for p in &seen_points {
            rep.class(format!("point:{p}"));
        }
        rep.count("images_evaluated", evaluated);
        rep.count("router_restarts", router_restarts);
        rep.count("images_inside_a_step", in_run);
        rep.class(match (case.noise_boundary, case.noise_kb) {
            (Some(_), _) => "noise_before_continuation:aimed_at_1MiB_window_boundary",
            (None, 0) => "noise_before_continuation:none",
            (None, 1..=999) => "noise_before_continuation:<1MiB",
            _ => "noise_before_continuation:>1MiB",
        });
        rep.class_if(case.provider, "provider:scripted");
        rep.class_if(!case.provider, "provider:stub");
        for s in &case.steps {
            rep.class(match s {
                RStep::Post { size, .. } if *size >= 4000 => "step:post_big_reply",
                RStep::Post { .. } => "step:post",
                RStep::PostWrite { .. } => "step:write_tool",
                RStep::PostBash { .. } => "step:bash_tool",
                RStep::PlainSession { .. } => "step:plain_session",
                RStep::Manual { .. } => "step:manual_checkpoint",
                RStep::Auto { .. } => "step:auto_compaction",
                RStep::Rotate => "step:rotate",
                RStep::Branch => "step:branch",
            });
        }
        rep.nontrivial = in_run > 0;
    });
    rep
}
