//! C15 — provider stream decoding is lossless and chunking-invariant.
//!
//! Domain: SSE byte streams rendered from a generated script of Open Responses events (plus real
//! fixture streams, streams with injected invalid UTF-8, streams with events after `[DONE]`, and a
//! token soup) x partitions of the byte stream into chunks.
//! Oracles: (i) metamorphic: frames(partition) == frames(whole) through SseDecoder+EventFrameMapper
//! and through the real byte-level pipe (`ripd::verif::run_sse_pipe`); (ii) a spec-following
//! reference SSE splitter gives the expected frame list; (iii) derived text == concatenation of
//! the script's text deltas; (iv) seqs are seq0, seq0+1, ... and the returned seq is seq0+frames.

#[path = "c15/gen.rs"]
mod gen;
#[path = "c15/model.rs"]
mod model;

use std::path::Path;
use std::sync::atomic::{AtomicBool, Ordering};

use rv::engine::scratch::Scratch;
use rv::engine::{CaseReport, Check, GroupOpts};
use serde_json::json;

use gen::{Case, Part};
use model::{
    boundaries_bytes, collapse_fffd, diff_kind, expected_frames, first_done, has_long_invalid_seq,
    ref_decode, run_direct, run_pipe, Exp, NFrame, NKind,
};

/// Confirmed defect F18 (events after `[DONE]` are emitted iff they share its chunk): the pipe
/// comparison tolerates exactly "equal up to and including the first done frame" and counts it.
const EXCLUDE_KNOWN_AFTER_DONE: bool = false;
/// Confirmed defect (number of U+FFFD produced for a truncated multi-byte sequence of >= 2 bytes
/// depends on whether it sits at the start of the carry-over buffer): tolerated only for streams
/// that contain such a sequence, and only when frames are equal after collapsing U+FFFD runs.
const EXCLUDE_KNOWN_UTF8_RUNS: bool = false;
const SIG_AFTER_DONE: &str = "chunking|events_after_done";
const SIG_UTF8_RUNS: &str = "chunking|invalid_utf8_replacement_runs";

/// single-split positions per case that also go through the byte-level pipe
const PIPE_EXH_BUDGET: usize = 512;

/// VERIF_C15_NO_EXCLUDE=1 turns both exclusions off (to re-confirm the findings / verify a fix)
static NO_EXCLUDE: AtomicBool = AtomicBool::new(false);
static AFTER_DONE_LISTED: AtomicBool = AtomicBool::new(false);
static UTF8_RUNS_LISTED: AtomicBool = AtomicBool::new(false);

fn known(rep: &mut CaseReport, sig: &str, listed: &AtomicBool, exclude: bool, counter: &str, detail: serde_json::Value) {
    if listed.load(Ordering::Relaxed) {
        // listed in known_findings.json: the engine tolerates and counts it (KNOWN-FINDING line)
        rep.fail(sig, detail);
    } else if exclude && !NO_EXCLUDE.load(Ordering::Relaxed) {
        rep.count(counter, 1);
    } else {
        rep.fail(sig, detail);
    }
}

struct Ctx<'a> {
    stream: &'a [u8],
    long_invalid: bool,
}

fn preview(bytes: &[u8]) -> String {
    let s = String::from_utf8_lossy(bytes);
    let mut out: String = s.chars().take(400).collect();
    if s.chars().count() > 400 {
        out.push('…');
    }
    out
}

/// Oracle (i): frames of a partition against frames of the whole stream.
fn compare_runs(
    rep: &mut CaseReport,
    ctx: &Ctx,
    path: &str,
    whole: &[NFrame],
    got: &[NFrame],
    label: &str,
    cuts: &[usize],
) {
    if whole == got {
        return;
    }
    let detail = |what: &str| {
        json!({
            "path": path, "partition": label,
            "cuts": cuts.iter().take(24).collect::<Vec<_>>(), "n_cuts": cuts.len(),
            "what": what,
            "whole_frames": whole.len(), "got_frames": got.len(),
            "first_diff": first_diff(whole, got),
            "stream_preview": preview(ctx.stream),
        })
    };
    if path == "pipe" {
        let modulo = ctx.long_invalid;
        let (w, g): (Vec<NFrame>, Vec<NFrame>) = if modulo {
            (collapse_fffd(whole), collapse_fffd(got))
        } else {
            (whole.to_vec(), got.to_vec())
        };
        if w == g {
            known(rep, SIG_UTF8_RUNS, &UTF8_RUNS_LISTED, EXCLUDE_KNOWN_UTF8_RUNS, "excluded_known_utf8_runs", detail("replacement runs differ"));
            return;
        }
        if let (Some(dw), Some(dg)) = (first_done(&w), first_done(&g)) {
            let tail = w.len() > dw + 1 || g.len() > dg + 1;
            if tail && dw == dg && w[..=dw] == g[..=dg] {
                if modulo && whole[..=dw] != got[..=dg] {
                    known(rep, SIG_UTF8_RUNS, &UTF8_RUNS_LISTED, EXCLUDE_KNOWN_UTF8_RUNS, "excluded_known_utf8_runs", detail("replacement runs differ"));
                }
                known(rep, SIG_AFTER_DONE, &AFTER_DONE_LISTED, EXCLUDE_KNOWN_AFTER_DONE, "excluded_known_after_done", detail("frames after the first done frame differ"));
                return;
            }
        }
    }
    let kind = diff_kind(whole, got);
    rep.fail(format!("chunking|{path}|{kind}"), detail(&kind));
}

fn first_diff(a: &[NFrame], b: &[NFrame]) -> serde_json::Value {
    let n = a.len().min(b.len());
    for i in 0..n {
        if a[i] != b[i] {
            return json!({"index": i, "whole": clip(&a[i]), "got": clip(&b[i])});
        }
    }
    json!({"index": n, "whole": a.get(n).map(clip), "got": b.get(n).map(clip)})
}

fn clip(f: &NFrame) -> serde_json::Value {
    let v = serde_json::to_value(f).unwrap_or(serde_json::Value::Null);
    let s = v.to_string();
    if s.len() <= 1500 {
        v
    } else {
        json!({ "clipped": s.chars().take(1500).collect::<String>() })
    }
}

/// Oracle (iv): numbering.
fn check_numbering(rep: &mut CaseReport, path: &str, frames: &[NFrame], seq0: u64, final_seq: Option<u64>, label: &str) {
    for (i, f) in frames.iter().enumerate() {
        if f.seq != seq0.wrapping_add(i as u64) {
            rep.fail(
                format!("numbering|{path}|seq_not_contiguous"),
                json!({"partition": label, "index": i, "seq": f.seq, "expected": seq0.wrapping_add(i as u64), "seq0": seq0}),
            );
            break;
        }
    }
    if let Some(fs) = final_seq {
        if fs != seq0.wrapping_add(frames.len() as u64) {
            rep.fail(
                format!("numbering|{path}|final_seq"),
                json!({"partition": label, "final_seq": fs, "seq0": seq0, "frames": frames.len()}),
            );
        }
    }
    if let Some(first) = frames.first() {
        if frames.iter().any(|f| f.session_id != first.session_id) {
            rep.fail(format!("numbering|{path}|session_id_changes"), json!({"partition": label}));
        }
    }
}

/// Oracle (ii): frames against the reference expectation. `prefix_only`: the expectation must be a
/// prefix of the frames (used for the pipe when events follow the terminal marker).
fn check_reference(rep: &mut CaseReport, path: &str, frames: &[NFrame], exp: &[Exp], prefix_only: bool, stream: &[u8]) {
    let fail = |rep: &mut CaseReport, what: &str, i: usize| {
        rep.fail(
            format!("reference|{path}|{what}"),
            json!({
                "index": i, "what": what, "frames": frames.len(), "expected_frames": exp.len(),
                "got": frames.get(i).map(clip),
                "expected": exp.get(i).map(|e| e.describe()),
                "stream_preview": preview(stream),
            }),
        );
    };
    for (i, e) in exp.iter().enumerate() {
        let Some(f) = frames.get(i) else {
            fail(rep, "missing_frame", i);
            return;
        };
        if let Some(what) = e.mismatch(&f.kind) {
            fail(rep, what, i);
            return;
        }
    }
    if !prefix_only && frames.len() > exp.len() {
        fail(rep, "extra_frame", exp.len());
    }
}

fn resolve_cuts(part: &Part, len: usize) -> (String, Vec<usize>) {
    match part {
        Part::EachByte => ("each_byte".to_string(), (1..len).collect()),
        Part::Every { n, off } => {
            let n = (*n as usize).max(1);
            let mut v = Vec::new();
            let mut c = (*off as usize % n).max(1);
            while c < len {
                v.push(c);
                c += n;
            }
            (format!("every_{n}"), v)
        }
        Part::Cuts { label, cuts } => {
            let mut v: Vec<usize> = cuts.iter().map(|c| *c as usize).filter(|c| *c > 0 && *c < len).collect();
            v.sort_unstable();
            v.dedup();
            (label.clone(), v)
        }
    }
}

fn run(case: &Case) -> CaseReport {
    let mut rep = CaseReport::new();
    let bytes: &[u8] = &case.stream.0;
    let len = bytes.len();
    let text: Option<&str> = std::str::from_utf8(bytes).ok();
    let scratch = Scratch::new("c15");
    let log = scratch.join("events.jsonl");
    let long_invalid = text.is_none() && has_long_invalid_seq(bytes);
    let ctx = Ctx { stream: bytes, long_invalid };

    // ---- classes from the stream itself
    let crlf = bytes.windows(2).filter(|w| w == b"\r\n").count();
    let lf = bytes.iter().filter(|b| **b == b'\n').count();
    rep.class(if crlf == 0 {
        "eol:lf"
    } else if crlf == lf {
        "eol:crlf"
    } else {
        "eol:mixed"
    });
    rep.class(format!("kind:{}", case.kind));
    rep.class_if(text.is_none(), "invalid_utf8");
    rep.class_if(long_invalid, "invalid_utf8_long_sequence");
    let has_multibyte = bytes.iter().any(|b| *b >= 0x80);
    rep.class_if(has_multibyte, "has_multibyte");
    rep.class(match case.seq0 {
        0 => "seq0:zero",
        1..=1000 => "seq0:small",
        _ => "seq0:large",
    });

    // ---- whole stream, both paths
    let whole_pipe = match run_pipe(bytes, &[], case.seq0, case.strict, &log) {
        Ok(o) => o,
        Err(p) => {
            let loc = p.rsplit(" @ ").next().unwrap_or("").to_string();
            rep.fail(format!("panic|pipe|{loc}"), json!({"panic": p, "partition": "whole", "stream_preview": preview(bytes)}));
            return rep;
        }
    };
    check_numbering(&mut rep, "pipe", &whole_pipe.frames, case.seq0, Some(whole_pipe.final_seq), "whole");
    rep.count("frames_whole_stream", whole_pipe.frames.len() as u64);
    rep.class_if(whole_pipe.frames.is_empty(), "no_frames");
    let whole_direct = match text {
        Some(t) => match run_direct(t, &[], case.strict) {
            Ok(o) => Some(o),
            Err(p) => {
                let loc = p.rsplit(" @ ").next().unwrap_or("").to_string();
                rep.fail(format!("panic|direct|{loc}"), json!({"panic": p, "partition": "whole"}));
                return rep;
            }
        },
        None => None,
    };
    if let Some(d) = &whole_direct {
        check_numbering(&mut rep, "direct", &d.frames, 0, None, "whole");
    }

    // ---- reference decoder (valid UTF-8, no lone CR)
    let reference = text.and_then(ref_decode);
    let mut done_not_last = false;
    if let Some(r) = &reference {
        rep.class_if(r.events.iter().any(|e| e.n_lines >= 2), "has_multiline_data");
        rep.class_if(r.events.iter().any(|e| e.is_done()), "has_done");
        rep.class_if(r.events.iter().any(|e| e.is_invalid_json()), "has_invalid_json");
        rep.class_if(r.events.iter().any(|e| e.ws_ambiguous()), "has_ws_ambiguous_payload");
        rep.class_if(r.events.iter().any(|e| e.name.is_none()), "has_ambiguous_event_name");
        rep.class_if(r.events.is_empty(), "no_events");
        rep.count("reference_events", r.events.len() as u64);
        rep.count("reference_events_ws_ambiguous", r.events.iter().filter(|e| e.ws_ambiguous()).count() as u64);
        let done_at = r.events.iter().position(|e| e.is_done_certain_or_possible());
        done_not_last = matches!(done_at, Some(i) if i + 1 < r.events.len());
        rep.class_if(done_not_last, "events_after_done");
        let exp_all = expected_frames(&r.events);
        if let Some(d) = &whole_direct {
            // the decoder+mapper layer has no terminal handling: every event is mapped
            check_reference(&mut rep, "direct", &d.frames, &exp_all, false, bytes);
            // ParsedEvent.raw is the joined data lines for every event kind
            for (i, (pe, re)) in d.parsed_raw.iter().zip(r.events.iter()).enumerate() {
                if !re.ws_ambiguous() && pe != &re.joined_spec {
                    rep.fail("reference|direct|parsed_raw", json!({"index": i, "got": pe, "expected": re.joined_spec}));
                    break;
                }
            }
        }
        if done_not_last {
            // documented: "[DONE] is treated as terminal"; what follows it is the known finding
            let upto = done_at.unwrap_or(0);
            let exp_prefix = expected_frames(&r.events[..=upto]);
            check_reference(&mut rep, "pipe", &whole_pipe.frames, &exp_prefix, true, bytes);
        } else {
            check_reference(&mut rep, "pipe", &whole_pipe.frames, &exp_all, false, bytes);
        }
        // script self-check (generator health, never a verdict)
        if let Some(n) = case.expect_events {
            if n as usize != r.events.len() {
                rep.count("selfcheck_event_count_mismatch", 1);
            }
        }
    } else {
        rep.class("reference_not_applicable");
    }

    // ---- oracle (iii): derived text == concatenation of the script's dispatched text deltas
    if let Some(expect) = &case.expect_text {
        let selfcheck_ok = match (&reference, case.expect_events) {
            (Some(r), Some(n)) => r.events.len() == n as usize,
            _ => false,
        };
        if selfcheck_ok && !done_not_last {
            let got: String = whole_pipe
                .frames
                .iter()
                .filter_map(|f| match &f.kind {
                    NKind::Text { delta } => Some(delta.as_str()),
                    _ => None,
                })
                .collect();
            rep.class_if(!expect.is_empty(), "has_text_delta");
            if &got != expect {
                rep.fail(
                    "derived_text|pipe|not_concatenation_of_deltas",
                    json!({"expected": expect, "got": got, "stream_preview": preview(bytes)}),
                );
            }
            if let Some(d) = &whole_direct {
                let got: String = d
                    .frames
                    .iter()
                    .filter_map(|f| match &f.kind {
                        NKind::Text { delta } => Some(delta.as_str()),
                        _ => None,
                    })
                    .collect();
                if &got != expect {
                    rep.fail("derived_text|direct|not_concatenation_of_deltas", json!({"expected": expect, "got": got}));
                }
            }
        }
    }

    // ---- layering: the pipe is decoder+mapper plus seq offset (whole stream, no terminal cut)
    if let Some(d) = &whole_direct {
        let cut_at_done = first_done(&d.frames).map(|i| i + 1 < d.frames.len()).unwrap_or(false);
        if !cut_at_done {
            let a: Vec<&NKind> = d.frames.iter().map(|f| &f.kind).collect();
            let b: Vec<&NKind> = whole_pipe.frames.iter().map(|f| &f.kind).collect();
            if a != b {
                rep.fail("layering|pipe_vs_direct|frames_differ", json!({"direct": a.len(), "pipe": b.len(), "stream_preview": preview(bytes)}));
            }
        }
    }

    // ---- partitions
    let bounds = boundaries_bytes(bytes);
    let mut inside_event = false;
    let mut n_parts = 0u64;
    let mut n_pipe = 0u64;
    let mut run_partition = |rep: &mut CaseReport, label: &str, cuts: &[usize], pipe: bool| -> bool {
        n_parts += 1;
        if cuts.iter().any(|c| bounds.binary_search(c).is_err()) {
            inside_event = true;
        }
        if pipe {
            n_pipe += 1;
        }
        match if pipe { run_pipe(bytes, cuts, case.seq0, case.strict, &log).map(Some) } else { Ok(None) } {
            Ok(None) => {}
            Ok(Some(o)) => {
                check_numbering(rep, "pipe", &o.frames, case.seq0, Some(o.final_seq), label);
                compare_runs(rep, &ctx, "pipe", &whole_pipe.frames, &o.frames, label, cuts);
            }
            Err(p) => {
                let loc = p.rsplit(" @ ").next().unwrap_or("").to_string();
                rep.fail(format!("panic|pipe|{loc}"), json!({"panic": p, "partition": label, "cuts": cuts.iter().take(24).collect::<Vec<_>>()}));
                return false;
            }
        }
        if let (Some(t), Some(wd)) = (text, &whole_direct) {
            match run_direct(t, cuts, case.strict) {
                Ok(o) => {
                    check_numbering(rep, "direct", &o.frames, 0, None, label);
                    compare_runs(rep, &ctx, "direct", &wd.frames, &o.frames, label, cuts);
                }
                Err(p) => {
                    let loc = p.rsplit(" @ ").next().unwrap_or("").to_string();
                    rep.fail(format!("panic|direct|{loc}"), json!({"panic": p, "partition": label}));
                    return false;
                }
            }
        }
        true
    };

    let mut cut_mb = false;
    let mut cut_crlf = false;
    for part in &case.parts {
        let (label, cuts) = resolve_cuts(part, len);
        if cuts.is_empty() {
            continue;
        }
        cut_mb |= cuts.iter().any(|c| bytes[*c] & 0xC0 == 0x80);
        cut_crlf |= cuts.iter().any(|c| bytes[*c - 1] == b'\r' && bytes[*c] == b'\n');
        if matches!(part, Part::EachByte) {
            rep.class("one_byte_at_a_time");
        }
        rep.class(format!("part:{}", label.split('#').next().unwrap_or("")));
        if !run_partition(&mut rep, &label, &cuts, true) {
            return rep;
        }
    }
    // every single split position in the window (exhaustive inside the case)
    if let Some((a, b)) = case.exh {
        let a = (a as usize).max(1);
        let b = (b as usize).min(len);
        if a < b {
            rep.class("exhaustive_splits");
            // both paths take every position of windows <= PIPE_EXH_BUDGET bytes; beyond that the
            // byte-level pipe takes a stride plus (strided) every position inside a character or
            // between CR and LF
            let stride = (b - a).div_ceil(PIPE_EXH_BUDGET).max(1);
            let phase = (case.seq0 as usize) % stride;
            let special: Vec<usize> = (a..b)
                .filter(|c| {
                    bytes[*c] & 0xC0 == 0x80
                        || (bytes[*c - 1] == b'\r' && bytes[*c] == b'\n')
                        || (text.is_none() && (bytes[*c] >= 0x80 || bytes[*c - 1] >= 0x80))
                })
                .collect();
            let sstride = special.len().div_ceil(PIPE_EXH_BUDGET).max(1);
            let special: Vec<usize> = special.into_iter().step_by(sstride).collect();
            for c in a..b {
                cut_mb |= bytes[c] & 0xC0 == 0x80;
                cut_crlf |= bytes[c - 1] == b'\r' && bytes[c] == b'\n';
                let pipe = c % stride == phase || special.binary_search(&c).is_ok();
                if !pipe && !text.map(|t| t.is_char_boundary(c)).unwrap_or(false) {
                    continue; // same chunks as the previous position on the decoder path
                }
                if !run_partition(&mut rep, "single_split", &[c], pipe) {
                    return rep;
                }
                if !rep.ok() {
                    break; // one witness is enough; keeps shrinking fast
                }
            }
        }
    }
    drop(run_partition);
    rep.count("partitions", n_parts);
    rep.count("partitions_through_pipe", n_pipe);
    rep.class_if(cut_mb, "cut_inside_multibyte");
    rep.class_if(cut_crlf, "cut_between_cr_lf");
    rep.class_if(inside_event, "cut_inside_event");
    rep.nontrivial = inside_event || text.is_none();
    rep
}

fn main() {
    let mut check = Check::new("C15", "exploration");
    NO_EXCLUDE.store(std::env::var_os("VERIF_C15_NO_EXCLUDE").is_some(), Ordering::Relaxed);
    AFTER_DONE_LISTED.store(check.known().matches(SIG_AFTER_DONE).is_some(), Ordering::Relaxed);
    UTF8_RUNS_LISTED.store(check.known().matches(SIG_UTF8_RUNS).is_some(), Ordering::Relaxed);
    check.assume("lines end with LF or CRLF; a lone CR (not followed by LF) is not generated in reference-checked streams: the docs do not say whether it terminates a line (the token-soup and invalid-UTF-8 groups contain lone CRs but are checked by the chunking oracle only)");
    check.assume("payload equality against the reference is asserted only when no data-line value starts with whitespace after the single optional space (the decoder strips all leading whitespace, the SSE spec one space; the docs do not say); for such payloads only status/data are asserted when both readings parse to the same JSON value");
    check.assume("event_name is asserted only when the `event:` value has no surrounding whitespace and no data-less blank line separates it from the event (the decoder trims the name and keeps it across a data-less blank line; undocumented), and never for the [DONE] frame");
    check.assume("an event whose terminating blank line is missing at end of stream is not an event (SSE spec; repo test finish_flushes_buffer); bare `data`/`event` lines without a colon and a leading BOM are not generated (undocumented)");
    check.assume("the reference compares `data` with serde_json::from_str of the joined data lines (same parser as the implementation: number and depth limits are shared)");
    check.assume("trusted base: ripd::verif::run_sse_pipe (H7) drives the private pipe like the streaming loop: push_bytes per chunk until the terminal marker, then finish()");
    check.assume("errors/response_errors (schema validation messages) are compared between partitions only, not against a reference");
    check.note("F8 (payload nested 126-127 deep is emitted but cannot be parsed back) belongs to C03; this check only requires the frame to be the same for every chunking");

    let nontrivial = "non-trivial = some partition has a cut that is not immediately after a blank line (strictly inside an event), or the stream contains invalid UTF-8";
    let n = check.cases(5_000, 125_000);
    check.group(
        "script",
        &format!("stream rendered from a generated event script (created / text deltas with arbitrary unicode / function-call items / completed / schema-invalid JSON / invalid JSON / deep; comments, id/retry/unknown fields, event names matching or not, multi-line data, LF/CRLF/mixed, missing final blank line, truncation, [DONE] last or absent) x ~12 partitions (each byte, all CR|LF, inside every multi-byte char, inside data:/event:/[DONE], line boundaries, every n, random k cuts) + every single split for streams <= 512 B; {nontrivial}"),
        GroupOpts { cases: n, ..Default::default() },
        || gen::script_case(),
        run,
    );
    let n = check.cases(800, 20_000);
    check.group(
        "after_done",
        &format!("same scripts with 1..4 events placed after [DONE]; partitions additionally cut exactly at the end / start / inside of the [DONE] block; {nontrivial}"),
        GroupOpts { cases: n, ..Default::default() },
        || gen::after_done_case(),
        run,
    );
    let n = check.cases(2_500, 62_500);
    check.group(
        "invalid_utf8",
        &format!("script streams with invalid bytes injected at generated offsets (stray continuation, invalid lead, lone lead, truncated 2/3-byte prefixes, overlong, surrogates, truncation inside the last character) x partitions incl. cuts around every injection; pipe path only; {nontrivial}"),
        GroupOpts { cases: n, ..Default::default() },
        || gen::invalid_utf8_case(),
        run,
    );
    let n = check.cases(240, 6_000);
    check.group(
        "fixture",
        &format!("real provider streams from the repo fixtures (as-is / CRLF / mixed, text deltas optionally filled with unicode) re-chunked: ~12 partitions + every single split in a generated 256-byte window; {nontrivial}"),
        GroupOpts { cases: n, ..Default::default() },
        || gen::fixture_case(),
        run,
    );
    let n = check.cases(2_500, 62_500);
    check.group(
        "soup",
        &format!("token soup over an SSE alphabet (field names, CR, LF, CRLF, [DONE], JSON fragments, multi-byte characters, stray bytes); chunking and numbering oracles only; {nontrivial}"),
        GroupOpts { cases: n, ..Default::default() },
        || gen::soup_case(),
        run,
    );
    check.extra("exhaustive_within_case", json!(true));
    let _ = Path::new("/");
    check.finish();
}
