//! C20 — surfaces are total, bounded, deterministic folds over the frame stream.
//!
//! Domain: sequences of frames of every type with arbitrary seq plans (contiguous, gaps, repeats,
//! descending, random, several streams mixed), interleaved UI operations and renders; capacity
//! settings incl. 0/1. Oracle: no panic; configured bounds hold after every step; same steps ⇒
//! same state and same rendered buffer; seq lookups return a frame with that seq or nothing.

use proptest::prelude::*;
use ratatui::backend::TestBackend;
use ratatui::Terminal;
use rip_tui::{render, RenderMode, TuiState};
use rv::engine::runner::catch;
use rv::engine::{CaseReport, Check, GroupOpts};
use rv::gen::frame::{parse, wire_frame, FrameOpts};
use rv::gen::json::JsonOpts;
use serde::{Deserialize, Serialize};
use serde_json::{json, Value};

#[path = "c20/cli.rs"]
mod cli;

#[derive(Debug, Clone, Serialize, Deserialize)]
enum Step {
    Frame(Value),
    ToggleOutputView,
    ToggleTheme,
    ToggleActivity,
    ToggleTasks,
    OpenDetail,
    CloseOverlay,
    SetNow(u64),
    SetAutoFollow(bool),
    Select(u64),
    Render { w: u16, h: u16, decoded: bool },
}

#[derive(Debug, Clone, Serialize, Deserialize)]
struct Case {
    max_frames: usize,
    max_output: usize,
    seq_mode: String,
    steps: Vec<Step>,
}

fn seq_plan(mode: u8, base: u64, n: usize, noise: &[u64]) -> Vec<u64> {
    (0..n)
        .map(|i| {
            let r = noise[i % noise.len().max(1)];
            match mode {
                0 => base.saturating_add(i as u64),                   // contiguous
                1 => base.saturating_add(2 * i as u64 + (r % 2)),     // gaps
                2 => base.saturating_add((i as u64) / 2),             // repeats
                3 => base.saturating_add(n as u64).saturating_sub(i as u64), // descending
                4 => r % 12,                                          // small random (collisions)
                5 => base.saturating_add((i as u64) * (1 + r % 5)),   // growing gaps
                _ => r,                                               // arbitrary u64
            }
        })
        .collect()
}

fn mode_name(m: u8) -> &'static str {
    ["contiguous", "gaps", "repeats", "descending", "small_random", "growing_gaps", "arbitrary"]
        [(m as usize).min(6)]
}

fn case_strategy(max_steps: usize, big: bool) -> BoxedStrategy<Case> {
    let fo = FrameOpts {
        big_chunks: big,
        json: JsonOpts {
            depth: 2,
            floats: true,
            max_len: 3,
        },
    };
    let step = prop_oneof![
        30 => wire_frame(fo).prop_map(Step::Frame),
        1 => Just(Step::ToggleOutputView),
        1 => Just(Step::ToggleTheme),
        1 => Just(Step::ToggleActivity),
        1 => Just(Step::ToggleTasks),
        2 => Just(Step::OpenDetail),
        1 => Just(Step::CloseOverlay),
        1 => prop_oneof![0u64..100_000, any::<u64>()].prop_map(Step::SetNow),
        1 => any::<bool>().prop_map(Step::SetAutoFollow),
        1 => prop_oneof![0u64..60, any::<u64>()].prop_map(Step::Select),
        3 => (prop_oneof![20u16..=200, 40u16..=120], prop_oneof![8u16..=60, 20u16..=40], any::<bool>())
            .prop_map(|(w, h, decoded)| Step::Render { w, h, decoded }),
    ];
    (
        prop_oneof![Just(0usize), Just(1), Just(2), Just(7), Just(50), Just(10_000)],
        prop_oneof![Just(0usize), Just(1), Just(5), Just(64), Just(4096), Just(1_000_000)],
        0u8..7,
        prop_oneof![Just(0u64), 0u64..1000, Just(u64::MAX - 3), any::<u64>()],
        proptest::collection::vec(any::<u64>(), 1..8),
        proptest::collection::vec(step, 0..max_steps),
    )
        .prop_map(|(max_frames, max_output, mode, base, noise, mut steps)| {
            let n = steps.iter().filter(|s| matches!(s, Step::Frame(_))).count();
            let seqs = seq_plan(mode, base, n, &noise);
            let mut i = 0;
            for s in steps.iter_mut() {
                if let Step::Frame(v) = s {
                    v["seq"] = Value::from(seqs[i]);
                    i += 1;
                }
            }
            Case {
                max_frames,
                max_output,
                seq_mode: mode_name(mode).to_string(),
                steps,
            }
        })
        .boxed()
}

fn render_to_string(state: &TuiState, w: u16, h: u16, decoded: bool) -> String {
    let mut terminal = Terminal::new(TestBackend::new(w, h)).expect("terminal");
    let mode = if decoded {
        RenderMode::Decoded
    } else {
        RenderMode::Json
    };
    terminal
        .draw(|f| render(f, state, mode, "input text"))
        .expect("draw");
    let buf = terminal.backend().buffer().clone();
    let mut out = String::new();
    for y in 0..buf.area.height {
        for x in 0..buf.area.width {
            out.push_str(buf[(x, y)].symbol());
        }
        out.push('\n');
    }
    out
}

struct FoldOut {
    dump: String,
    renders: Vec<String>,
}

/// Fold the steps; check invariants after every step when `check` is set.
fn fold(case: &Case, report: Option<&mut CaseReport>) -> Result<FoldOut, (usize, String)> {
    let mut report = report;
    let mut state = TuiState::new(case.max_frames, case.max_output);
    let mut renders = Vec::new();
    let cap_frames = case.max_frames.max(1);
    let cap_out = case.max_output.max(1);
    let mut pushed: Vec<u64> = Vec::new();
    for (i, step) in case.steps.iter().enumerate() {
        let r = catch(|| match step {
            Step::Frame(w) => {
                let ev = parse(w).expect("generator produced an unparsable frame");
                state.update(ev);
            }
            Step::ToggleOutputView => state.toggle_output_view(),
            Step::ToggleTheme => state.toggle_theme(),
            Step::ToggleActivity => state.toggle_activity_overlay(),
            Step::ToggleTasks => state.toggle_tasks_overlay(),
            Step::OpenDetail => state.open_selected_detail(),
            Step::CloseOverlay => state.close_overlay(),
            Step::SetNow(t) => state.set_now_ms(*t),
            Step::SetAutoFollow(b) => state.auto_follow = *b,
            Step::Select(s) => state.selected_seq = Some(*s),
            Step::Render { w, h, decoded } => {
                renders.push(render_to_string(&state, *w, *h, *decoded));
            }
        });
        if let Err(p) = r {
            return Err((i, p));
        }
        if let Step::Frame(w) = step {
            pushed.push(w["seq"].as_u64().unwrap_or(0));
        }
        if let Some(rep) = report.as_deref_mut() {
            check_invariants(&state, cap_frames, cap_out, &pushed, i, rep);
        }
    }
    // derived accessors must be total too
    let r = catch(|| {
        let _ = state.ttft_ms();
        let _ = state.e2e_ms();
        let _ = state.openresponses_headers_ms();
        let _ = state.openresponses_first_byte_ms();
        let _ = state.openresponses_first_provider_event_ms();
        let _ = state.is_stalled(1000);
        let _ = state.running_tool_ids().count();
        let _ = state.running_task_ids().count();
        let _ = state.running_job_ids().count();
        format!("{state:?}")
    });
    match r {
        Ok(dump) => Ok(FoldOut { dump, renders }),
        Err(p) => Err((case.steps.len(), p)),
    }
}

fn check_invariants(
    state: &TuiState,
    cap_frames: usize,
    cap_out: usize,
    pushed: &[u64],
    step: usize,
    rep: &mut CaseReport,
) {
    if state.frames.len() > cap_frames {
        rep.fail(
            "bound|frames",
            json!({"step": step, "len": state.frames.len(), "cap": cap_frames}),
        );
    }
    if state.output_text.len() > cap_out {
        rep.fail(
            "bound|output_text",
            json!({"step": step, "len": state.output_text.len(), "cap": cap_out}),
        );
    }
    for (id, t) in &state.tools {
        if t.stdout_preview.len() > 8192 || t.stderr_preview.len() > 8192 {
            rep.fail("bound|tool_preview", json!({"step": step, "tool": id}));
        }
    }
    for (id, t) in &state.tasks {
        if t.stdout_preview.len() > 8192 || t.stderr_preview.len() > 8192 || t.pty_preview.len() > 8192 {
            rep.fail("bound|task_preview", json!({"step": step, "task": id}));
        }
    }
    // first/last agree with iteration
    let seqs: Vec<u64> = state.frames.iter().map(|e| e.seq).collect();
    if state.frames.first_seq() != seqs.first().copied() || state.frames.last_seq() != seqs.last().copied() {
        rep.fail("store|first_last", json!({"step": step}));
    }
    if state.frames.is_empty() != seqs.is_empty() {
        rep.fail("store|is_empty", json!({"step": step}));
    }
    // retained frames are exactly the last cap_frames pushed, in push order
    let tail: Vec<u64> = pushed[pushed.len().saturating_sub(cap_frames)..].to_vec();
    if tail != seqs {
        rep.fail(
            "store|retained_window",
            json!({"step": step, "expected_tail": tail, "got": seqs}),
        );
    }
    // lookups: recent seqs and neighbours
    let mut probe: Vec<u64> = Vec::new();
    for s in pushed.iter().rev().take(24) {
        probe.push(*s);
        probe.push(s.wrapping_add(1));
        probe.push(s.wrapping_sub(1));
    }
    if let Some(s) = state.selected_seq {
        probe.push(s);
    }
    probe.sort_unstable();
    probe.dedup();
    let contiguous = seqs.windows(2).all(|w| w[0].checked_add(1) == Some(w[1]));
    for s in probe {
        let got = state.frames.get_by_seq(s);
        if let Some(ev) = got {
            if ev.seq != s {
                rep.fail(
                    "lookup|wrong_frame",
                    json!({"step": step, "asked": s, "got_seq": ev.seq, "retained": seqs}),
                );
            }
        } else if contiguous && seqs.contains(&s) {
            // gap-free window: the documented fast path must find every retained frame
            rep.fail(
                "lookup|missing_in_contiguous_window",
                json!({"step": step, "asked": s, "retained": seqs}),
            );
        }
        if let Some(idx) = state.frames.index_of_seq(s) {
            match state.frames.iter().nth(idx) {
                Some(ev) if ev.seq == s => {}
                other => rep.fail(
                    "lookup|index_wrong",
                    json!({"step": step, "asked": s, "idx": idx, "at_idx": other.map(|e| e.seq)}),
                ),
            }
        }
    }
    if let (Some(sel), Some(ev)) = (state.selected_seq, state.selected_event()) {
        if ev.seq != sel {
            rep.fail(
                "lookup|selected_event_wrong",
                json!({"step": step, "selected": sel, "got": ev.seq}),
            );
        }
    }
}

fn run(case: &Case) -> CaseReport {
    let mut rep = CaseReport::new();
    let nframes = case.steps.iter().filter(|s| matches!(s, Step::Frame(_))).count();
    rep.class(format!("seq:{}", case.seq_mode));
    let irregular = case.seq_mode != "contiguous" && nframes >= 2;
    let exceeded = nframes > case.max_frames.max(1);
    rep.class_if(exceeded, "frame_cap_exceeded");
    rep.class_if(
        case.steps.iter().any(|s| matches!(s, Step::Render { .. })),
        "has_render",
    );
    rep.nontrivial = irregular || exceeded;

    let first = match fold(case, Some(&mut rep)) {
        Ok(o) => o,
        Err((step, p)) => {
            let loc = p.rsplit(" @ ").next().unwrap_or("").to_string();
            let what = match case.steps.get(step) {
                Some(Step::Render { .. }) => "render",
                Some(Step::Frame(_)) => "update",
                Some(_) => "ui_op",
                None => "accessors",
            };
            rep.fail(format!("panic|{what}|{loc}"), json!({"step": step, "panic": p}));
            return rep;
        }
    };
    if first.dump.len() > 0 && case.max_output >= 1 {
        rep.class_if(first.dump.contains("output_truncated: true"), "output_truncated");
    }
    match fold(case, None) {
        Ok(second) => {
            if second.dump != first.dump {
                rep.fail("nondeterministic|state", json!({}));
            }
            if second.renders != first.renders {
                rep.fail("nondeterministic|render", json!({}));
            }
        }
        Err((step, p)) => rep.fail("nondeterministic|panic_second_fold", json!({"step": step, "panic": p})),
    }
    rep
}

fn main() {
    let mut check = Check::new("C20", "exploration");
    check.assume("frames are well-formed: they parse as frames; seq/ids/timestamps/payloads arbitrary");
    check.assume("terminal sizes 20x8..200x60 (the property quantifies over frames and capacities, not over degenerate terminals)");
    check.assume("headless CLI renderers (rip run --view raw|output|metrics) are not linkable (binary crate): group `cli` drives the real `rip` binary built from the working tree (C20_RIP_BIN, default /verif/target/repo-bins/debug/rip) as a subprocess with an empty environment (PATH, HOME in scratch; stdin null) against a loopback server that implements POST /threads/ensure, POST /threads/{id}/messages and GET /sessions/{id}/events (SSE, one `data:` event per frame) and then ends the body");
    check.assume("cli: exit code 0 is expected both when the stream stops at the first session_ended frame (render_message -> should_stop) and when the body ends without one (EventSourceError::StreamEnded => break; repo tests stream_events_reads_messages / stream_events_stops_on_stream_end): main returns Ok(()) in both cases; a non-zero exit on well-formed frames is a failure of 'consumed without a crash'");
    check.assume("cli: metrics view output is a function of frame timestamps only (crates/rip-cli/src/metrics.rs has no clock), so it is compared byte for byte between runs like raw/output; the second run of each view re-chunks the same SSE bytes at generated positions (possibly inside a multi-byte character) - output must not depend on transport chunking");
    check.assume("cli: raw lines are compared as JSON values (docs: newline-delimited JSON event frames), not byte for byte; output view: stdout must start with the concatenated output_text_delta texts and, when there is model text, contain nothing else but an optional final newline at session_ended (docs/04_execution/cli.md: text deltas only; tool output only if no model output); the layout of the no-model-output fallback summary is undocumented and not asserted; a CLI run that exceeds 10 s is killed and counted inconclusive");
    let cli_wanted = match (&check.args.replay, &check.args.only) {
        (Some(_), _) => false, // a replay may belong to another group; a missing binary then shows as inconclusive
        (None, Some(o)) => "cli".contains(o.as_str()),
        (None, None) => true,
    };
    if cli_wanted && !cli::rip_bin().is_file() {
        println!(
            "INCONCLUSIVE property=C20: repository binary missing ({}); run ./check C20 (rebuilds it) or set C20_RIP_BIN",
            cli::rip_bin().display()
        );
        std::process::exit(2);
    }
    let rule = "steps = frames of all 40 types (seq plan: contiguous/gaps/repeats/descending/colliding/arbitrary) interleaved with UI ops and renders; non-trivial = (seq plan not contiguous and >=2 frames) or frame capacity exceeded; distinct by case hash";
    let n = check.cases(40_000, 1_500_000);
    check.group(
        "fold",
        rule,
        GroupOpts { cases: n, ..Default::default() },
        || case_strategy(60, false),
        run,
    );
    let n = check.cases(3_000, 60_000);
    check.group(
        "fold_big",
        "same, sequences up to 400 steps with output chunks around the 4 KiB/8 KiB preview boundaries (multi-byte characters straddling the cut)",
        GroupOpts { cases: n, ..Default::default() },
        || case_strategy(400, true),
        run,
    );
    let n = check.cases(300, 6_000);
    check.group(
        "cli",
        "frames from the fold generator (all 40 types, seq plans, streams mixed, multi-byte text; 1 in 5 with 4/8 KiB chunks; 2 in 5 restricted to the 12 kinds the output/metrics renderers fold, same seq plans) made finite (session_ended appended / inserted at a generated position / none at all / wherever generated) and served as an SSE body to the real `rip run --server --headless true --view raw|output|metrics` binary, every view run twice (one chunk per frame, then a generated byte partition); oracle: no signal/panic, exit 0, identical stdout across the two runs, raw = the consumed frames as JSON lines, output = the text deltas, metrics = one JSON object at session_ended, stdout <= 4x served bytes + 64 KiB; non-trivial = (seq plan not contiguous and >=2 consumed frames) or >=2 stream ids among the consumed frames or non-ASCII text in them",
        GroupOpts { cases: n, watchdog_s: 300, max_shrink_iters: 60, ..Default::default() },
        cli::strategy,
        cli::run,
    );
    check.finish();
}
