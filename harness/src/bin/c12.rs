//! C12 — patch application is all-or-nothing, and exact when it succeeds.
//!
//! Domain: a generated workspace tree (LF / CRLF / mixed / no-final-newline / empty / non-UTF-8
//! files, nested and empty dirs) x patch documents built (a) by construction from real line ranges
//! of the evolving tree (add / update with 1-4 hunks and 0-3 context lines / move / delete, path
//! re-use, a failing op at a generated position) and (b) by text-level mutation of (a).
//! Oracle: full recursive listing + bytes before and after. Err => every file byte-identical and
//! no new file. Ok => tree equals the reference model (`c12/model.rs`), which must also agree with
//! the by-construction (positional, search-free) expectation, else the case is discarded as
//! ambiguous; reported changed files == the files named; line endings / final newline preserved.
//! A share of the cases goes through the real `apply_patch` tool (rip-tools registry + runner).

use std::cell::RefCell;
use std::collections::{BTreeMap, BTreeSet};
use std::path::Path;
use std::sync::Arc;

use rip_kernel::EventKind;
use rip_tools::{register_builtin_tools, BuiltinToolConfig, ToolInvocation, ToolRegistry, ToolRunner};
use rv::engine::runner::catch;
use rv::engine::scratch::Scratch;
use rv::engine::{CaseReport, Check, GroupOpts};
use rv::tree::{self, Node};
use serde_json::{json, Value};

#[path = "c12/gen.rs"]
mod gen;
#[path = "c12/model.rs"]
mod model;

use gen::Case;
use model::{Cause, MFile, Tree};

// ---- confirmed defects on the unchanged tree, excluded by construction (see report) ----------
/// Update File on a zero-line file yields a spurious leading blank line ("" + "+x" => "\nx").
pub const EXCLUDE_KNOWN_UPDATE_EMPTY_FILE: bool = false;
/// Updating a file with mixed CRLF/LF endings rewrites every line ending to CRLF.
pub const EXCLUDE_KNOWN_MIXED_NORMALISED: bool = true;
/// `*** Add File` with exactly one empty content line ("+") creates an empty file, not "\n".
pub const EXCLUDE_KNOWN_ADD_SINGLE_BLANK_LINE: bool = false;
/// Delete File x; Add File x/y; <failure>: rollback cannot restore x (x is now a directory).
pub const EXCLUDE_KNOWN_DIR_CONFLICT_ROLLBACK: bool = false;

const SIG_EMPTY: &str = "exact|update_empty_file|leading_blank_line";
const SIG_MIXED: &str = "style|update_mixed_endings|normalised_to_crlf";
const SIG_BLANK_ADD: &str = "exact|add_single_blank_line|empty_file";
const SIG_DIR_CONFLICT: &str = "atomic|rollback|file_replaced_by_dir";

/// Whether a known-defect signature is reported (true) or tolerated-and-counted (false).
#[derive(Debug, Clone, Copy)]
struct Strict {
    empty: bool,
    mixed: bool,
    blank_add: bool,
    dir_conflict: bool,
}

enum Outcome {
    Ok(Vec<String>),
    Err(String),
    Panic(String),
}

thread_local! {
    static RT: RefCell<Option<tokio::runtime::Runtime>> = const { RefCell::new(None) };
}

struct ToolRes {
    exit_code: Option<i32>,
    artifacts: Option<Value>,
    stdout: Vec<String>,
    stderr: Vec<String>,
    failed: Option<String>,
}

fn run_tool(root: &Path, patch: &str) -> ToolRes {
    let registry = Arc::new(ToolRegistry::default());
    register_builtin_tools(
        &registry,
        BuiltinToolConfig {
            workspace_root: root.to_path_buf(),
            ..BuiltinToolConfig::default()
        },
    );
    let runner = ToolRunner::new(registry, 1);
    let inv = ToolInvocation {
        name: "apply_patch".to_string(),
        args: json!({ "patch": patch }),
        timeout_ms: None,
    };
    let events = RT.with(|rt| {
        let mut rt = rt.borrow_mut();
        let rt = rt.get_or_insert_with(|| {
            tokio::runtime::Builder::new_current_thread()
                .enable_all()
                .max_blocking_threads(1)
                .build()
                .expect("tokio runtime")
        });
        let mut seq = 0u64;
        rt.block_on(runner.run("c12", &mut seq, inv))
    });
    let mut res = ToolRes {
        exit_code: None,
        artifacts: None,
        stdout: Vec::new(),
        stderr: Vec::new(),
        failed: None,
    };
    for e in events {
        match e.kind {
            EventKind::ToolStdout { chunk, .. } => res.stdout.push(chunk),
            EventKind::ToolStderr { chunk, .. } => res.stderr.push(chunk),
            EventKind::ToolEnded { exit_code, artifacts, .. } => {
                res.exit_code = Some(exit_code);
                res.artifacts = artifacts;
            }
            EventKind::ToolFailed { error, .. } => res.failed = Some(error),
            _ => {}
        }
    }
    res
}

fn ws_files(s: &tree::Snapshot) -> BTreeMap<String, Vec<u8>> {
    s.iter()
        .filter_map(|(k, v)| match (k.strip_prefix("ws/"), v) {
            (Some(rel), Node::File(b)) => Some((rel.to_string(), b.clone())),
            _ => None,
        })
        .collect()
}

/// path -> bytes obtained by reading it (symlinks followed), for files and symlinks.
fn read_through(root: &Path, s: &tree::Snapshot) -> BTreeMap<String, Vec<u8>> {
    s.iter()
        .filter_map(|(k, v)| match v {
            Node::File(b) => Some((k.clone(), b.clone())),
            Node::Symlink(_) => Some((k.clone(), std::fs::read(root.join(k)).unwrap_or_else(|e| format!("<unreadable: {}>", e.kind()).into_bytes()))),
            _ => None,
        })
        .collect()
}

fn lossy(b: &[u8]) -> String {
    let s = String::from_utf8_lossy(&b[..b.len().min(400)]).to_string();
    if b.len() > 400 {
        format!("{s}…[{} bytes]", b.len())
    } else {
        s
    }
}

/// Differences between an expected tree and the actual files: (signature, path, detail).
fn mismatches(exp: &Tree, actual: &BTreeMap<String, Vec<u8>>) -> Vec<(String, String, Value)> {
    let mut out = Vec::new();
    for (p, f) in &exp.files {
        match actual.get(p) {
            None => out.push((
                format!("exact|ok|missing_file:{}", f.by.join("+")),
                p.clone(),
                json!({"path": p, "expected": lossy(&f.render())}),
            )),
            Some(a) => {
                if !f.matches(a, false) {
                    out.push((classify_content(f, a), p.clone(), json!({
                        "path": p, "expected": lossy(&f.render()), "actual": lossy(a), "produced_by": f.by,
                    })));
                }
            }
        }
    }
    for (p, a) in actual {
        if !exp.files.contains_key(p) {
            out.push((
                "exact|ok|unexpected_file".to_string(),
                p.clone(),
                json!({"path": p, "actual": lossy(a)}),
            ));
        }
    }
    out
}

fn classify_content(f: &MFile, actual: &[u8]) -> String {
    let by = if f.by.is_empty() {
        "untouched".to_string()
    } else {
        f.by.join("+")
    };
    if f.flags & model::FLAG_EMPTY_UPDATED != 0 {
        for skip in [1usize, 2] {
            if actual.len() >= skip
                && (&actual[..skip] == b"\n" || &actual[..skip] == b"\r\n")
                && f.matches(&actual[skip..], true)
            {
                return SIG_EMPTY.to_string();
            }
        }
    }
    if f.by == ["add"] && f.render() == b"\n" && actual.is_empty() {
        return SIG_BLANK_ADD.to_string();
    }
    if f.matches(actual, true) {
        let all_crlf = std::str::from_utf8(actual)
            .map(|s| model::split_lines(s).iter().all(|(_, t)| matches!(t, model::Term::Crlf | model::Term::None)))
            .unwrap_or(false);
        if f.flags & model::FLAG_MIXED_UPDATED != 0 && all_crlf {
            return SIG_MIXED.to_string();
        }
        return format!("style|{by}|line_ending_or_final_newline_changed");
    }
    format!("exact|{by}|content_mismatch")
}

fn tolerated(sig: &str, strict: Strict) -> Option<&'static str> {
    if sig == SIG_EMPTY && !strict.empty {
        Some("excluded_known_update_empty_file")
    } else if sig == SIG_MIXED && !strict.mixed {
        Some("excluded_known_mixed_normalised")
    } else if sig == SIG_BLANK_ADD && !strict.blank_add {
        Some("excluded_known_add_single_blank_line")
    } else {
        None
    }
}

fn run(case: &Case, strict: Strict) -> CaseReport {
    let mut rep = CaseReport::new();
    for (k, n) in &case.excluded {
        rep.count(&format!("excluded_by_generator_{k}"), *n as u64);
    }

    // ---- sandbox: outer/{.git/, sentinel, ws/...}
    let scratch = Scratch::new("c12");
    let outer = scratch.join("outer");
    let ws = outer.join("ws");
    let _ = std::fs::create_dir_all(outer.join(".git"));
    let _ = std::fs::create_dir_all(ws.join(".rip").join("checkpoints"));
    let _ = std::fs::write(outer.join("sentinel.txt"), b"canary-c12");
    for d in &case.dirs {
        let _ = std::fs::create_dir_all(ws.join(d));
    }
    let mats: Vec<(String, Vec<u8>)> = case.files.iter().map(|(p, c)| (p.clone(), c.bytes())).collect();
    tree::materialize(&ws, &mats);
    for (l, target) in &case.links {
        let lp = ws.join(l);
        if let Some(parent) = lp.parent() {
            let _ = std::fs::create_dir_all(parent);
        }
        let _ = std::os::unix::fs::symlink(target, &lp);
    }
    let alias_mode = !case.links.is_empty();
    let patch = case.patch.replace("@ABS@", &outer.to_string_lossy());

    let before = tree::snapshot(&outer, &["ws/.rip"]);
    let before_rt = if alias_mode { read_through(&outer, &before) } else { BTreeMap::new() };

    // ---- run
    let mut tool_res: Option<ToolRes> = None;
    let outcome = if case.via_tool {
        match catch(|| run_tool(&ws, &patch)) {
            Err(p) => Outcome::Panic(p),
            Ok(r) => {
                let o = match (r.exit_code, &r.failed) {
                    (Some(0), _) => {
                        let files = r
                            .artifacts
                            .as_ref()
                            .and_then(|a| a.get("changed_files"))
                            .and_then(|v| v.as_array())
                            .map(|a| a.iter().filter_map(|x| x.as_str().map(String::from)).collect::<Vec<_>>());
                        match files {
                            Some(f) => Outcome::Ok(f),
                            None => {
                                rep.fail(
                                    "tool|result|success_without_changed_files",
                                    json!({"artifacts": r.artifacts, "stdout": r.stdout}),
                                );
                                Outcome::Ok(Vec::new())
                            }
                        }
                    }
                    (Some(c), _) => Outcome::Err(format!("exit {c}: {}", r.stderr.join(" | "))),
                    (None, Some(e)) => Outcome::Err(format!("tool failed: {e}")),
                    (None, None) => Outcome::Err("no terminal tool event".into()),
                };
                tool_res = Some(r);
                o
            }
        }
    } else {
        match catch(|| rip_workspace::Workspace::new(&ws).and_then(|w| w.apply_patch(&patch))) {
            Ok(Ok(r)) => Outcome::Ok(r.changed_files),
            Ok(Err(e)) => Outcome::Err(e.to_string()),
            Err(p) => Outcome::Panic(p),
        }
    };
    let after = tree::snapshot(&outer, &["ws/.rip"]);
    if alias_mode {
        // alias class: the docs are silent on symlinks, so only the property's failure clause is
        // asserted, on the bytes every path yields when read (links followed)
        rep.class("gen:alias_symlink");
        rep.class(if case.via_tool { "via:tool" } else { "via:workspace" });
        let after_rt = read_through(&outer, &after);
        match &outcome {
            Outcome::Ok(_) => {
                rep.class("impl:ok");
                rep.count("alias_ok_unasserted", 1);
            }
            _ => {
                rep.class("impl:err");
                let n_ops = case.ops.as_ref().map(|o| o.len()).unwrap_or(0);
                let fail_pos = case.fail_at.as_ref().map(|f| f.op).unwrap_or(0);
                let through_link = case.ops.as_ref().map(|ops| ops.iter().take(fail_pos).any(|o| matches!(o, gen::OpSpec::Update { path, .. } if case.links.iter().any(|(l, _)| l == path)))).unwrap_or(false);
                rep.class_if(through_link, "alias:update_through_link_before_failure");
                rep.nontrivial = n_ops >= 2 && fail_pos >= 1;
                rep.class_if(rep.nontrivial, "nontrivial:late_failure");
                for (p, b) in &before_rt {
                    match after_rt.get(p) {
                        Some(a) if a == b => {}
                        Some(a) => rep.fail(
                            "atomic|rollback|file_changed",
                            json!({"path": p, "before": lossy(b), "after": lossy(a), "links": case.links, "error": err_text(&outcome), "patch": patch}),
                        ),
                        None => rep.fail(
                            "atomic|rollback|file_missing",
                            json!({"path": p, "links": case.links, "error": err_text(&outcome), "patch": patch}),
                        ),
                    }
                }
                for p in after_rt.keys() {
                    if !before_rt.contains_key(p) {
                        rep.fail(
                            "atomic|rollback|new_file_remains",
                            json!({"path": p, "links": case.links, "error": err_text(&outcome), "patch": patch}),
                        );
                    }
                }
            }
        }
        return rep;
    }

    // ---- model
    let tree0 = Tree::new(&case.files, &case.dirs);
    let parsed = model::parse(&patch);
    let (ops, notes): (Vec<model::POp>, Vec<&'static str>) = match &parsed {
        Ok(p) => (p.ops.clone(), p.notes.clone()),
        Err(_) => (Vec::new(), Vec::new()),
    };
    let eval = parsed.as_ref().ok().map(|_| model::evaluate(&tree0, &ops));
    let strict0 = eval
        .as_ref()
        .and_then(|e| e.outcomes.iter().find(|(p, _)| *p == 0))
        .map(|(_, r)| r.clone());

    // ---- classes
    let n_ops = ops.len();
    let max_hunks = ops
        .iter()
        .map(|o| match o {
            model::POp::Update { hunks, .. } => hunks.len(),
            _ => 0,
        })
        .max()
        .unwrap_or(0);
    let has_move = ops.iter().any(|o| matches!(o, model::POp::Update { move_to: Some(_), .. }));
    rep.class(if case.via_tool { "via:tool" } else { "via:workspace" });
    rep.class(match (&case.mutation, &case.fail_at) {
        (Some(_), _) => "gen:mutated",
        (None, Some(_)) => "gen:constructed_with_failure",
        (None, None) => "gen:constructed_ok",
    });
    if let Some(m) = &case.mutation {
        rep.class(format!("mut:{m}"));
    }
    if let Some(f) = &case.fail_at {
        rep.class(format!("failcause:{}", f.cause));
    }
    rep.class(format!("ops:{}", n_ops.min(6)));
    for o in &ops {
        rep.class(format!("op:{}", o.kind()));
    }
    rep.class_if(parsed.is_err(), "model:unparseable");
    for n in &notes {
        rep.class(format!("note:{n}"));
    }
    let impl_ok = matches!(outcome, Outcome::Ok(_));
    rep.class(if impl_ok { "impl:ok" } else { "impl:err" });
    let model_fail_pos = match &strict0 {
        Some(Err((i, _))) => Some(*i),
        _ => None,
    };
    let late_fail = !impl_ok && n_ops >= 2 && model_fail_pos.map(|i| i >= 1).unwrap_or(false);
    let rich_ok = impl_ok && (max_hunks >= 2 || has_move);
    rep.class_if(late_fail, "nontrivial:late_failure");
    rep.class_if(rich_ok, "nontrivial:ok_multi_hunk_or_move");
    rep.class_if(impl_ok && n_ops >= 2, "ok_multi_op");
    rep.class_if(impl_ok && max_hunks >= 2, "ok_multi_hunk");
    rep.class_if(impl_ok && has_move, "ok_with_move");
    rep.nontrivial = late_fail || rich_ok;
    if let Some(e) = &eval {
        rep.class_if(impl_ok && e.stats.occurs_before_cursor > 0, "ok_context_also_before_cursor");
        rep.class_if(impl_ok && e.stats.repeated_after_cursor > 0, "ok_context_repeated_after_cursor");
        for (bit, name) in [
            (model::D_ADD_OVERWRITE, "choice:add_onto_existing"),
            (model::D_MOVE_OVERWRITE, "choice:move_onto_existing"),
            (model::D_PURE_INSERT_AT_CURSOR, "choice:pure_insertion_position"),
            (model::D_NOSTYLE_CRLF, "choice:terminator_for_file_without_any"),
            (model::D_EMPTY_FINAL_NL, "choice:final_newline_for_zero_line_file"),
        ] {
            rep.class_if(e.touched & bit != 0, name);
        }
    }
    {
        // file styles an Update touches (model view of the initial tree)
        for o in &ops {
            if let model::POp::Update { path, .. } = o {
                if let model::PathClass::Rel(p) = model::classify_path(path) {
                    if let Some(f) = tree0.files.get(&p) {
                        match f.lines() {
                            None => rep.class("update_target:non_utf8"),
                            Some(l) => {
                                rep.class(format!("update_target:{:?}", model::style_of(&l)).to_lowercase());
                                rep.class_if(l.is_empty(), "update_target:empty");
                                rep.class_if(
                                    l.last().map(|x| x.1 == model::Term::None).unwrap_or(false),
                                    "update_target:no_final_newline",
                                );
                            }
                        }
                    }
                }
            }
        }
    }

    // ---- anything outside the workspace root must never change
    for (k, v) in &after {
        if !k.starts_with("ws/") && k != "ws" && before.get(k) != Some(v) {
            rep.fail("escape|outside_root|created_or_changed", json!({"path": k, "patch": patch}));
        }
    }
    for k in before.keys() {
        if !after.contains_key(k) && !k.starts_with("ws/") {
            rep.fail("escape|outside_root|removed", json!({"path": k}));
        }
    }
    for (k, v) in &after {
        if matches!(v, Node::Symlink(_) | Node::Other) {
            rep.fail("exact|ok|non_regular_node_created", json!({"path": k}));
        }
    }

    let fb = ws_files(&before);
    let fa = ws_files(&after);

    match &outcome {
        Outcome::Err(_) | Outcome::Panic(_) => {
            if let Outcome::Panic(p) = &outcome {
                rep.count("panics_treated_as_failure", 1);
                rep.class("impl:panic");
                // a panic is not a reported failure; the property only speaks of the files, so
                // it is judged as a failure (atomicity) and the location is kept for the report
                rep.count(&format!("panic@{}", p.rsplit(" @ ").next().unwrap_or("")), 1);
            }
            // atomicity
            for (p, b) in &fb {
                match fa.get(p) {
                    Some(a) if a == b => {}
                    Some(a) => rep.fail(
                        "atomic|rollback|file_changed",
                        json!({"path": p, "before": lossy(b), "after": lossy(a), "error": err_text(&outcome), "patch": patch}),
                    ),
                    None => {
                        let became_dir = after.get(&format!("ws/{p}")) == Some(&Node::Dir);
                        if became_dir {
                            if strict.dir_conflict {
                                rep.fail(
                                    SIG_DIR_CONFLICT,
                                    json!({"path": p, "before": lossy(b), "error": err_text(&outcome), "patch": patch}),
                                );
                            } else {
                                rep.count("excluded_known_dir_conflict_rollback", 1);
                            }
                        } else {
                            rep.fail(
                                "atomic|rollback|file_missing",
                                json!({"path": p, "before": lossy(b), "error": err_text(&outcome), "patch": patch}),
                            );
                        }
                    }
                }
            }
            for (p, a) in &fa {
                if !fb.contains_key(p) {
                    rep.fail(
                        "atomic|rollback|new_file_remains",
                        json!({"path": p, "content": lossy(a), "error": err_text(&outcome), "patch": patch}),
                    );
                }
            }
            let new_dirs = after
                .iter()
                .filter(|(k, v)| **v == Node::Dir && !before.contains_key(*k))
                .count();
            rep.count("new_empty_dirs_after_failure", new_dirs as u64);
            let lost_dirs = before
                .iter()
                .filter(|(k, v)| **v == Node::Dir && !after.contains_key(*k))
                .count();
            rep.count("dirs_lost_after_failure", lost_dirs as u64);
            // health: the model (every reading) and the construction both say this patch applies
            if let Some(e) = &eval {
                if case.fail_at.is_none() && case.mutation.is_none() && e.outcomes.iter().all(|(_, r)| r.is_ok()) {
                    rep.count("health_model_ok_but_impl_failed", 1);
                    rep.class("health:model_ok_impl_err");
                }
            }
            if let Some(r) = &tool_res {
                if r.artifacts.as_ref().and_then(|a| a.get("changed_files")).is_some() {
                    rep.fail("tool|result|failure_reports_changed_files", json!({"artifacts": r.artifacts}));
                }
            }
        }
        Outcome::Ok(changed) => {
            check_success(case, &patch, &tree0, &parsed, &ops, eval.as_ref(), changed, &fa, strict, &mut rep);
            if let Some(r) = &tool_res {
                // the tool's human-readable summary ("patched N file(s)"): if it states a count,
                // the count must be the number of reported changed files (wording is free)
                let text = r.stdout.join("\n");
                let digits: String = text
                    .chars()
                    .skip_while(|c| !c.is_ascii_digit())
                    .take_while(|c| c.is_ascii_digit())
                    .collect();
                if let Ok(n) = digits.parse::<usize>() {
                    if n != changed.len() {
                        rep.fail(
                            "tool|result|stdout_count_disagrees_with_changed_files",
                            json!({"stdout": r.stdout, "changed_files": changed}),
                        );
                    }
                }
            }
        }
    }
    rep
}

fn err_text(o: &Outcome) -> String {
    match o {
        Outcome::Err(e) => e.clone(),
        Outcome::Panic(p) => format!("panic: {p}"),
        Outcome::Ok(_) => String::new(),
    }
}

#[allow(clippy::too_many_arguments)]
fn check_success(
    case: &Case,
    patch: &str,
    tree0: &Tree,
    parsed: &Result<model::Parsed, String>,
    ops: &[model::POp],
    eval: Option<&model::Eval>,
    changed: &[String],
    actual: &BTreeMap<String, Vec<u8>>,
    strict: Strict,
    rep: &mut CaseReport,
) {
    let Some(eval) = eval else {
        // the document cannot be read as a patch by the model: what success would mean is
        // undefined; nothing is asserted beyond "nothing outside the root changed"
        rep.count("ok_on_unparseable_unasserted", 1);
        rep.class("impl_ok_model_unparseable");
        let _ = parsed;
        return;
    };
    // documented: absolute paths and `..` segments are rejected
    if let Some(why) = model::must_reject(ops) {
        rep.fail(
            format!("reject|ok|{why}_path_accepted"),
            json!({"patch": patch, "changed_files": changed}),
        );
        return;
    }
    let oks: Vec<&Tree> = eval.outcomes.iter().filter_map(|(_, r)| r.as_ref().ok()).collect();

    // ---- do the two independent expectations agree?
    if let Some(cops) = &case.ops {
        let ambiguous = match &case.fail_at {
            None => {
                // intent: success. Some reading of the model must give the same tree.
                !eval.outcomes.iter().any(|(pol, r)| match (r, gen::intent_apply(tree0, cops, *pol)) {
                    (Ok(m), Ok(i)) => m.files == i.files,
                    _ => false,
                })
            }
            Some(f) if !f.soft => !oks.is_empty(),
            Some(_) => false,
        };
        if ambiguous {
            rep.count("ambiguous_discarded", 1);
            rep.class("ambiguous_discarded");
            return;
        }
    }

    if oks.is_empty() {
        let causes: Vec<&Cause> = eval
            .outcomes
            .iter()
            .filter_map(|(_, r)| r.as_ref().err().map(|(_, c)| c))
            .collect();
        if causes.iter().all(|c| matches!(c, Cause::Hard(_))) {
            let (idx, c) = eval
                .outcomes
                .iter()
                .find(|(p, _)| *p == 0)
                .and_then(|(_, r)| r.as_ref().err().cloned())
                .unwrap_or((0, Cause::Hard("?")));
            rep.fail(
                format!("exact|ok|unperformable_op_succeeded:{}", c.name()),
                json!({"op_index": idx, "patch": patch, "changed_files": changed}),
            );
        } else {
            rep.count("ok_on_undocumented_failure_unasserted", 1);
        }
        return;
    }

    // ---- tree == one of the accepted readings
    // pick the accepted reading closest to the actual tree: fewest differences that are not a
    // specifically classified (known-defect) signature, then fewest differences at all
    let mut best: Option<((usize, usize, usize), Vec<(String, String, Value)>)> = None;
    for t in &oks {
        let mm = mismatches(t, actual);
        let unclassified = mm
            .iter()
            .filter(|(s, _, _)| ![SIG_EMPTY, SIG_MIXED, SIG_BLANK_ADD].contains(&s.as_str()))
            .count();
        let hard = mm.iter().filter(|(s, _, _)| tolerated(s, strict).is_none()).count();
        let rank = (hard, unclassified, mm.len());
        if best.as_ref().map(|(r, _)| rank < *r).unwrap_or(true) {
            best = Some((rank, mm));
        }
    }
    if let Some((_, mm)) = best {
        for (sig, _path, mut detail) in mm {
            if let Some(counter) = tolerated(&sig, strict) {
                rep.count(counter, 1);
            } else {
                detail["patch"] = json!(patch);
                rep.fail(sig, detail);
            }
        }
    }

    // ---- reported changed files == the files named
    let named = model::named_paths(ops);
    let got: BTreeSet<String> = changed
        .iter()
        .filter_map(|p| match model::classify_path(p) {
            model::PathClass::Rel(p) => Some(p),
            _ => None,
        })
        .collect();
    if got != named || got.len() > changed.len() {
        rep.fail(
            "report|changed_files|not_exactly_the_files_named",
            json!({"reported": changed, "named": named, "patch": patch}),
        );
    }
}

fn main() {
    let mut check = Check::new("C12", "exploration");
    check.assume("workspace trees contain regular files and directories only (no hard links, special files); symlinks appear only in the `alias` group (relative, in-root, to regular files; updates only; atomicity only); paths are relative, '/'-separated, without surrounding whitespace or backslashes");
    check.assume("hunk semantics per DESIGN §5/C12: a hunk applies at the first place at or after the cursor where its before-lines occur; the cursor moves behind the replaced region");
    check.assume("choices the docs leave open are all accepted: Add onto an existing file / Move onto an existing file may fail or overwrite; a hunk without before-lines may append at the end or insert at the cursor; a file without any line terminator may get LF or CRLF; lines added to a zero-line file may or may not get a final newline");
    check.assume("a patch the model cannot parse, or one that fails for a reason the docs do not fix (non-UTF-8 target), is only checked for atomicity when it fails and not at all when it succeeds (counted)");
    check.assume("a failure the property does not require (model says the patch applies, implementation refuses) is not a violation; it is counted as health_model_ok_but_impl_failed");
    check.assume("directories created by a failed patch are counted (new_empty_dirs_after_failure), not reported");

    let listed = |sig: &str| check.known().matches(sig).is_some();
    let replay = check.args.replay.is_some();
    // a known-defect signature is reported when its exclusion flag is off, when the orchestrator
    // listed it in known_findings.json (so the pinned reproducer prints KNOWN-FINDING), or when a
    // single file is replayed with --replay; otherwise it is tolerated and counted
    let strict = Strict {
        empty: !EXCLUDE_KNOWN_UPDATE_EMPTY_FILE || replay || listed(SIG_EMPTY),
        mixed: !EXCLUDE_KNOWN_MIXED_NORMALISED || replay || listed(SIG_MIXED),
        blank_add: !EXCLUDE_KNOWN_ADD_SINGLE_BLANK_LINE || replay || listed(SIG_BLANK_ADD),
        dir_conflict: !EXCLUDE_KNOWN_DIR_CONFLICT_ROLLBACK || replay || listed(SIG_DIR_CONFLICT),
    };

    let rule = "workspace tree x patch document; non-trivial = (>=2 ops, the patch fails and the model places the failing op at position >=2) or (the patch succeeds and has an update with >=2 hunks or a move); distinct by case hash";
    let n = check.cases(40_000, 1_000_000);
    check.group(
        "apply",
        &format!("constructed patches meant to succeed (1-6 ops, 1-4 hunks, 0-3 context lines, path re-use, moves); {rule}"),
        GroupOpts { cases: n, ..Default::default() },
        || gen::case_strategy(0),
        move |c: &Case| run(c, strict),
    );
    let n = check.cases(36_000, 900_000);
    check.group(
        "apply_fail",
        &format!("constructed patches with one unperformable op at a generated (late-biased) position: delete/update of a missing file, add of an existing file, move onto an existing file, absent or out-of-order hunk context, non-UTF-8 target, directory targets, file-as-parent; {rule}"),
        GroupOpts { cases: n, ..Default::default() },
        || gen::case_strategy(1),
        move |c: &Case| run(c, strict),
    );
    let n = check.cases(16_000, 400_000);
    check.group(
        "mutated",
        &format!("text-level mutations of constructed patches (footer/header damage, bad or missing prefixes, '*** End of File', CRLF patch text, absolute / '..' / '.' paths, respelled paths, dropped '@@', truncation, blank / duplicated / dropped lines, misplaced headers); {rule}"),
        GroupOpts { cases: n, ..Default::default() },
        || gen::case_strategy(2),
        move |c: &Case| run(c, strict),
    );
    let n = check.cases(8_000, 200_000);
    check.group(
        "alias",
        "updates only; up to two text files are also reachable through a relative symlink inside the workspace and are updated under both names; one unperformable op (missing file / absent or out-of-order context) at a generated position; only the failure clause is asserted, on read-through bytes; non-trivial = >=2 ops and the failing op is not the first",
        GroupOpts { cases: n, ..Default::default() },
        || gen::case_strategy(3),
        move |c: &Case| run(c, strict),
    );
    check.finish();
}
