// ---------------------------------------------------------------------------------------------
// group `doctor_shapes` (included into c19.rs): the secret sits in a configuration file that is
// MISTYPED — valid JSON/JSONC with the key in a slot of the wrong type or under a misspelt name,
// or a file with a syntax error next to the secret. Such a file is what a diagnostic command is
// run on; whatever the loader thinks of it, the secret text must not come back through
// /config/doctor, `rip config doctor`, the authority's stdout/stderr, or any frame / file a run
// started afterwards leaves behind.
// ---------------------------------------------------------------------------------------------

#[derive(Debug, Clone, Serialize, Deserialize)]
struct ShapeCase {
    secret: String,
    alphabet: String,
    layer: String,
    jsonc: bool,
    shape: u8,
    /// a second, well-formed layer with a routable provider next to the mistyped one
    valid_neighbour: bool,
    launcher: String,
    cli_doctor: bool,
    run_after: bool,
}

const SHAPES: &[&str] = &[
    "provider_entry_is_string",
    "headers_is_one_string",
    "api_key_is_array",
    "api_key_is_object",
    "header_value_is_array",
    "provider_is_array",
    "provider_is_string",
    "api_key_env_object",
    "whole_file_wrapped_in_array",
    "misspelt_key_name",
    "header_value_is_number_like_object",
    "syntax_unterminated_string",
    "syntax_unquoted_value",
    "syntax_missing_comma_after_key",
    "syntax_trailing_garbage",
    "roles_primary_is_secret_string",
];

fn shape_case_strategy() -> BoxedStrategy<ShapeCase> {
    (
        gen::secret_pub(),
        prop_oneof![Just("global_jsonc"), Just("global_json"), Just("custom"), Just("parent_jsonc"), Just("parent_json"), Just("ws_jsonc"), Just("ws_json")],
        any::<bool>(),
        0u8..(SHAPES.len() as u8),
        any::<bool>(),
        prop_oneof![3 => Just("ripd"), 1 => Just("rip_serve")],
        any::<bool>(),
        proptest::bool::weighted(0.6),
    )
        .prop_map(|((secret, alphabet), layer, jsonc, shape, valid_neighbour, launcher, cli_doctor, run_after)| ShapeCase {
            secret,
            alphabet,
            layer: layer.to_string(),
            jsonc,
            shape,
            valid_neighbour,
            launcher: launcher.to_string(),
            cli_doctor,
            run_after,
        })
        .boxed()
}

fn shape_text(c: &ShapeCase) -> String {
    let s = &c.secret;
    let js = serde_json::to_string(s).unwrap_or_default(); // quoted JSON string
    let pretty = |v: Value| serde_json::to_string_pretty(&v).unwrap_or_default();
    let body = match SHAPES[c.shape as usize % SHAPES.len()] {
        "provider_entry_is_string" => pretty(json!({"provider": {"openrouter": s}})),
        "headers_is_one_string" => pretty(json!({"provider": {"openrouter": {"endpoint": "http://127.0.0.1:1/v1/responses", "headers": format!("Authorization: Bearer {s}")}}})),
        "api_key_is_array" => pretty(json!({"provider": {"openrouter": {"api_key": [s]}}})),
        "api_key_is_object" => pretty(json!({"provider": {"openrouter": {"api_key": {"value": s}}}})),
        "header_value_is_array" => pretty(json!({"provider": {"openrouter": {"headers": {"Authorization": [format!("Bearer {s}")]}}}})),
        "provider_is_array" => pretty(json!({"provider": [{"name": "openrouter", "api_key": s}]})),
        "provider_is_string" => pretty(json!({"provider": s})),
        "api_key_env_object" => pretty(json!({"provider": {"openrouter": {"api_key": {"env": s}}}})),
        "whole_file_wrapped_in_array" => pretty(json!([{"provider": {"openrouter": {"api_key": s}}}])),
        "misspelt_key_name" => pretty(json!({"provider": {"openrouter": {"apiKey": s, "api-key": s}}, "api_key": s})),
        "header_value_is_number_like_object" => pretty(json!({"provider": {"openrouter": {"headers": {"X-Api-Key": {"token": s, "n": 1}}}}})),
        "syntax_unterminated_string" => format!("{{\n  \"provider\": {{\n    \"openrouter\": {{\n      \"api_key\": {}\n", &js[..js.len() - 1]),
        "syntax_unquoted_value" => format!("{{\n  \"provider\": {{\n    \"openrouter\": {{\n      \"api_key\": {s}\n    }}\n  }}\n}}\n"),
        "syntax_missing_comma_after_key" => format!("{{\n  \"provider\": {{\n    \"openrouter\": {{\n      \"api_key\": {js}\n      \"endpoint\": \"http://127.0.0.1:1/v1/responses\"\n    }}\n  }}\n}}\n"),
        "syntax_trailing_garbage" => format!("{}\n{s}\n", pretty(json!({"provider": {"openrouter": {"api_key": s}}}))),
        _ => pretty(json!({"roles": {"primary": s}, "provider": {"openrouter": {"api_key": s}}})),
    };
    if c.jsonc && (c.layer.ends_with("jsonc") || c.layer == "custom") {
        format!("// rip configuration (JSONC)\n{body}")
    } else {
        body
    }
}

async fn run_shape_async(case: &ShapeCase) -> CaseReport {
    let mut rep = CaseReport::new();
    let shape = SHAPES[case.shape as usize % SHAPES.len()];
    rep.class(format!("shape:{shape}"));
    rep.class(format!("layer:{}", case.layer));
    rep.class(format!("alphabet:{}", case.alphabet));
    rep.class(format!("launcher:{}", case.launcher));
    let bins = BINS.get().expect("bins");
    let sb = Scratch::new("c19s");
    let root = sb.path().to_path_buf();
    let home = root.join("home");
    let p = Paths {
        global_dir: home.join("cfg"),
        home: home.clone(),
        custom: root.join("custom").join("rip-custom.jsonc"),
        parent: root.join("outer").join("proj"),
        ws: root.join("outer").join("proj").join("ws"),
        data: root.join("data"),
        cwd: root.join("cwd"),
        procdir: root.join("proc"),
    };
    for d in [&p.home, &p.global_dir, &root.join("custom"), &root.join("outer").join(".git"), &p.ws, &p.data, &p.cwd, &p.procdir, &home.join("xdg")] {
        let _ = std::fs::create_dir_all(d);
    }
    let mut own_files: BTreeSet<PathBuf> = BTreeSet::new();
    let path = layer_path(&p, &case.layer);
    if let Some(parent) = path.parent() {
        let _ = std::fs::create_dir_all(parent);
    }
    let _ = std::fs::write(&path, shape_text(case));
    own_files.insert(path.clone());
    if case.valid_neighbour {
        // a well-formed layer elsewhere (no secret in it)
        let other = if case.layer.starts_with("ws") { layer_path(&p, "global_json") } else { layer_path(&p, "ws_json") };
        let _ = std::fs::write(&other, serde_json::to_string_pretty(&json!({"provider": {"local": {"endpoint": "http://127.0.0.1:1/v1/responses"}}, "roles": {"primary": {"provider": "local", "model": "m"}}})).unwrap_or_default());
        own_files.insert(other);
        rep.class("valid_neighbour_layer");
    }
    let mut env: Vec<(String, String)> = vec![
        ("PATH".into(), "/usr/local/bin:/usr/bin:/bin".into()),
        ("HOME".into(), p.home.display().to_string()),
        ("XDG_CONFIG_HOME".into(), home.join("xdg").display().to_string()),
        ("RIP_DATA_DIR".into(), p.data.display().to_string()),
        ("RIP_WORKSPACE_ROOT".into(), p.ws.display().to_string()),
        ("RIP_SERVER_ADDR".into(), "127.0.0.1:0".into()),
        ("RIP_CONFIG_HOME".into(), p.global_dir.display().to_string()),
    ];
    if case.layer == "custom" {
        env.push(("RIP_CONFIG".into(), p.custom.display().to_string()));
    }
    let (bin, args): (&Path, Vec<String>) = if case.launcher == "rip_serve" { (&bins.rip, vec!["serve".to_string()]) } else { (&bins.ripd, Vec::new()) };
    let meta_path = p.data.join("authority").join("meta.json");
    let mut child: Option<Proc> = None;
    let mut base: Option<String> = None;
    'attempts: for _ in 0..3 {
        let _ = std::fs::remove_dir_all(p.data.join("authority"));
        let Ok(mut c) = Proc::spawn(bin, &args, &env, &p.cwd, &p.procdir.join("ripd.stdout"), &p.procdir.join("ripd.stderr")) else { continue };
        let t0 = Instant::now();
        loop {
            if let Ok(s) = std::fs::read_to_string(&meta_path) {
                if let Some(ep) = serde_json::from_str::<Value>(&s).ok().and_then(|v| v["endpoint"].as_str().map(|s| s.to_string())) {
                    base = Some(ep);
                    child = Some(c);
                    break 'attempts;
                }
            }
            if c.exited() || t0.elapsed() > Duration::from_secs(40) {
                break;
            }
            tokio::time::sleep(Duration::from_millis(4)).await;
        }
    }
    let mut bodies = Bodies::default();
    let mut doctor_status = 0u16;
    if let (Some(_), Some(base)) = (child.as_ref(), base.clone()) {
        let client = reqwest::Client::builder().no_proxy().pool_max_idle_per_host(0).build().expect("client");
        let http = Http { client, base: base.clone() };
        if let Some((st, _)) = http.get("/config/doctor", "http:config_doctor", &mut bodies).await {
            doctor_status = st;
        }
        if case.cli_doctor {
            let args: Vec<String> = ["config", "--server", base.as_str(), "doctor"].iter().map(|s| s.to_string()).collect();
            if let Ok(mut c) = Proc::spawn(&bins.rip, &args, &env, &p.cwd, &p.procdir.join("cli_doctor.stdout"), &p.procdir.join("cli_doctor.stderr")) {
                if !c.wait_exit(Duration::from_secs(30)).await {
                    rep.count("cli_doctor_timeout", 1);
                }
            }
            rep.class("cli_config_doctor");
        }
        if case.run_after {
            // a run started on top of the mistyped configuration: whatever it logs must be clean
            let tid = http
                .post("/threads/ensure", None, "http:threads_ensure", &mut bodies)
                .await
                .and_then(|(_, b)| serde_json::from_slice::<Value>(&b).ok())
                .and_then(|v| v["thread_id"].as_str().map(|s| s.to_string()));
            if let Some(tid) = tid {
                let r = http.post(&format!("/threads/{tid}/messages"), Some(json!({"content": "hello", "actor_id": "user", "origin": "c19"})), "http:thread_post_message", &mut bodies).await;
                let sid = r.and_then(|(_, b)| serde_json::from_slice::<Value>(&b).ok()).and_then(|v| v["session_id"].as_str().map(|s| s.to_string()));
                if let Some(sid) = sid {
                    let _ = http
                        .sse(&format!("/sessions/{sid}/events"), "http:session_events", &mut bodies, Duration::from_secs(20), Duration::from_secs(5), session_ended_seen)
                        .await;
                    let _ = wait_quiescent(&p.data, Duration::from_secs(10)).await;
                    rep.class("run_after_doctor");
                }
            }
        }
    } else {
        // the authority refused to start on this configuration: its own output is the diagnostic
        rep.class("authority_refused_to_start");
    }
    if let Some(mut c) = child {
        let _ = c.terminate(Duration::from_secs(5)).await;
    }
    rep.class(format!("doctor_status:{doctor_status}"));

    // ---- grep every surface
    let m = Matcher::new(needles_for(0, &case.secret));
    let mut hits: Vec<(String, String, bool, String)> = Vec::new();
    let mut scan = |surface: &str, bytes: &[u8]| {
        for h in m.scan(bytes) {
            let n = &m.needles[h.needle];
            hits.push((surface.to_string(), n.enc.clone(), n.partial, excerpt(bytes, h.offset, n.bytes.len(), "SECRET")));
        }
    };
    for (surface, b) in &bodies.items {
        scan(surface, b);
    }
    let mut files = Vec::new();
    walk(&root, &mut files);
    for f in &files {
        if own_files.contains(f) {
            continue;
        }
        let rel = f.strip_prefix(&root).unwrap_or(f).to_string_lossy().to_string();
        let Ok(bytes) = std::fs::read(f) else { continue };
        scan(&file_surface(&rel, &BTreeSet::new()), &bytes);
    }
    rep.count("surfaces_scanned", (bodies.items.len() + files.len()) as u64);
    let mut reported: BTreeSet<String> = BTreeSet::new();
    for (surface, enc, partial, ex) in &hits {
        let kind = if *partial { "leak_partial" } else { "leak" };
        let sig = format!("{kind}|{surface}|mistyped_config:{shape}");
        if reported.insert(sig.clone()) {
            rep.fail(sig, json!({"encoding": enc, "excerpt": ex, "layer": case.layer}));
        }
    }
    rep.nontrivial = doctor_status == 200 || !bodies.items.is_empty();
    rep
}

fn run_shape(case: &ShapeCase) -> CaseReport {
    RT.with(|cell| {
        let mut slot = cell.borrow_mut();
        if slot.is_none() {
            *slot = Some(rv::runs::runtime(2));
        }
        let rt = slot.as_ref().expect("runtime");
        rt.block_on(run_shape_async(case))
    })
}
