//! Case type (complete concrete input: config file texts, environment, canaries, run plans) and
//! its generator. `@E5@` in file texts / env values / endpoints stands for the scripted
//! provider's base URL (`http://127.0.0.1:<port>`), known only at run time.

use proptest::prelude::*;
use rv::engine::pick;
use serde::{Deserialize, Serialize};
use serde_json::{json, Value};

use super::enc::json_esc;

pub const LAYERS: [&str; 7] = [
    "global_jsonc",
    "global_json",
    "custom",
    // within one project directory the code loads rip.json first, rip.jsonc second (the docs do
    // not fix that order; it only matters for where a "shadowed" decoy may be planted)
    "parent_json",
    "parent_jsonc",
    "ws_json",
    "ws_jsonc",
];

#[derive(Debug, Clone, Serialize, Deserialize)]
pub struct Canary {
    /// supply channel (signature component)
    pub channel: String,
    pub value: String,
    pub alphabet: String,
    /// expected to reach the provider in at least one run of the case
    pub primary: bool,
    /// header name for header secrets
    pub header: Option<String>,
    /// config layer / env var it was planted in (evidence only)
    pub planted_in: String,
}

#[derive(Debug, Clone, Serialize, Deserialize)]
pub struct FileSpec {
    pub layer: String,
    pub text: String,
}

#[derive(Debug, Clone, Serialize, Deserialize, Default)]
pub struct Overrides {
    /// "alt" (same provider, other path) | "same" (the configured endpoint) | "closed" (nothing listens)
    pub endpoint: Option<String>,
    pub model: Option<String>,
    pub stateless_history: Option<bool>,
    pub parallel_tool_calls: Option<bool>,
    pub followup_user_message: Option<String>,
}

#[derive(Debug, Clone, Serialize, Deserialize)]
pub enum Entry {
    Thread { overrides: Option<Overrides> },
    SessionInput,
    CliRun { view: String },
}

#[derive(Debug, Clone, Serialize, Deserialize)]
pub struct Outcome {
    /// ok_text | tool_ok | tool_fail | http_error | tool_then_http_error | drop | invalid_events | invalid_followup
    pub kind: String,
    pub status: u16,
    /// 0 plain error body, 1 echoes the request body, 2 echoes body + request headers
    pub echo: u8,
    pub drop_after: u32,
    /// write | read | read_missing | write_bad_schema | unknown_tool
    pub tool: String,
    pub cuts: Vec<u16>,
}

#[derive(Debug, Clone, Serialize, Deserialize)]
pub struct RunPlan {
    pub entry: Entry,
    pub prompt: String,
    pub outcome: Outcome,
}

#[derive(Debug, Clone, Serialize, Deserialize)]
pub struct Case {
    pub global_via_home: bool,
    /// "ripd" | "rip_serve"
    pub launcher: String,
    pub files: Vec<FileSpec>,
    pub env: Vec<(String, String)>,
    pub canaries: Vec<Canary>,
    pub labels: Vec<String>,
    pub header_names: Vec<String>,
    pub key_env_names: Vec<String>,
    /// the configured endpoint (with @E5@) and model, for "same" overrides
    pub endpoint: String,
    pub model: String,
    pub env_endpoint: bool,
    pub dump_on: bool,
    pub runs: Vec<RunPlan>,
    pub cli_doctor: bool,
}

// ---------------------------------------------------------------------------------------------
// secrets
// ---------------------------------------------------------------------------------------------

const PLAIN: &[u8] = b"ABCDEFGHIJKLMNOPQRSTUVWXYZabcdefghijklmnopqrstuvwxyz0123456789-_";

fn specials(class: u8) -> (&'static str, &'static [&'static str]) {
    match class {
        0 => ("plain", &[]),
        1 => ("b64ish", &["+", "/", "="]),
        2 => ("json_special", &["\"", "\\"]),
        3 => ("inner_space", &[" "]),
        4 => ("unicode", &["é", "ü", "日", "🔑", "ß", "Ж"]),
        _ => ("mixed", &["+", "/", "=", "\"", "\\", " ", "é", "🔑", "%", "&", "'", "<", "#", "?", ":", "@"]),
    }
}

fn make_secret(class: u8, picks: &[u16]) -> (String, String) {
    let (name, sp) = specials(class);
    let mut s = String::new();
    for (i, v) in picks.iter().enumerate() {
        let edge = i == 0 || i + 1 == picks.len();
        if !sp.is_empty() && !edge && (v % 4 == 0 || i == picks.len() / 2) {
            s.push_str(sp[((*v / 4) as usize) % sp.len()]);
        } else {
            s.push(PLAIN[pick(*v, PLAIN.len())] as char);
        }
    }
    (s, name.to_string())
}

/// (secret, alphabet label) for other groups of this check
pub fn secret_pub() -> BoxedStrategy<(String, String)> {
    secret_s()
}

fn secret_s() -> BoxedStrategy<(String, String)> {
    (
        prop_oneof![30 => Just(0u8), 14 => Just(1u8), 14 => Just(2u8), 12 => Just(3u8), 15 => Just(4u8), 15 => Just(5u8)],
        proptest::collection::vec(any::<u16>(), 40),
    )
        .prop_map(|(c, p)| make_secret(c, &p))
        .boxed()
}

// ---------------------------------------------------------------------------------------------
// raw choices
// ---------------------------------------------------------------------------------------------

#[derive(Debug, Clone)]
struct RunRaw {
    entry: u8,
    ovr: (u8, u8, u8, u8, u8),
    kind: u8,
    status: u16,
    echo: u8,
    drop: u16,
    tool: u8,
    cuts: Vec<u16>,
    prompt: u16,
    view: u8,
}

fn run_raw_s() -> BoxedStrategy<RunRaw> {
    (
        (0u8..100, (any::<u8>(), any::<u8>(), any::<u8>(), any::<u8>(), any::<u8>())),
        (0u8..100, any::<u16>(), 0u8..100, any::<u16>(), any::<u8>()),
        (proptest::collection::vec(any::<u16>(), 0..4), any::<u16>(), any::<u8>()),
    )
        .prop_map(|((entry, ovr), (kind, status, echo, drop, tool), (cuts, prompt, view))| RunRaw {
            entry,
            ovr,
            kind,
            status,
            echo,
            drop,
            tool,
            cuts,
            prompt,
            view,
        })
        .boxed()
}

const PROMPTS: [&str; 6] = [
    "hello there",
    "please write the notes file",
    "summarise the repository",
    "why did the build fail?",
    "list open tasks \"quoted\" and \\ backslash",
    "héllo wörld — unicode prompt",
];

fn build_run(idx: usize, r: &RunRaw, env_endpoint: bool, session_delivers: bool, model: &str) -> RunPlan {
    let entry = if session_delivers && (15..45).contains(&r.entry) {
        // the engine-level provider (POST /sessions + input) exists only with RIP_OPENRESPONSES_ENDPOINT
        Entry::SessionInput
    } else if r.entry < 45 {
        Entry::Thread { overrides: None }
    } else if r.entry < 70 {
        let (ep, m, st, pa, fu) = r.ovr;
        let mut o = Overrides {
            endpoint: match ep % 8 {
                0 | 1 | 2 => Some("alt".to_string()),
                3 | 4 => Some("same".to_string()),
                // nothing listens there: only as a second run (the first one is the positive control)
                5 if idx > 0 => Some("closed".to_string()),
                5 => Some("alt".to_string()),
                _ => None,
            },
            model: match m % 3 {
                0 => Some("override-model-1".to_string()),
                1 => Some(model.to_string()),
                _ => None,
            },
            stateless_history: match st % 4 {
                0 => Some(true),
                1 => Some(false),
                _ => None,
            },
            parallel_tool_calls: match pa % 4 {
                0 => Some(true),
                _ => None,
            },
            followup_user_message: match fu % 4 {
                0 => Some("continue please".to_string()),
                _ => None,
            },
        };
        if o.endpoint.is_none() && o.model.is_none() {
            o.model = Some("override-model-2".to_string());
        }
        Entry::Thread { overrides: Some(o) }
    } else if r.entry < 82 {
        if env_endpoint {
            Entry::SessionInput
        } else {
            Entry::Thread { overrides: None }
        }
    } else {
        Entry::CliRun {
            view: ["raw", "output", "metrics"][(r.view % 3) as usize].to_string(),
        }
    };
    let statuses = [400u16, 401, 403, 429, 500, 503];
    let status = statuses[pick(r.status, statuses.len())];
    let (kind, echo, tool): (&str, u8, &str) = match r.kind {
        0..=9 => ("ok_text", 0, ""),
        10..=19 => ("tool_ok", 0, ["write", "read"][(r.tool % 2) as usize]),
        20..=31 => ("tool_fail", 0, ["read_missing", "write_bad_schema", "unknown_tool"][(r.tool % 3) as usize]),
        32..=47 => ("http_error", 1, ""),
        48..=54 => ("http_error", 2, ""),
        55..=59 => ("http_error", 0, ""),
        60..=67 => ("tool_then_http_error", 1, ["write", "read_missing"][(r.tool % 2) as usize]),
        68..=74 => ("drop", 0, ""),
        75..=79 => ("malformed_response", 0, ""),
        80..=89 => ("invalid_events", 0, ""),
        _ => ("invalid_followup", 0, ["write", "read_missing"][(r.tool % 2) as usize]),
    };
    let _ = r.echo;
    let drop_after = match r.drop % 3 {
        0 => 0,
        1 => 40 + (r.drop as u32 % 200),
        _ => 5,
    };
    let entry = match entry {
        // a second run may also target an endpoint where nothing listens (connect error)
        Entry::Thread { overrides: None } if idx > 0 && r.ovr.0 % 5 == 0 => Entry::Thread {
            overrides: Some(Overrides {
                endpoint: Some("closed".to_string()),
                ..Default::default()
            }),
        },
        e => e,
    };
    RunPlan {
        entry,
        prompt: PROMPTS[pick(r.prompt, PROMPTS.len())].to_string(),
        outcome: Outcome {
            kind: kind.to_string(),
            status,
            echo,
            drop_after,
            tool: tool.to_string(),
            cuts: r.cuts.clone(),
        },
    }
}

// ---------------------------------------------------------------------------------------------
// config assembly
// ---------------------------------------------------------------------------------------------

fn merge(target: &mut Value, overlay: &Value) {
    match (target, overlay) {
        (Value::Object(t), Value::Object(o)) => {
            for (k, v) in o {
                match t.get_mut(k) {
                    Some(e) => merge(e, v),
                    None => {
                        t.insert(k.clone(), v.clone());
                    }
                }
            }
        }
        (t, o) => *t = o.clone(),
    }
}

fn render_layer(layer: usize, v: &Value, flavour: u8, commented_out: Option<&str>) -> String {
    let pretty = serde_json::to_string_pretty(v).unwrap_or_else(|_| "{}".into());
    let jsonc = LAYERS[layer].ends_with("jsonc") || layer == 2;
    if !jsonc {
        return pretty + "\n";
    }
    let mut out = String::new();
    out.push_str("// rip configuration (JSONC)\n");
    let mut lines = pretty.lines();
    if let Some(first) = lines.next() {
        out.push_str(first);
        out.push('\n');
    }
    if flavour % 2 == 0 {
        out.push_str("  /* provider defaults; keys are managed\n     outside version control */\n");
    }
    if let Some(sec) = commented_out {
        out.push_str(&format!("  // \"api_key\": \"{}\", (rotated)\n", json_esc(sec)));
    }
    let rest: Vec<&str> = lines.collect();
    for (i, l) in rest.iter().enumerate() {
        if i + 1 == rest.len() && flavour % 3 == 0 && rest.len() > 1 {
            // trailing comma before the final brace
            if let Some(prev) = out.strip_suffix('\n') {
                out = format!("{prev},\n");
            }
        }
        out.push_str(l);
        out.push('\n');
    }
    out
}

#[derive(Debug, Clone)]
struct Raw {
    key_channel: u8,
    header_mode: u8,
    mode: u8,
    ep_kind: u8,
    provider: u16,
    model: u16,
    secrets: Vec<(String, String)>,
    env_name: u16,
    header_name: u16,
    header_scheme: u8,
    layers: Vec<u16>,
    same_layer: u8,
    flavour: u8,
    decoys: Vec<u8>,
    global_via_home: bool,
    dump: u8,
    env_flags: u8,
    launcher: u8,
    cli_doctor: u8,
    runs: Vec<RunRaw>,
}

fn raw_s() -> BoxedStrategy<Raw> {
    (
        (
            prop_oneof![13 => Just(0u8), 12 => Just(1u8), 13 => Just(2u8), 13 => Just(3u8), 13 => Just(4u8), 12 => Just(5u8), 12 => Just(6u8), 12 => Just(7u8)],
            0u8..100,
            0u8..100,
            0u8..100,
            any::<u16>(),
            any::<u16>(),
        ),
        (
            proptest::collection::vec(secret_s(), 7),
            any::<u16>(),
            any::<u16>(),
            any::<u8>(),
        ),
        (
            proptest::collection::vec(any::<u16>(), 6),
            0u8..100,
            any::<u8>(),
            proptest::collection::vec(0u8..100, 5),
            any::<bool>(),
        ),
        (0u8..100, any::<u8>(), 0u8..100, 0u8..100),
        proptest::collection::vec(run_raw_s(), 1..=2),
    )
        .prop_map(
            |(
                (key_channel, header_mode, mode, ep_kind, provider, model),
                (secrets, env_name, header_name, header_scheme),
                (layers, same_layer, flavour, decoys, global_via_home),
                (dump, env_flags, launcher, cli_doctor),
                runs,
            )| Raw {
                key_channel,
                header_mode,
                mode,
                ep_kind,
                provider,
                model,
                secrets,
                env_name,
                header_name,
                header_scheme,
                layers,
                same_layer,
                flavour,
                decoys,
                global_via_home,
                dump,
                env_flags,
                launcher,
                cli_doctor,
                runs,
            },
        )
        .boxed()
}

const PROVIDERS: [&str; 4] = ["openrouter", "openai", "local", "acme-ai"];
const MODELS: [&str; 3] = ["gpt-test-1", "openai/gpt-oss-20b", "acme/large-1"];
const ENV_NAMES: [&str; 4] = ["MY_KEY_VAR", "ACME_TOKEN", "OPENROUTER_API_KEY", "OPENAI_API_KEY"];
const HEADER_NAMES: [&str; 7] = [
    "x-api-key",
    "X-Api-Key",
    "api-key",
    "Authorization",
    "X-Goog-Api-Key",
    "Proxy-Authorization",
    "X-Auth-Token",
];

fn build(raw: Raw) -> Case {
    let mut labels: Vec<String> = Vec::new();
    let mut canaries: Vec<Canary> = Vec::new();
    let mut env: Vec<(String, String)> = Vec::new();
    let mut key_env_names: Vec<String> = Vec::new();
    let mut header_names: Vec<String> = Vec::new();
    let mut layer_objs: Vec<Option<Value>> = vec![None; LAYERS.len()];
    let mut invalid_layer: Option<(usize, String)> = None;
    let mut commented: Option<(usize, String)> = None;

    let p = PROVIDERS[pick(raw.provider, PROVIDERS.len())];
    let model = MODELS[pick(raw.model, MODELS.len())].to_string();
    let ch = raw.key_channel;

    // ---- endpoint kind
    let ep_kind = match ch {
        5 => 1,
        6 => 2,
        _ => {
            if raw.ep_kind < 80 {
                0
            } else if raw.ep_kind < 90 {
                1
            } else {
                2
            }
        }
    };
    let endpoint = match ep_kind {
        0 => "@E5@/v1/responses".to_string(),
        1 => "@E5@/api.openai.com/v1/responses".to_string(),
        _ => "@E5@/openrouter.ai/api/v1/responses".to_string(),
    };
    labels.push(format!("endpoint_kind:{}", ["plain", "openai", "openrouter"][ep_kind]));

    // ---- header secret?
    let mut header_on = raw.header_mode < 38 || ch == 7;
    // ---- resolution mode
    let env_only_allowed = matches!(ch, 4..=6);
    let mut mode = if raw.mode < 35 {
        0
    } else if raw.mode < 47 {
        1
    } else if raw.mode < 59 {
        2
    } else if raw.mode < 84 {
        3
    } else if env_only_allowed {
        4
    } else {
        0
    };
    if mode == 4 && ch == 7 {
        mode = 0;
    }
    if mode == 4 {
        header_on = false;
    }
    labels.push(format!(
        "mode:{}",
        ["route_model", "route_roles_string", "route_roles_object", "endpoint_match_env", "env_only"][mode]
    ));
    let env_endpoint = mode >= 3;

    // ---- layers of the fragments
    let k_layer = match ch {
        0 => pick(raw.layers[0], 2),
        1 => 2,
        2 => 3 + pick(raw.layers[0], 4),
        _ => pick(raw.layers[0], LAYERS.len()),
    };
    let same = raw.same_layer < 60;
    let lay = |i: usize| -> usize {
        if same {
            k_layer
        } else {
            pick(raw.layers[i], LAYERS.len())
        }
    };
    let (e_layer, r_layer, h_layer, o_layer) = (lay(1), lay(2), lay(3), lay(4));
    let mut put = |layer: usize, frag: Value| {
        let slot = layer_objs[layer].get_or_insert_with(|| json!({}));
        merge(slot, &frag);
    };

    if mode != 4 {
        put(e_layer, json!({"provider": {p: {"endpoint": endpoint}}}));
        if raw.flavour % 5 == 0 {
            put(e_layer, json!({"$schema": "rip://config/v1"}));
        }
    }
    match mode {
        0 => put(r_layer, json!({"model": format!("{p}/{model}")})),
        1 => put(r_layer, json!({"roles": {"primary": format!("{p}/{model}#fast")}})),
        2 => put(r_layer, json!({"roles": {"primary": {"provider": p, "model": model}}})),
        _ => {
            env.push(("RIP_OPENRESPONSES_ENDPOINT".into(), endpoint.clone()));
            env.push(("RIP_OPENRESPONSES_MODEL".into(), model.clone()));
        }
    }

    // ---- the API key
    let (key_secret, key_alpha) = raw.secrets[0].clone();
    let mut has_k_fragment = false;
    match ch {
        0..=2 => {
            put(k_layer, json!({"provider": {p: {"api_key": key_secret}}}));
            has_k_fragment = true;
            canaries.push(Canary {
                channel: "inline_api_key".into(),
                value: key_secret.clone(),
                alphabet: key_alpha.clone(),
                primary: true,
                header: None,
                planted_in: LAYERS[k_layer].into(),
            });
            labels.push(format!("channel:inline_api_key:{}", ["global", "custom", "project"][ch as usize]));
        }
        3 => {
            let name = ENV_NAMES[pick(raw.env_name, ENV_NAMES.len())];
            put(k_layer, json!({"provider": {p: {"api_key": {"env": name}}}}));
            has_k_fragment = true;
            env.push((name.into(), key_secret.clone()));
            key_env_names.push(name.into());
            canaries.push(Canary {
                channel: "env_ref_api_key".into(),
                value: key_secret.clone(),
                alphabet: key_alpha.clone(),
                primary: true,
                header: None,
                planted_in: format!("{}→env:{name}", LAYERS[k_layer]),
            });
            labels.push("channel:env_ref_api_key".into());
        }
        4..=6 => {
            let (name, chan) = match ch {
                4 => ("RIP_OPENRESPONSES_API_KEY", "env_rip_api_key"),
                5 => ("OPENAI_API_KEY", "env_openai_api_key"),
                _ => ("OPENROUTER_API_KEY", "env_openrouter_api_key"),
            };
            env.push((name.into(), key_secret.clone()));
            key_env_names.push(name.into());
            if mode != 4 && raw.flavour % 3 == 1 {
                // a reference that does not resolve: the documented env fallbacks apply
                put(k_layer, json!({"provider": {p: {"api_key": {"env": "C19_UNSET_VARIABLE"}}}}));
                labels.push("unresolved_env_ref_then_fallback".into());
            }
            canaries.push(Canary {
                channel: chan.into(),
                value: key_secret.clone(),
                alphabet: key_alpha.clone(),
                primary: true,
                header: None,
                planted_in: format!("env:{name}"),
            });
            labels.push(format!("channel:{chan}"));
        }
        _ => {
            labels.push("channel:header_only".into());
        }
    }
    if ch != 7 {
        labels.push(format!("layer:{}", if ch >= 4 { "env" } else { LAYERS[k_layer] }));
        labels.push(format!("alphabet:{key_alpha}"));
    }

    // ---- secret header value
    if header_on {
        let name = HEADER_NAMES[pick(raw.header_name, HEADER_NAMES.len())];
        let (hs, ha) = raw.secrets[1].clone();
        // two cases in twelve: a value as it arrives from a paste or `$(cat token)` - trailing line
        // break or a control byte - which no HTTP client can put on the wire: the run fails before
        // the request is sent, and whatever reports that failure must not quote the value
        let value = match raw.header_scheme % 12 {
            0..=2 => format!("Bearer {hs}"),
            3 | 4 => format!("Token {hs}"),
            5 => format!("{hs}\n"),
            6 => format!("Bearer {hs}\r\n"),
            7 => format!("{hs}\u{1}"),
            _ => hs.clone(),
        };
        if (5..=7).contains(&(raw.header_scheme % 12)) {
            labels.push("header:value_cannot_be_sent".into());
        }
        put(h_layer, json!({"provider": {p: {"headers": {name: value}}}}));
        header_names.push(name.to_string());
        canaries.push(Canary {
            channel: "header_value".into(),
            value: hs,
            alphabet: ha.clone(),
            primary: true,
            header: Some(name.to_string()),
            planted_in: LAYERS[h_layer].into(),
        });
        labels.push("channel:header_value".into());
        labels.push(format!("header:{}", name.to_ascii_lowercase()));
        if ch == 7 {
            labels.push(format!("layer:{}", LAYERS[h_layer]));
            labels.push(format!("alphabet:{ha}"));
        }
    }
    if mode != 4 && raw.flavour % 2 == 1 {
        put(h_layer, json!({"provider": {p: {"headers": {"HTTP-Referer": "https://example.com", "X-Title": "rip"}}}}));
        header_names.push("HTTP-Referer".into());
        header_names.push("X-Title".into());
    }

    // ---- behaviour flags
    if raw.env_flags % 5 == 0 {
        env.push(("RIP_OPENRESPONSES_STATELESS_HISTORY".into(), "1".into()));
        labels.push("stateless_history".into());
    }
    if raw.env_flags % 7 == 0 {
        env.push(("RIP_OPENRESPONSES_PARALLEL_TOOL_CALLS".into(), "true".into()));
    }
    if raw.env_flags % 6 == 0 {
        env.push(("RIP_OPENRESPONSES_FOLLOWUP_USER_MESSAGE".into(), "continue".into()));
    }
    if raw.env_flags % 5 == 1 && mode != 4 {
        put(o_layer, json!({"openresponses": {"stateless_history": true, "parallel_tool_calls": false}}));
        labels.push("stateless_history".into());
    }
    if raw.env_flags % 4 == 0 && mode < 3 {
        env.push(("RIP_OPENRESPONSES_MODEL".into(), "env-model-override".into()));
    }
    if raw.env_flags % 9 == 0 {
        env.push(("RIP_OPENRESPONSES_TOOL_CHOICE".into(), "auto".into()));
    }

    // ---- decoys: secrets that are configured but must never be used, and never leak either
    let d = &raw.decoys;
    if d[0] < 22 && has_k_fragment && k_layer > 0 {
        let lower = pick(raw.layers[5], k_layer);
        let (s, a) = raw.secrets[2].clone();
        put(lower, json!({"provider": {p: {"api_key": s}}}));
        canaries.push(Canary {
            channel: "shadowed_inline_api_key".into(),
            value: s,
            alphabet: a,
            primary: false,
            header: None,
            planted_in: LAYERS[lower].into(),
        });
        labels.push("decoy:shadowed_inline_api_key".into());
    }
    if d[1] < 22 && mode != 4 {
        let l = pick(raw.layers[4], LAYERS.len());
        let (s, a) = raw.secrets[3].clone();
        put(
            l,
            json!({"provider": {"unrouted": {"endpoint": "https://unrouted.invalid/v1/responses", "api_key": s,
                "headers": {"x-unrouted": "1"}}}}),
        );
        canaries.push(Canary {
            channel: "unrouted_provider_api_key".into(),
            value: s,
            alphabet: a,
            primary: false,
            header: None,
            planted_in: LAYERS[l].into(),
        });
        labels.push("decoy:unrouted_provider_api_key".into());
    }
    if d[4] < 22 && has_k_fragment {
        let (s, a) = raw.secrets[6].clone();
        env.push(("RIP_OPENRESPONSES_API_KEY".into(), s.clone()));
        key_env_names.push("RIP_OPENRESPONSES_API_KEY".into());
        canaries.push(Canary {
            channel: "shadowed_env_api_key".into(),
            value: s,
            alphabet: a,
            primary: false,
            header: None,
            planted_in: "env:RIP_OPENRESPONSES_API_KEY".into(),
        });
        labels.push("decoy:shadowed_env_api_key".into());
    }
    if d[3] < 22 {
        // a rotated key left in a comment of a JSONC layer that is in use
        if let Some(l) = (0..LAYERS.len()).find(|l| layer_objs[*l].is_some() && (LAYERS[*l].ends_with("jsonc") || *l == 2)) {
            let (s, a) = raw.secrets[5].clone();
            commented = Some((l, s.clone()));
            canaries.push(Canary {
                channel: "commented_out_api_key".into(),
                value: s,
                alphabet: a,
                primary: false,
                header: None,
                planted_in: LAYERS[l].into(),
            });
            labels.push("decoy:commented_out_api_key".into());
        }
    }
    if d[2] < 22 {
        // a layer that does not parse (a comma is missing right after the key)
        let start = pick(raw.layers[3], LAYERS.len());
        if let Some(l) = (0..LAYERS.len()).map(|i| (start + i) % LAYERS.len()).find(|l| layer_objs[*l].is_none()) {
            let (s, a) = raw.secrets[4].clone();
            let text = format!(
                "{{\n  \"provider\": {{ \"{p}\": {{ \"api_key\": \"{}\" \"endpoint\": \"https://broken.invalid/v1/responses\" }} }}\n}}\n",
                json_esc(&s)
            );
            invalid_layer = Some((l, text));
            canaries.push(Canary {
                channel: "invalid_file_api_key".into(),
                value: s,
                alphabet: a,
                primary: false,
                header: None,
                planted_in: LAYERS[l].into(),
            });
            labels.push("decoy:invalid_file_api_key".into());
        }
    }

    // ---- request dumping
    let mut dump_on = false;
    match raw.dump {
        0..=14 => {}
        15..=24 => env.push(("RIP_OPENRESPONSES_DUMP_REQUEST".into(), "0".into())),
        25..=34 => env.push(("RIP_OPENRESPONSES_DUMP_REQUEST".into(), "false".into())),
        35..=44 => env.push(("RIP_OPENRESPONSES_DUMP_REQUEST".into(), "".into())),
        v => {
            dump_on = true;
            let val = ["1", "true", "YES", "on", " On "][(v % 5) as usize];
            env.push(("RIP_OPENRESPONSES_DUMP_REQUEST".into(), val.into()));
            if v % 4 == 0 {
                env.push(("RIP_OPENRESPONSES_DUMP_REQUEST_MAX_BYTES".into(), "96".into()));
                labels.push("dump:truncated".into());
            }
        }
    }
    labels.push(format!("dump:{}", if dump_on { "on" } else { "off" }));

    // ---- files
    let mut files = Vec::new();
    for (l, obj) in layer_objs.iter().enumerate() {
        if let Some(v) = obj {
            let c = commented.as_ref().filter(|(cl, _)| *cl == l).map(|(_, s)| s.as_str());
            files.push(FileSpec {
                layer: LAYERS[l].to_string(),
                text: render_layer(l, v, raw.flavour, c),
            });
        }
    }
    if let Some((l, text)) = invalid_layer {
        files.push(FileSpec {
            layer: LAYERS[l].to_string(),
            text,
        });
    }
    let n_layers = files.len();
    labels.push(format!("config_files:{}", n_layers.min(3)));

    let launcher = if raw.launcher < 85 { "ripd" } else { "rip_serve" };
    labels.push(format!("launcher:{launcher}"));
    let runs: Vec<RunPlan> = raw.runs.iter().enumerate().map(|(i, r)| build_run(i, r, env_endpoint, env_endpoint && ch == 4, &model)).collect();
    Case {
        global_via_home: raw.global_via_home,
        launcher: launcher.to_string(),
        files,
        env,
        canaries,
        labels,
        header_names,
        key_env_names,
        endpoint,
        model,
        env_endpoint,
        dump_on,
        runs,
        cli_doctor: raw.cli_doctor < 30,
    }
}

pub fn case_strategy() -> BoxedStrategy<Case> {
    raw_s().prop_map(build).boxed()
}
