//! Every encoding of a canary secret that the oracle greps for, and a multi-needle byte search.

use std::collections::HashMap;

pub fn json_esc(s: &str) -> String {
    let q = serde_json::to_string(s).unwrap_or_default();
    if q.len() >= 2 {
        q[1..q.len() - 1].to_string()
    } else {
        String::new()
    }
}

/// JSON escaping with every non-ASCII char as \uXXXX (UTF-16 units), as other encoders do.
pub fn json_esc_ascii(s: &str, upper: bool) -> String {
    let mut out = String::new();
    for ch in s.chars() {
        if ch.is_ascii() {
            out.push_str(&json_esc(&ch.to_string()));
        } else {
            let mut buf = [0u16; 2];
            for u in ch.encode_utf16(&mut buf) {
                if upper {
                    out.push_str(&format!("\\u{:04X}", u));
                } else {
                    out.push_str(&format!("\\u{:04x}", u));
                }
            }
        }
    }
    out
}

pub fn debug_esc(s: &str) -> String {
    let d = format!("{:?}", s);
    d[1..d.len() - 1].to_string()
}

pub fn pct(s: &str, form: bool, lower: bool) -> String {
    let mut out = String::new();
    for b in s.bytes() {
        let unreserved = b.is_ascii_alphanumeric() || matches!(b, b'-' | b'_' | b'.' | b'~');
        if unreserved {
            out.push(b as char);
        } else if form && b == b' ' {
            out.push('+');
        } else if lower {
            out.push_str(&format!("%{:02x}", b));
        } else {
            out.push_str(&format!("%{:02X}", b));
        }
    }
    out
}

pub fn b64(bytes: &[u8], urlsafe: bool, pad: bool) -> String {
    const STD: &[u8; 64] = b"ABCDEFGHIJKLMNOPQRSTUVWXYZabcdefghijklmnopqrstuvwxyz0123456789+/";
    const URL: &[u8; 64] = b"ABCDEFGHIJKLMNOPQRSTUVWXYZabcdefghijklmnopqrstuvwxyz0123456789-_";
    let t = if urlsafe { URL } else { STD };
    let mut out = String::new();
    for chunk in bytes.chunks(3) {
        let b0 = chunk[0] as u32;
        let b1 = *chunk.get(1).unwrap_or(&0) as u32;
        let b2 = *chunk.get(2).unwrap_or(&0) as u32;
        let n = (b0 << 16) | (b1 << 8) | b2;
        out.push(t[((n >> 18) & 63) as usize] as char);
        out.push(t[((n >> 12) & 63) as usize] as char);
        if chunk.len() > 1 {
            out.push(t[((n >> 6) & 63) as usize] as char);
        } else if pad {
            out.push('=');
        }
        if chunk.len() > 2 {
            out.push(t[(n & 63) as usize] as char);
        } else if pad {
            out.push('=');
        }
    }
    out
}

pub fn hex(bytes: &[u8], upper: bool) -> String {
    let mut s = String::new();
    for b in bytes {
        if upper {
            s.push_str(&format!("{:02X}", b));
        } else {
            s.push_str(&format!("{:02x}", b));
        }
    }
    s
}

#[derive(Debug, Clone)]
pub struct Needle {
    pub bytes: Vec<u8>,
    pub canary: usize,
    pub enc: String,
    /// a fragment of the raw secret (16 chars), not a complete encoding
    pub partial: bool,
}

const MIN_NEEDLE: usize = 12;
const WINDOW_CHARS: usize = 16;

/// All needles of one canary.
pub fn needles_for(canary: usize, secret: &str) -> Vec<Needle> {
    let mut forms: Vec<(String, Vec<u8>, bool)> = Vec::new();
    let mut push = |enc: &str, s: String, partial: bool| forms.push((enc.to_string(), s.into_bytes(), partial));
    push("raw", secret.to_string(), false);
    let j1 = json_esc(secret);
    let d1 = debug_esc(secret);
    let a1 = json_esc_ascii(secret, false);
    let a1u = json_esc_ascii(secret, true);
    push("json", j1.clone(), false);
    push("rust_debug", d1.clone(), false);
    push("json_ascii", a1.clone(), false);
    push("json_ascii_upper", a1u, false);
    let j2 = json_esc(&j1);
    push("json_x2", j2.clone(), false);
    push("rust_debug_in_json", json_esc(&d1), false);
    push("json_ascii_in_json", json_esc(&a1), false);
    push("json_x3", json_esc(&j2), false);
    push("rust_debug_in_json_x2", json_esc(&json_esc(&d1)), false);
    push("percent", pct(secret, false, false), false);
    push("percent_lower", pct(secret, false, true), false);
    push("percent_form", pct(secret, true, false), false);
    let raw = secret.as_bytes();
    let bearer = format!("Bearer {secret}");
    for (urlsafe, un) in [(false, "b64"), (true, "b64url")] {
        for (pad, pn) in [(true, ""), (false, "_nopad")] {
            push(&format!("{un}{pn}"), b64(raw, urlsafe, pad), false);
            push(&format!("{un}{pn}_of_bearer"), b64(bearer.as_bytes(), urlsafe, pad), false);
        }
        // the secret at any byte offset inside a larger base64 blob: whole 3-byte groups only
        for j in 0..3usize {
            if raw.len() > j + 3 {
                let m = (raw.len() - j) / 3;
                push(&format!("{un}_embedded_offset{j}"), b64(&raw[j..j + 3 * m], urlsafe, false), false);
            }
        }
    }
    push("hex", hex(raw, false), false);
    push("hex_upper", hex(raw, true), false);
    // fragments of the raw secret
    let chars: Vec<char> = secret.chars().collect();
    if chars.len() > WINDOW_CHARS {
        for start in 0..=(chars.len() - WINDOW_CHARS) {
            let w: String = chars[start..start + WINDOW_CHARS].iter().collect();
            push(&format!("raw_fragment@{start}"), w, true);
        }
    }
    let mut seen: Vec<Vec<u8>> = Vec::new();
    let mut out = Vec::new();
    for (enc, bytes, partial) in forms {
        if bytes.len() < MIN_NEEDLE || seen.contains(&bytes) {
            continue;
        }
        seen.push(bytes.clone());
        out.push(Needle { bytes, canary, enc, partial });
    }
    out
}

pub struct Matcher {
    pub needles: Vec<Needle>,
    index: HashMap<[u8; 2], Vec<usize>>,
    first: [bool; 256],
}

#[derive(Debug, Clone)]
pub struct Hit {
    pub needle: usize,
    pub offset: usize,
}

impl Matcher {
    pub fn new(needles: Vec<Needle>) -> Matcher {
        let mut index: HashMap<[u8; 2], Vec<usize>> = HashMap::new();
        let mut first = [false; 256];
        for (i, n) in needles.iter().enumerate() {
            index.entry([n.bytes[0], n.bytes[1]]).or_default().push(i);
            first[n.bytes[0] as usize] = true;
        }
        Matcher { needles, index, first }
    }

    /// First hit of every needle that occurs in `hay`.
    pub fn scan(&self, hay: &[u8]) -> Vec<Hit> {
        let mut found: Vec<Hit> = Vec::new();
        if hay.len() < 2 {
            return found;
        }
        for i in 0..hay.len() - 1 {
            if !self.first[hay[i] as usize] {
                continue;
            }
            if let Some(c) = self.index.get(&[hay[i], hay[i + 1]]) {
                for &ni in c {
                    if found.iter().any(|h| h.needle == ni) {
                        continue;
                    }
                    if hay[i..].starts_with(&self.needles[ni].bytes) {
                        found.push(Hit { needle: ni, offset: i });
                    }
                }
            }
        }
        found
    }
}

/// ±60 bytes of context with the matched bytes replaced by a marker (the secret never enters
/// evidence or replay files through an excerpt of its own hit).
pub fn excerpt(hay: &[u8], offset: usize, len: usize, marker: &str) -> String {
    let a = offset.saturating_sub(60);
    let b = (offset + len + 60).min(hay.len());
    format!(
        "{}<<{}>>{}",
        String::from_utf8_lossy(&hay[a..offset]),
        marker,
        String::from_utf8_lossy(&hay[(offset + len).min(hay.len())..b])
    )
}
