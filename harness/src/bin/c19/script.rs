//! Scripted-provider replies for each run outcome. Every run owns SLOT consecutive script
//! positions (its replies, then fallbacks); the harness pads unused positions itself so that the
//! next run always starts at its own slot.

use rv::provider::{partition, sse_done, sse_json, Reply};
use serde_json::{json, Value};

use super::gen::Outcome;

pub const SLOT: usize = 3;

fn sse_body(mut events: Vec<Value>, done: bool) -> String {
    let mut body = String::new();
    for (n, ev) in events.iter_mut().enumerate() {
        if let Some(o) = ev.as_object_mut() {
            o.insert("sequence_number".into(), json!(n));
        }
        body.push_str(&sse_json(ev));
    }
    if done {
        body.push_str(&sse_done());
    }
    body
}

fn text_events(rid: &str, text: &str) -> Vec<Value> {
    let mid = text.len() / 2;
    let mut cut = mid;
    while !text.is_char_boundary(cut) {
        cut -= 1;
    }
    vec![
        json!({"type": "response.created", "response": {"id": rid}}),
        json!({"type": "response.output_text.delta", "item_id": "msg_1", "output_index": 0, "content_index": 0, "delta": &text[..cut]}),
        json!({"type": "response.output_text.delta", "item_id": "msg_1", "output_index": 0, "content_index": 0, "delta": &text[cut..]}),
        json!({"type": "response.completed", "response": {"id": rid}}),
    ]
}

pub fn text_reply(rid: &str, text: &str, cuts: &[u16]) -> Reply {
    let body = sse_body(text_events(rid, text), true);
    Reply::sse(partition(body.as_bytes(), cuts))
}

fn tool_call(run: usize, tool: &str, long_id: bool) -> (String, String, String) {
    let call_id = if long_id {
        format!("call_{run}_{}", "x".repeat(70))
    } else {
        format!("call_{run}")
    };
    let (name, args) = match tool {
        "write" => ("write", json!({"path": format!("notes/run{run}.txt"), "content": "noted by the model\n"})),
        "read" => ("read", json!({"path": "seed.txt"})),
        "read_missing" => ("read", json!({"path": "missing/none.txt"})),
        "write_bad_schema" => ("write", json!({"path": "notes/bad.txt"})),
        _ => ("frobnicate", json!({"x": 1})),
    };
    (call_id, name.to_string(), args.to_string())
}

pub fn tool_reply(rid: &str, run: usize, tool: &str, long_id: bool, cuts: &[u16]) -> Reply {
    let (call_id, name, args) = tool_call(run, tool, long_id);
    let item = |arguments: &str, status: &str| json!({"type": "function_call", "id": format!("fc_{run}"), "call_id": call_id, "name": name, "arguments": arguments, "status": status});
    let events = vec![
        json!({"type": "response.created", "response": {"id": rid}}),
        json!({"type": "response.output_item.added", "output_index": 0, "item": item("", "in_progress")}),
        json!({"type": "response.output_item.done", "output_index": 0, "item": item(&args, "completed")}),
        json!({"type": "response.completed", "response": {"id": rid}}),
    ];
    let body = sse_body(events, true);
    Reply::sse(partition(body.as_bytes(), cuts))
}

pub fn fallback() -> Reply {
    text_reply("resp_fallback", "done.", &[])
}

fn http_error(status: u16, echo: u8) -> Reply {
    Reply {
        status,
        chunks: vec![b"{\"error\":{\"message\":\"scripted failure\",\"code\":\"c19\"},\"request_echo\":".to_vec()],
        headers: vec![("x-request-id".to_string(), "req_c19".to_string())],
        drop_after: None,
        echo_request: echo,
        content_type: Some("application/json".to_string()),
    }
}

/// Replies of one run (at most SLOT - 1).
pub fn render(run: usize, o: &Outcome) -> Vec<Reply> {
    let rid = format!("resp_{run}_a");
    let rid2 = format!("resp_{run}_b");
    match o.kind.as_str() {
        "ok_text" => vec![text_reply(&rid, "All good, nothing to do.", &o.cuts)],
        "tool_ok" | "tool_fail" => vec![
            tool_reply(&rid, run, &o.tool, false, &o.cuts),
            text_reply(&rid2, "Finished after the tool call.", &o.cuts),
        ],
        "http_error" => vec![http_error(o.status, o.echo)],
        "tool_then_http_error" => vec![tool_reply(&rid, run, &o.tool, false, &o.cuts), http_error(o.status, o.echo)],
        "drop" => {
            let mut r = text_reply(&rid, "This answer is cut off before it is complete, mid-stream.", &o.cuts);
            r.drop_after = Some(o.drop_after as usize);
            vec![r]
        }
        "malformed_response" => {
            // a status line the client cannot parse: the request (with the secret) was received,
            // the client reports a transport error from `send()`
            let mut r = text_reply(&rid, "never parsed", &[]);
            r.status = 0;
            vec![r]
        }
        "invalid_events" => {
            let mut body = String::new();
            body.push_str(&sse_json(&json!({"type": "response.created", "sequence_number": 0, "response": {"id": rid}})));
            body.push_str("data: {not json at all\n\n");
            body.push_str("event: response.output_text.delta\ndata: {\"type\":\"response.output_text.delta\",\"sequence_number\":\"NaN\"}\n\n");
            body.push_str("data: {\"type\":\"response.bogus_event\",\"sequence_number\":2,\"payload\":[1,2,3]}\n\n");
            body.push_str("data: \"just a string\"\n\n");
            body.push_str(&sse_done());
            vec![Reply::sse(partition(body.as_bytes(), &o.cuts))]
        }
        "invalid_followup" => vec![tool_reply(&rid, run, &o.tool, true, &o.cuts)],
        _ => vec![fallback()],
    }
}

/// Whole script: SLOT positions per run.
pub fn script(outcomes: &[&Outcome]) -> Vec<Reply> {
    let mut out = Vec::new();
    for (i, o) in outcomes.iter().enumerate() {
        let mut r = render(i, o);
        r.truncate(SLOT);
        while r.len() < SLOT {
            r.push(fallback());
        }
        out.extend(r);
    }
    out
}
