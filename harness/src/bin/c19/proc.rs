//! Child process guard (real `ripd` / `rip` binaries), loopback HTTP helpers, file walking.

use std::os::unix::process::CommandExt;
use std::path::{Path, PathBuf};
use std::process::{Child, Command, Stdio};
use std::time::{Duration, Instant};

/// A child that is ALWAYS killed and reaped: on drop (early return, panic unwinding) and — through
/// PR_SET_PDEATHSIG — when the harness thread/process dies without unwinding (watchdog exit).
pub struct Proc {
    child: Option<Child>,
}

impl Proc {
    pub fn spawn(
        bin: &Path,
        args: &[String],
        env: &[(String, String)],
        cwd: &Path,
        stdout: &Path,
        stderr: &Path,
    ) -> std::io::Result<Proc> {
        let out = std::fs::File::create(stdout)?;
        let err = std::fs::File::create(stderr)?;
        let mut cmd = Command::new(bin);
        cmd.args(args)
            .env_clear()
            .envs(env.iter().map(|(k, v)| (k.as_str(), v.as_str())))
            .current_dir(cwd)
            .stdin(Stdio::null())
            .stdout(Stdio::from(out))
            .stderr(Stdio::from(err));
        unsafe {
            cmd.pre_exec(|| {
                libc::prctl(libc::PR_SET_PDEATHSIG, libc::SIGKILL);
                Ok(())
            });
        }
        let child = cmd.spawn()?;
        Ok(Proc { child: Some(child) })
    }

    pub fn exited(&mut self) -> bool {
        match self.child.as_mut() {
            Some(c) => matches!(c.try_wait(), Ok(Some(_))),
            None => true,
        }
    }

    /// SIGTERM, wait up to `grace`, then SIGKILL. Returns (exited_by_itself, millis waited).
    pub async fn terminate(&mut self, grace: Duration) -> (bool, u64) {
        let Some(mut c) = self.child.take() else {
            return (true, 0);
        };
        unsafe {
            libc::kill(c.id() as i32, libc::SIGTERM);
        }
        let t0 = Instant::now();
        loop {
            if let Ok(Some(_)) = c.try_wait() {
                return (true, t0.elapsed().as_millis() as u64);
            }
            if t0.elapsed() > grace {
                let _ = c.kill();
                let _ = c.wait();
                return (false, t0.elapsed().as_millis() as u64);
            }
            tokio::time::sleep(Duration::from_millis(4)).await;
        }
    }

    /// Wait for a short-lived child (CLI) to exit by itself; kill it after `max`.
    pub async fn wait_exit(&mut self, max: Duration) -> bool {
        let Some(mut c) = self.child.take() else {
            return true;
        };
        let t0 = Instant::now();
        loop {
            if let Ok(Some(_)) = c.try_wait() {
                return true;
            }
            if t0.elapsed() > max {
                let _ = c.kill();
                let _ = c.wait();
                return false;
            }
            tokio::time::sleep(Duration::from_millis(4)).await;
        }
    }
}

impl Drop for Proc {
    fn drop(&mut self) {
        if let Some(mut c) = self.child.take() {
            let _ = c.kill();
            let _ = c.wait();
        }
    }
}

pub fn walk(dir: &Path, out: &mut Vec<PathBuf>) {
    let Ok(rd) = std::fs::read_dir(dir) else {
        return;
    };
    let mut entries: Vec<PathBuf> = rd.filter_map(|e| e.ok().map(|e| e.path())).collect();
    entries.sort();
    for p in entries {
        match std::fs::symlink_metadata(&p) {
            Ok(m) if m.is_dir() => walk(&p, out),
            Ok(m) if m.is_file() => out.push(p),
            _ => {}
        }
    }
}

/// Every response the harness received: (surface label, bytes).
#[derive(Default)]
pub struct Bodies {
    pub items: Vec<(String, Vec<u8>)>,
}

impl Bodies {
    pub fn push(&mut self, surface: &str, bytes: Vec<u8>) {
        self.items.push((surface.to_string(), bytes));
    }
}

pub struct Http {
    pub client: reqwest::Client,
    pub base: String,
}

impl Http {
    pub async fn get(&self, path: &str, surface: &str, bodies: &mut Bodies) -> Option<(u16, Vec<u8>)> {
        let r = tokio::time::timeout(Duration::from_secs(10), self.client.get(format!("{}{}", self.base, path)).send())
            .await
            .ok()?
            .ok()?;
        let status = r.status().as_u16();
        let b = tokio::time::timeout(Duration::from_secs(10), r.bytes()).await.ok()?.ok()?.to_vec();
        bodies.push(surface, b.clone());
        Some((status, b))
    }

    pub async fn post(
        &self,
        path: &str,
        body: Option<serde_json::Value>,
        surface: &str,
        bodies: &mut Bodies,
    ) -> Option<(u16, Vec<u8>)> {
        let mut rb = self.client.post(format!("{}{}", self.base, path));
        if let Some(b) = body {
            rb = rb.json(&b);
        }
        let r = tokio::time::timeout(Duration::from_secs(10), rb.send()).await.ok()?.ok()?;
        let status = r.status().as_u16();
        let b = tokio::time::timeout(Duration::from_secs(10), r.bytes()).await.ok()?.ok()?.to_vec();
        bodies.push(surface, b.clone());
        Some((status, b))
    }

    /// Read an SSE stream until `stop(bytes so far)`; gives up after `max` overall or `idle`
    /// without a chunk. Returns (status, stopped_by_predicate). The bytes go into `bodies`.
    pub async fn sse(
        &self,
        path: &str,
        surface: &str,
        bodies: &mut Bodies,
        max: Duration,
        idle: Duration,
        stop: impl Fn(&[u8]) -> bool,
    ) -> (Option<u16>, bool) {
        let t0 = Instant::now();
        let send = self.client.get(format!("{}{}", self.base, path)).send();
        let Ok(Ok(mut r)) = tokio::time::timeout(Duration::from_secs(10), send).await else {
            return (None, false);
        };
        let status = r.status().as_u16();
        let mut buf: Vec<u8> = Vec::new();
        let mut stopped = false;
        loop {
            if stop(&buf) {
                stopped = true;
                break;
            }
            if t0.elapsed() > max {
                break;
            }
            match tokio::time::timeout(idle, r.chunk()).await {
                Ok(Ok(Some(c))) => buf.extend_from_slice(&c),
                _ => break,
            }
        }
        drop(r);
        bodies.push(surface, buf);
        (Some(status), stopped)
    }
}

pub fn contains(hay: &[u8], needle: &[u8]) -> bool {
    !needle.is_empty() && hay.len() >= needle.len() && hay.windows(needle.len()).any(|w| w == needle)
}

pub fn count(hay: &[u8], needle: &[u8]) -> usize {
    if needle.is_empty() || hay.len() < needle.len() {
        return 0;
    }
    hay.windows(needle.len()).filter(|w| *w == needle).count()
}
