//! C10 — branch and handoff record correct lineage and never touch the parent.
//!
//! A source thread is built by a generated history (turns = message / run_spawned / run-linked
//! frames / side effects / run_ended, interleaved with generated noise: more messages, runs on
//! older messages, repeated run_ended, cursors, checkpoints, auto/schedule, restarts). Then 1–4
//! generated branch / handoff requests are applied (directly on the `ContinuityStore`, or through
//! the real router in the `http` group).
//!
//! Oracle (own model over the truth frames of the source thread *as they were before the call*,
//! read from the raw log by an independent reader; ADR-0009, docs/03_contracts/event_frames.md,
//! docs/03_contracts/handoff_context_bundle.md):
//!  (a) the log before the call is a byte prefix of the log after it and the raw lines of the
//!      source stream are identical — on success and on failure;
//!  (b) success ⇒ exactly two lines were appended, both on one new stream id: `continuity_created`
//!      (seq 0, same workspace, given title) and the lineage frame (seq 1) naming the source and
//!      the cut, with the given provenance; the thread is listed; the returned tuple equals the
//!      recorded cut;
//!  (c) recorded cut == model (from_seq ⇒ that seq, ≤ head, and the last message at or before it;
//!      message ⇒ that id and the max seq over the message and the run_spawned/run_ended frames
//!      naming it; none ⇒ head and last message; both / unknown / non-message / out of range ⇒ the
//!      call fails);
//!  (d) handoff success ⇒ the lineage frame carries inline markdown or an artifact id whose blob
//!      exists; markdown without id ⇒ a bundle blob exists, is JSON, and repeats the markdown and
//!      the source cut; neither ⇒ the call fails;
//!  (e) failure ⇒ nothing appended, no new thread listed.
//!
//! Not injected: storage failures (artifact store / index not writable). They are outside the
//! property's quantifier (histories × selector choices).

use std::collections::BTreeSet;

use axum::http::Method;
use proptest::prelude::*;
use rip_kernel::{Event, EventKind};
use rv::engine::runner::catch;
use rv::engine::{pick, CaseReport, Check, GroupOpts};
use rv::store::{op_strategy, Interp, Op, OpWeights, UNKNOWN_THREAD};
use serde::{Deserialize, Serialize};
use serde_json::{json, Value};

/// K1 (DESIGN §6 F13): `ContinuityStore::handoff` accepts a `summary_artifact_id` that names no
/// artifact; without inline markdown the child then carries no resolvable summary. The comparison
/// tolerates exactly that outcome (everything else about the request is still checked). Counted.
const EXCLUDE_KNOWN_UNRESOLVABLE_SUMMARY: bool = false;

const UNKNOWN_ARTIFACTS: [&str; 2] = [
    "000000000000000000000000000000000000000000000000000000000000feed",
    "no-such-artifact",
];
const UNKNOWN_MESSAGE: &str = "dead0000-0000-4000-8000-000000000001";
const ACTORS: [&str; 3] = ["user", "alice", "agent-7"];
const ORIGINS: [&str; 3] = ["cli", "sdk-ts", "tui"];

// ------------------------------------------------------------------------------------------
// case
// ------------------------------------------------------------------------------------------

#[derive(Debug, Clone, Serialize, Deserialize, PartialEq)]
enum Sel {
    None,
    /// uniform over 0..=head
    SeqIn { choice: u16 },
    /// seq of a message + delta (-1, 0, +1), clamped into 0..=head — the "at or before" boundary
    SeqAtMsg { choice: u16, delta: i8 },
    SeqHead,
    SeqZero,
    /// head + over (saturating): head+1, head+2, far, u64::MAX
    SeqPast { over: u64 },
    Msg { choice: u16 },
    /// a message that a run_spawned / run_ended frame names (falls back to any message)
    MsgWithRun { choice: u16 },
    MsgUnknown,
    /// id of a non-message frame of the source (created / run_spawned / run_ended / …)
    MsgNonMessage { choice: u16 },
    MsgGarbage { which: u8 },
    Both { choice: u16, seq_choice: u16 },
}

#[derive(Debug, Clone, Serialize, Deserialize, PartialEq)]
enum Summary {
    Markdown(String),
    Neither,
    UnknownId { which: u8 },
    BothUnknown { md: String, which: u8 },
    ExistingId { choice: u16 },
    BothExisting { md: String, choice: u16 },
    /// a stored bundle id, mangled: surrounding whitespace, upper case, "./" or "../blobs/" in
    /// front, a trailing "/", a truncated id. May be refused; an acceptance must record an id that
    /// resolves (64 lower-case hex naming a stored blob) or carry the markdown inline.
    MangledExisting { choice: u16, how: u8, md: Option<String> },
}

const MANGLES: &[&str] = &["trailing_newline", "leading_space", "crlf", "tabs_both_sides", "upper_case", "dot_slash", "dotdot_blobs", "trailing_slash", "truncated", "trailing_space"];

fn mangle(id: &str, how: u8) -> String {
    match MANGLES[how as usize % MANGLES.len()] {
        "trailing_newline" => format!("{id}\n"),
        "leading_space" => format!(" {id}"),
        "crlf" => format!("{id}\r\n"),
        "tabs_both_sides" => format!("\t{id}\t"),
        "upper_case" => id.to_uppercase(),
        "dot_slash" => format!("./{id}"),
        "dotdot_blobs" => format!("../blobs/{id}"),
        "trailing_slash" => format!("{id}/"),
        "truncated" => id[..id.len().saturating_sub(1)].to_string(),
        _ => format!("{id} "),
    }
}

#[derive(Debug, Clone, Serialize, Deserialize)]
struct Req {
    handoff: bool,
    /// 0..=5 main thread, 6..=7 latest child created in this case (else main), 8 unknown thread
    src: u8,
    sel: Sel,
    /// ignored for branch
    summary: Summary,
    title: Option<String>,
    actor: Option<u8>,
    origin: Option<u8>,
    /// http only: absent optional fields are sent as explicit `null`
    explicit_nulls: bool,
    /// direct only: append a message to the child afterwards and re-check its first frames
    probe_child: bool,
    /// direct only: reopen log + store afterwards (the child must still be listed)
    restart_after: bool,
}

#[derive(Debug, Clone, Serialize, Deserialize)]
struct Case {
    ops: Vec<Op>,
    reqs: Vec<Req>,
    #[serde(default)]
    allow_known: bool,
}

#[derive(Debug, Clone)]
struct Turn {
    actor: u8,
    content: String,
    spawn: bool,
    linked: bool,
    side_effects: u8,
    end: Option<u8>,
}

fn turn_strategy() -> BoxedStrategy<Turn> {
    (
        0u8..3,
        prop_oneof![
            8 => "[a-z ]{1,20}".prop_map(|s| s),
            2 => rv::gen::text::text(24),
            1 => "[a-z]{3}".prop_map(|w| w.repeat(3000)),
        ],
        prop::bool::weighted(0.8),
        prop::bool::weighted(0.3),
        prop_oneof![3 => Just(0u8), 2 => Just(1u8), 1 => Just(2u8)],
        prop_oneof![3 => (0u8..3).prop_map(Some), 1 => Just(None)],
    )
        .prop_map(|(actor, content, spawn, linked, side_effects, end)| Turn {
            actor,
            content,
            spawn,
            linked,
            side_effects,
            end,
        })
        .boxed()
}

fn turn_ops(t: &Turn) -> Vec<Op> {
    // u16::MAX maps to "the latest" message / run through the monotone index mapping
    const LAST: u16 = u16::MAX;
    let mut out = vec![Op::Msg { t: 0, actor: t.actor, content: t.content.clone() }];
    if t.spawn {
        out.push(Op::RunSpawned { t: 0, m: LAST });
        if t.linked {
            out.push(Op::SelectionDecided { t: 0, r: LAST });
            out.push(Op::ContextCompiled { t: 0, r: LAST });
        }
        for i in 0..t.side_effects {
            out.push(Op::SideEffects {
                t: 0,
                r: LAST,
                paths: if i == 0 { Some(vec!["src/a".to_string()]) } else { None },
            });
        }
        if let Some(reason) = t.end {
            out.push(Op::RunEnded { t: 0, r: LAST, reason });
        }
    }
    out
}

fn sel_strategy() -> BoxedStrategy<Sel> {
    prop_oneof![
        3 => Just(Sel::None),
        3 => any::<u16>().prop_map(|choice| Sel::SeqIn { choice }),
        3 => (any::<u16>(), -1i8..=1).prop_map(|(choice, delta)| Sel::SeqAtMsg { choice, delta }),
        1 => Just(Sel::SeqHead),
        1 => Just(Sel::SeqZero),
        3 => prop_oneof![3 => Just(1u64), 1 => Just(2u64), 1 => 3u64..100_000, 2 => Just(u64::MAX)]
            .prop_map(|over| Sel::SeqPast { over }),
        3 => any::<u16>().prop_map(|choice| Sel::Msg { choice }),
        4 => any::<u16>().prop_map(|choice| Sel::MsgWithRun { choice }),
        2 => Just(Sel::MsgUnknown),
        2 => any::<u16>().prop_map(|choice| Sel::MsgNonMessage { choice }),
        2 => (0u8..3).prop_map(|which| Sel::MsgGarbage { which }),
        2 => (any::<u16>(), any::<u16>()).prop_map(|(choice, seq_choice)| Sel::Both { choice, seq_choice }),
    ]
    .boxed()
}

fn markdown_strategy() -> BoxedStrategy<String> {
    prop_oneof![
        5 => "[A-Za-z #\\-\n]{1,40}".prop_map(|s| s),
        2 => rv::gen::text::text(40),
        1 => Just(String::new()),
        1 => "[a-z]{4}".prop_map(|w| format!("## {w}\n- item\n").repeat(700)),
    ]
    .boxed()
}

fn summary_strategy() -> BoxedStrategy<Summary> {
    prop_oneof![
        6 => markdown_strategy().prop_map(Summary::Markdown),
        2 => Just(Summary::Neither),
        2 => (0u8..2).prop_map(|which| Summary::UnknownId { which }),
        1 => (markdown_strategy(), 0u8..2).prop_map(|(md, which)| Summary::BothUnknown { md, which }),
        3 => any::<u16>().prop_map(|choice| Summary::ExistingId { choice }),
        1 => (markdown_strategy(), any::<u16>()).prop_map(|(md, choice)| Summary::BothExisting { md, choice }),
        3 => (any::<u16>(), 0u8..(MANGLES.len() as u8), proptest::option::weighted(0.25, markdown_strategy())).prop_map(|(choice, how, md)| Summary::MangledExisting { choice, how, md }),
    ]
    .boxed()
}

fn title_strategy() -> BoxedStrategy<Option<String>> {
    prop_oneof![
        3 => Just(None),
        3 => "[a-z ]{0,12}".prop_map(Some),
        1 => rv::gen::text::text(16).prop_map(Some),
        1 => rv::gen::text::text_around(300, 4).prop_map(Some),
    ]
    .boxed()
}

fn req_strategy() -> BoxedStrategy<Req> {
    (
        any::<bool>(),
        prop_oneof![12 => 0u8..6, 3 => 6u8..8, 1 => Just(8u8)],
        sel_strategy(),
        summary_strategy(),
        title_strategy(),
        proptest::option::of(0u8..3),
        proptest::option::of(0u8..3),
        (any::<bool>(), prop::bool::weighted(0.3), prop::bool::weighted(0.15)),
    )
        .prop_map(
            |(handoff, src, sel, summary, title, actor, origin, (explicit_nulls, probe_child, restart_after))| Req {
                handoff,
                src,
                sel,
                summary,
                title,
                actor,
                origin,
                explicit_nulls,
                probe_child,
                restart_after,
            },
        )
        .boxed()
}

fn case_strategy(max_turns: usize, max_noise: usize, max_reqs: usize) -> BoxedStrategy<Case> {
    let w = OpWeights {
        msg: 8,
        run: 8,
        run_linked: 2,
        cursor: 2,
        side_effects: 3,
        checkpoint: 3,
        auto: 1,
        branch: 0,
        restart: 1,
        ensure: 0,
    };
    (
        proptest::collection::vec(turn_strategy(), 0..=max_turns),
        proptest::collection::vec((any::<u16>(), op_strategy(w)), 0..=max_noise),
        proptest::collection::vec(req_strategy(), 1..=max_reqs),
    )
        .prop_map(|(turns, noise, reqs)| {
            let mut ops: Vec<Op> = vec![Op::Ensure];
            for t in &turns {
                ops.extend(turn_ops(t));
            }
            // noise is inserted at generated positions (after the initial Ensure)
            let n = ops.len();
            let mut inserts: Vec<(usize, Op)> = noise.into_iter().map(|(pos, op)| (1 + pick(pos, n), op)).collect();
            inserts.sort_by_key(|(p, _)| *p);
            for (p, op) in inserts.into_iter().rev() {
                ops.insert(p.min(ops.len()), op);
            }
            Case { ops, reqs, allow_known: false }
        })
        .boxed()
}

// ------------------------------------------------------------------------------------------
// raw log reader (own; independent of EventLog)
// ------------------------------------------------------------------------------------------

struct Line {
    raw: Vec<u8>,
    v: Value,
}

impl Line {
    fn is_continuity(&self, tid: &str) -> bool {
        self.v.get("stream_kind").and_then(|k| k.as_str()) == Some("continuity")
            && self.v.get("stream_id").and_then(|k| k.as_str()) == Some(tid)
    }
    fn stream_id(&self) -> &str {
        self.v.get("stream_id").and_then(|k| k.as_str()).unwrap_or("")
    }
    fn typ(&self) -> &str {
        self.v.get("type").and_then(|k| k.as_str()).unwrap_or("")
    }
}

fn parse_lines(bytes: &[u8]) -> Result<Vec<Line>, String> {
    let mut out = Vec::new();
    if bytes.is_empty() {
        return Ok(out);
    }
    if *bytes.last().unwrap() != b'\n' {
        return Err("does not end with a newline".into());
    }
    for (i, raw) in bytes[..bytes.len() - 1].split(|b| *b == b'\n').enumerate() {
        let v: Value = serde_json::from_slice(raw).map_err(|e| format!("line {i}: {e}"))?;
        out.push(Line { raw: raw.to_vec(), v });
    }
    Ok(out)
}

fn clip(s: &str) -> String {
    if s.len() <= 240 {
        return s.to_string();
    }
    let mut cut = 240;
    while !s.is_char_boundary(cut) {
        cut -= 1;
    }
    format!("{}…(+{} bytes)", &s[..cut], s.len() - cut)
}

// ------------------------------------------------------------------------------------------
// model: cut resolution from the truth frames of the source as they were
// ------------------------------------------------------------------------------------------

fn is_msg(e: &Event) -> bool {
    matches!(e.kind, EventKind::ContinuityMessageAppended { .. })
}

/// seqs of the run_spawned / run_ended frames naming `mid`: (spawned, ended)
fn run_frames_for(frames: &[Event], mid: &str) -> (Vec<u64>, Vec<u64>) {
    let mut spawned = Vec::new();
    let mut ended = Vec::new();
    for e in frames {
        match &e.kind {
            EventKind::ContinuityRunSpawned { message_id, .. } if message_id == mid => spawned.push(e.seq),
            EventKind::ContinuityRunEnded { message_id, .. } if message_id == mid => ended.push(e.seq),
            _ => {}
        }
    }
    (spawned, ended)
}

#[derive(Debug, Clone, PartialEq)]
enum Expect {
    Cut { seq: u64, mid: Option<String> },
    Fail(&'static str),
}

fn model(
    frames: &[Event],
    handoff: bool,
    md_given: bool,
    id_given: bool,
    from_mid: &Option<String>,
    from_seq: Option<u64>,
) -> Expect {
    let Some(last) = frames.last() else {
        return Expect::Fail("source_missing");
    };
    if handoff && !md_given && !id_given {
        return Expect::Fail("no_summary");
    }
    if from_mid.is_some() && from_seq.is_some() {
        return Expect::Fail("both_selectors");
    }
    let head = last.seq;
    if let Some(s) = from_seq {
        if s > head {
            return Expect::Fail("from_seq_out_of_range");
        }
        let mid = frames.iter().filter(|e| is_msg(e) && e.seq <= s).last().map(|e| e.id.clone());
        return Expect::Cut { seq: s, mid };
    }
    if let Some(m) = from_mid {
        let Some(msg) = frames.iter().find(|e| is_msg(e) && &e.id == m) else {
            return Expect::Fail("from_message_id_not_a_message_of_the_source");
        };
        let (sp, en) = run_frames_for(frames, m);
        let seq = sp.iter().chain(en.iter()).copied().fold(msg.seq, u64::max);
        return Expect::Cut { seq, mid: Some(m.clone()) };
    }
    let mid = frames.iter().filter(|e| is_msg(e)).last().map(|e| e.id.clone());
    Expect::Cut { seq: head, mid }
}

/// API arguments for a selector, from the truth frames of the source (generator side, not oracle).
fn resolve_sel(sel: &Sel, frames: &[Event]) -> (Option<String>, Option<u64>, &'static str) {
    let head = frames.last().map(|e| e.seq).unwrap_or(0);
    let msgs: Vec<&Event> = frames.iter().filter(|e| is_msg(e)).collect();
    let in_range = |choice: u16| pick(choice, head as usize + 1) as u64;
    match sel {
        Sel::None => (None, None, "none"),
        Sel::SeqIn { choice } => (None, Some(in_range(*choice)), "seq_in_range"),
        Sel::SeqAtMsg { choice, delta } => {
            if msgs.is_empty() {
                (None, Some(in_range(*choice)), "seq_in_range")
            } else {
                let s = msgs[pick(*choice, msgs.len())].seq as i128 + *delta as i128;
                (None, Some(s.clamp(0, head as i128) as u64), "seq_at_message_boundary")
            }
        }
        Sel::SeqHead => (None, Some(head), "seq_head"),
        Sel::SeqZero => (None, Some(0), "seq_zero"),
        Sel::SeqPast { over } => (None, Some(head.saturating_add((*over).max(1))), "seq_out_of_range"),
        Sel::Msg { choice } => {
            if msgs.is_empty() {
                (Some(UNKNOWN_MESSAGE.to_string()), None, "msg_unknown")
            } else {
                (Some(msgs[pick(*choice, msgs.len())].id.clone()), None, "msg_known")
            }
        }
        Sel::MsgWithRun { choice } => {
            let with_run: Vec<&&Event> = msgs
                .iter()
                .filter(|m| {
                    let (s, e) = run_frames_for(frames, &m.id);
                    !s.is_empty() || !e.is_empty()
                })
                .collect();
            if !with_run.is_empty() {
                (Some(with_run[pick(*choice, with_run.len())].id.clone()), None, "msg_known")
            } else if !msgs.is_empty() {
                (Some(msgs[pick(*choice, msgs.len())].id.clone()), None, "msg_known")
            } else {
                (Some(UNKNOWN_MESSAGE.to_string()), None, "msg_unknown")
            }
        }
        Sel::MsgUnknown => (Some(UNKNOWN_MESSAGE.to_string()), None, "msg_unknown"),
        Sel::MsgNonMessage { choice } => {
            let others: Vec<&Event> = frames.iter().filter(|e| !is_msg(e)).collect();
            if others.is_empty() {
                (Some(UNKNOWN_MESSAGE.to_string()), None, "msg_unknown")
            } else {
                (Some(others[pick(*choice, others.len())].id.clone()), None, "msg_not_a_message")
            }
        }
        Sel::MsgGarbage { which } => {
            let id = match which {
                0 => "garbage id \u{0} /../".to_string(),
                1 => "not-a-message".to_string(),
                _ => "x".repeat(5000),
            };
            (Some(id), None, "msg_garbage")
        }
        Sel::Both { choice, seq_choice } => {
            let id = if msgs.is_empty() {
                UNKNOWN_MESSAGE.to_string()
            } else {
                msgs[pick(*choice, msgs.len())].id.clone()
            };
            (Some(id), Some(in_range(*seq_choice)), "both")
        }
    }
}

// ------------------------------------------------------------------------------------------
// drivers
// ------------------------------------------------------------------------------------------

struct Args {
    src: String,
    title: Option<String>,
    from_mid: Option<String>,
    from_seq: Option<u64>,
    md: Option<String>,
    art: Option<String>,
    actor: Option<String>,
    origin: Option<String>,
}

#[derive(Debug, Default)]
struct Outcome {
    /// (child, cut seq, cut message id)
    ok: Option<(String, u64, Option<String>)>,
    err: Option<String>,
    status: Option<u16>,
    /// http: the source id the response names
    resp_src: Option<String>,
    /// http: success status but a body that does not have the documented shape
    bad_body: Option<String>,
}

struct Http {
    rt: tokio::runtime::Runtime,
    router: axum::Router,
}

impl Http {
    fn post(&self, path: &str, body: Value) -> (u16, Value) {
        let (s, v) = self.rt.block_on(rv::http::call_json(&self.router, Method::POST, path, Some(body)));
        (s.as_u16(), v)
    }
    fn get(&self, path: &str) -> (u16, Value) {
        let (s, v) = self.rt.block_on(rv::http::call_json(&self.router, Method::GET, path, None));
        (s.as_u16(), v)
    }
}

struct World {
    it: Interp,
    http: Option<Http>,
}

impl World {
    fn list(&self) -> Vec<(String, Option<String>)> {
        match &self.http {
            None => self.it.live.store.list().into_iter().map(|m| (m.continuity_id, m.title)).collect(),
            Some(h) => {
                let (_s, v) = h.get("/threads");
                v.as_array()
                    .map(|a| {
                        a.iter()
                            .map(|m| {
                                (
                                    m["thread_id"].as_str().unwrap_or("").to_string(),
                                    m["title"].as_str().map(|s| s.to_string()),
                                )
                            })
                            .collect()
                    })
                    .unwrap_or_default()
            }
        }
    }

    fn get(&self, id: &str) -> Option<Option<String>> {
        match &self.http {
            None => self.it.live.store.get(id).map(|m| m.title),
            Some(h) => {
                let (s, v) = h.get(&format!("/threads/{id}"));
                if s == 200 {
                    Some(v["title"].as_str().map(|s| s.to_string()))
                } else {
                    None
                }
            }
        }
    }

    fn call(&self, handoff: bool, a: &Args, explicit_nulls: bool) -> Outcome {
        match &self.http {
            None => {
                let actor = a.actor.clone().unwrap_or_else(|| "user".to_string());
                let origin = a.origin.clone().unwrap_or_else(|| "cli".to_string());
                let store = &self.it.live.store;
                let r = if handoff {
                    store.handoff(
                        &a.src,
                        a.title.clone(),
                        (a.md.clone(), a.art.clone()),
                        a.from_mid.clone(),
                        a.from_seq,
                        (actor, origin),
                    )
                } else {
                    store.branch(&a.src, a.title.clone(), a.from_mid.clone(), a.from_seq, actor, origin)
                };
                match r {
                    Ok(t) => Outcome { ok: Some(t), ..Default::default() },
                    Err(e) => Outcome { err: Some(e), ..Default::default() },
                }
            }
            Some(h) => {
                let mut body = serde_json::Map::new();
                let mut put = |k: &str, v: Option<Value>| match v {
                    Some(v) => {
                        body.insert(k.to_string(), v);
                    }
                    None if explicit_nulls => {
                        body.insert(k.to_string(), Value::Null);
                    }
                    None => {}
                };
                put("title", a.title.clone().map(Value::from));
                put("from_message_id", a.from_mid.clone().map(Value::from));
                put("from_seq", a.from_seq.map(Value::from));
                put("actor_id", a.actor.clone().map(Value::from));
                put("origin", a.origin.clone().map(Value::from));
                if handoff {
                    put("summary_markdown", a.md.clone().map(Value::from));
                    put("summary_artifact_id", a.art.clone().map(Value::from));
                }
                let path = format!("/threads/{}/{}", a.src, if handoff { "handoff" } else { "branch" });
                let (status, v) = h.post(&path, Value::Object(body));
                let mut out = Outcome { status: Some(status), ..Default::default() };
                if (200..300).contains(&status) {
                    let (k_src, k_seq, k_mid) = if handoff {
                        ("from_thread_id", "from_seq", "from_message_id")
                    } else {
                        ("parent_thread_id", "parent_seq", "parent_message_id")
                    };
                    match (v["thread_id"].as_str(), v[k_seq].as_u64()) {
                        (Some(child), Some(seq)) => {
                            out.ok = Some((child.to_string(), seq, v[k_mid].as_str().map(|s| s.to_string())));
                            out.resp_src = v[k_src].as_str().map(|s| s.to_string());
                        }
                        _ => out.bad_body = Some(clip(&v.to_string())),
                    }
                } else {
                    out.err = Some(format!("http {status}"));
                }
                out
            }
        }
    }
}

// ------------------------------------------------------------------------------------------
// the case
// ------------------------------------------------------------------------------------------

/// "title optional": the docs do not distinguish an empty title from no title.
fn same_title(a: &Option<String>, b: &Option<String>) -> bool {
    a.as_deref().unwrap_or("") == b.as_deref().unwrap_or("")
}

fn excluded(flag: bool, name: &str) -> bool {
    if !flag {
        return false;
    }
    match std::env::var("VERIF_NO_EXCLUDE") {
        Ok(v) => !(v == "all" || v.split(',').any(|x| x.trim() == name)),
        Err(_) => true,
    }
}

struct Ctx {
    /// artifact ids known to name an existing blob
    artifacts: Vec<String>,
    /// existing blobs that are not handoff bundles (compaction summaries of manual checkpoints)
    other_artifacts: Vec<String>,
    children: Vec<String>,
    ex_k1: bool,
    nontrivial: bool,
}

fn blob_ids(it: &Interp) -> BTreeSet<String> {
    std::fs::read_dir(it.sandbox.blob_path(""))
        .map(|rd| rd.filter_map(|e| e.ok()).filter_map(|e| e.file_name().into_string().ok()).collect())
        .unwrap_or_default()
}

fn run(case: &Case, via_http: bool) -> CaseReport {
    let mut rep = CaseReport::new();
    let mut it = Interp::new(if via_http { "c10h" } else { "c10" });
    let mut ctx = Ctx {
        artifacts: Vec::new(),
        other_artifacts: Vec::new(),
        children: Vec::new(),
        ex_k1: excluded(EXCLUDE_KNOWN_UNRESOLVABLE_SUMMARY, "K1") && !case.allow_known,
        nontrivial: false,
    };
    // ---- source history
    for op in &case.ops {
        match catch(|| it.apply(op)) {
            Ok(r) => {
                if let (Op::ManualCheckpoint { .. }, Ok(v)) = (op, &r.result) {
                    if let Some(id) = v["summary_artifact_id"].as_str() {
                        if it.sandbox.blob_path(id).is_file() {
                            ctx.other_artifacts.push(id.to_string());
                        }
                    }
                }
            }
            Err(_) => {
                // a panic while building the history is not C10's subject
                rep.class("history_op_panicked");
                return rep;
            }
        }
    }
    let Some(main) = it.threads.first().map(|t| t.id.clone()) else {
        rep.class("no_main_thread");
        return rep;
    };
    rep.class(if via_http { "via_http" } else { "direct" });
    let http = if via_http {
        let rt = tokio::runtime::Builder::new_current_thread().enable_all().build().expect("rt");
        let (data, ws) = (it.sandbox.data.clone(), it.sandbox.ws.clone());
        // the router owns its own engine over the same directories (an authority restart); from
        // here on every request and every listing goes through it, never through `it.live`
        let router = rt.block_on(async { ripd::verif::build_router(data, ws, None, false) });
        Some(Http { rt, router })
    } else {
        None
    };
    let mut world = World { it, http };

    for (i, req) in case.reqs.iter().enumerate() {
        one_request(&mut world, &mut ctx, &main, i, req, &mut rep);
        if !rep.ok() {
            break;
        }
    }
    rep.nontrivial = ctx.nontrivial;
    rep
}

/// A markdown-only handoff from the main thread, to obtain the id of an existing bundle artifact.
fn prep_artifact(world: &mut World, ctx: &mut Ctx, main: &str, rep: &mut CaseReport) -> Option<String> {
    let a = Args {
        src: main.to_string(),
        title: Some("prep".to_string()),
        from_mid: None,
        from_seq: None,
        md: Some("prep summary".to_string()),
        art: None,
        actor: None,
        origin: None,
    };
    let out = catch(|| world.call(true, &a, false)).ok()?;
    let (child, _, _) = out.ok?;
    rep.count("prep_handoffs", 1);
    let frames = world.it.sandbox.truth_thread(&child).ok()?;
    let id = frames.iter().find_map(|e| match &e.kind {
        EventKind::ContinuityHandoffCreated { summary_artifact_id, .. } => summary_artifact_id.clone(),
        _ => None,
    })?;
    if world.it.sandbox.blob_path(&id).is_file() {
        ctx.artifacts.push(id.clone());
        Some(id)
    } else {
        None
    }
}

fn one_request(world: &mut World, ctx: &mut Ctx, main: &str, i: usize, req: &Req, rep: &mut CaseReport) {
    let op = if req.handoff { "handoff" } else { "branch" };
    rep.count("requests", 1);

    // ---- summary arguments (may need a preparatory handoff: done before the snapshot)
    let mut sum_label = "n/a";
    let (md, art): (Option<String>, Option<String>) = if !req.handoff {
        (None, None)
    } else {
        // (id, is a handoff bundle)
        let existing = |world: &mut World, ctx: &mut Ctx, rep: &mut CaseReport, choice: u16| -> Option<(String, bool)> {
            let n = ctx.artifacts.len() + ctx.other_artifacts.len();
            if n == 0 {
                return prep_artifact(world, ctx, main, rep).map(|id| (id, true));
            }
            let k = pick(choice, n);
            if k < ctx.artifacts.len() {
                Some((ctx.artifacts[k].clone(), true))
            } else {
                Some((ctx.other_artifacts[k - ctx.artifacts.len()].clone(), false))
            }
        };
        match &req.summary {
            Summary::Markdown(m) => {
                sum_label = "markdown";
                (Some(m.clone()), None)
            }
            Summary::Neither => {
                sum_label = "neither";
                (None, None)
            }
            Summary::UnknownId { which } => {
                sum_label = "unknown_artifact_id";
                (None, Some(UNKNOWN_ARTIFACTS[*which as usize % 2].to_string()))
            }
            Summary::BothUnknown { md, which } => {
                sum_label = "markdown_and_unknown_id";
                (Some(md.clone()), Some(UNKNOWN_ARTIFACTS[*which as usize % 2].to_string()))
            }
            Summary::ExistingId { choice } => match existing(world, ctx, rep, *choice) {
                Some((id, bundle)) => {
                    sum_label = if bundle { "existing_artifact_id" } else { "existing_non_bundle_artifact_id" };
                    (None, Some(id))
                }
                None => {
                    rep.count("skipped_no_existing_artifact", 1);
                    return;
                }
            },
            Summary::MangledExisting { choice, how, md } => match existing(world, ctx, rep, *choice) {
                Some((id, _bundle)) => {
                    sum_label = "mangled_existing_id";
                    rep.class(format!("mangle:{}", MANGLES[*how as usize % MANGLES.len()]));
                    (md.clone(), Some(mangle(&id, *how)))
                }
                None => {
                    rep.count("skipped_no_existing_artifact", 1);
                    return;
                }
            },
            Summary::BothExisting { md, choice } => match existing(world, ctx, rep, *choice) {
                Some((id, bundle)) => {
                    sum_label = if bundle { "markdown_and_existing_id" } else { "markdown_and_existing_non_bundle_id" };
                    (Some(md.clone()), Some(id))
                }
                None => {
                    rep.count("skipped_no_existing_artifact", 1);
                    return;
                }
            },
        }
    };

    // event_frames.md: a given id "should reference a handoff context bundle artifact". An id that
    // names nothing, or names another kind of artifact, may therefore be refused: a clean failure
    // is accepted as well as a success (which must then carry a resolvable summary, (d)).
    let lenient_summary = matches!(
        sum_label,
        "unknown_artifact_id" | "markdown_and_unknown_id" | "existing_non_bundle_artifact_id" | "markdown_and_existing_non_bundle_id" | "mangled_existing_id"
    );

    // ---- source
    let (src, src_label) = match req.src {
        0..=5 => (main.to_string(), "main"),
        6..=7 => match ctx.children.last() {
            Some(c) => (c.clone(), "child"),
            None => (main.to_string(), "main"),
        },
        _ => (UNKNOWN_THREAD.to_string(), "unknown"),
    };

    // ---- snapshot of the world as it was
    let before = world.it.sandbox.log_bytes();
    let before_lines = match parse_lines(&before) {
        Ok(l) => l,
        Err(e) => {
            rep.fail("harness|log_unreadable_before_call", json!({"req": i, "error": e}));
            return;
        }
    };
    let mut src_frames: Vec<Event> = Vec::new();
    let mut src_raw_before: Vec<&[u8]> = Vec::new();
    for l in before_lines.iter().filter(|l| l.is_continuity(&src)) {
        match serde_json::from_value::<Event>(l.v.clone()) {
            Ok(e) => src_frames.push(e),
            Err(e) => {
                rep.fail("harness|source_frame_unparsable", json!({"req": i, "error": e.to_string()}));
                return;
            }
        }
        src_raw_before.push(&l.raw);
    }
    let streams_before: BTreeSet<String> = before_lines.iter().map(|l| l.stream_id().to_string()).collect();
    let listed_before: BTreeSet<String> = world.list().into_iter().map(|(id, _)| id).collect();
    let blobs_before = blob_ids(&world.it);
    let head = src_frames.last().map(|e| e.seq).unwrap_or(0);
    let n_msgs = src_frames.iter().filter(|e| is_msg(e)).count();
    let n_runs = src_frames.iter().filter(|e| matches!(e.kind, EventKind::ContinuityRunSpawned { .. })).count();

    let (from_mid, from_seq, sel_label) = resolve_sel(&req.sel, &src_frames);
    let expect = model(&src_frames, req.handoff, md.is_some(), art.is_some(), &from_mid, from_seq);

    let args = Args {
        src: src.clone(),
        title: req.title.clone(),
        from_mid: from_mid.clone(),
        from_seq,
        md: md.clone(),
        art: art.clone(),
        actor: req.actor.map(|a| ACTORS[a as usize % 3].to_string()),
        origin: req.origin.map(|o| ORIGINS[o as usize % 3].to_string()),
    };
    let (exp_actor, exp_origin) = (
        args.actor.clone().unwrap_or_else(|| "user".to_string()),
        // ADR-0009: `origin` defaults to "server" on the HTTP surface; the direct driver passes "cli"
        args.origin.clone().unwrap_or_else(|| if world.http.is_some() { "server" } else { "cli" }.to_string()),
    );

    rep.class(format!("op:{op}"));
    rep.class(format!("sel:{sel_label}"));
    rep.class(format!("src:{src_label}"));
    if req.handoff {
        rep.class(format!("sum:{sum_label}"));
    }
    rep.count(&format!("sel_{sel_label}"), 1);
    if n_msgs >= 2 && n_runs >= 1 && sel_label != "none" {
        ctx.nontrivial = true;
    }
    if let (Some(m), None) = (&from_mid, from_seq) {
        let (sp, en) = run_frames_for(&src_frames, m);
        if matches!(expect, Expect::Cut { .. }) {
            rep.class_if(!en.is_empty(), "source_has_run_ended_for_message");
            rep.class_if(sp.len() + en.len() > 2 || sp.len() > 1, "message_named_by_several_runs");
            rep.class_if(!sp.is_empty() && en.is_empty(), "message_run_not_ended");
        }
    }

    // ---- the call
    let called = catch(|| world.call(req.handoff, &args, req.explicit_nulls));
    let mut panicked: Option<String> = None;
    let out = match called {
        Ok(o) => o,
        Err(p) => {
            rep.count("panics", 1);
            panicked = Some(p.clone());
            Outcome { err: Some(format!("panic: {p}")), ..Default::default() }
        }
    };
    if let Some(b) = &out.bad_body {
        rep.fail(format!("response_shape|{op}"), json!({"req": i, "status": out.status, "body": b}));
        return;
    }
    if let Some(s) = out.status {
        rep.class(format!("http_status:{s}"));
    }

    // ---- (a) append-only + source untouched, whatever the outcome
    let after = world.it.sandbox.log_bytes();
    if !after.starts_with(&before) {
        rep.fail(
            format!("log_not_append_only|{op}"),
            json!({"req": i, "before_len": before.len(), "after_len": after.len()}),
        );
        return;
    }
    let suffix = match parse_lines(&after[before.len()..]) {
        Ok(l) => l,
        Err(e) => {
            rep.fail(format!("appended_bytes_not_whole_frames|{op}"), json!({"req": i, "error": e}));
            return;
        }
    };
    let src_added: Vec<&Line> = suffix.iter().filter(|l| l.is_continuity(&src)).collect();
    if !src_added.is_empty() {
        rep.fail(
            format!("parent_touched|{op}"),
            json!({"req": i, "source": src, "source_frames_before": src_raw_before.len(),
                   "frames_added_to_source": src_added.iter().map(|l| clip(&String::from_utf8_lossy(&l.raw))).collect::<Vec<_>>()}),
        );
        return;
    }
    let listed_after: Vec<(String, Option<String>)> = world.list();
    let new_listed: Vec<&String> =
        listed_after.iter().map(|(id, _)| id).filter(|id| !listed_before.contains(*id)).collect();

    let detail = |extra: Value| -> Value {
        json!({"req": i, "op": op, "source": src, "head_before": head, "messages": n_msgs,
               "args": {"from_message_id": from_mid.as_deref().map(clip), "from_seq": from_seq,
                         "summary_markdown": md.as_deref().map(clip), "summary_artifact_id": art},
               "expect": format!("{expect:?}"), "outcome": format!("{:?}", out.ok), "error": out.err,
               "more": extra})
    };

    // ---- outcome against the model
    let Some((child, ret_seq, ret_mid)) = out.ok.clone() else {
        // ------------------------------------------------------------------ failure
        rep.class("outcome:failure");
        rep.count("failures", 1);
        match &expect {
            Expect::Fail(reason) => rep.count(&format!("failed_as_expected_{reason}"), 1),
            Expect::Cut { .. } if lenient_summary => rep.count("failed_on_non_bundle_artifact_id", 1),
            Expect::Cut { .. } => {
                let cause = if panicked.is_some() { "panic" } else { "error" };
                rep.fail(format!("rejected_valid|{op}|{sel_label}|{cause}"), detail(json!(null)));
            }
        }
        // (e) nothing appended, no new thread listed
        if !suffix.is_empty() || !new_listed.is_empty() {
            let sig = if !suffix.is_empty() {
                format!("failure_appended_frames|{op}")
            } else {
                format!("failure_listed_thread|{op}")
            };
            rep.fail(
                sig,
                detail(json!({"appended": suffix.iter().map(|l| clip(&String::from_utf8_lossy(&l.raw))).collect::<Vec<_>>(),
                              "newly_listed": new_listed})),
            );
        }
        let orphan_blobs = blob_ids(&world.it).difference(&blobs_before).count();
        rep.count("orphan_blobs_after_failure", orphan_blobs as u64);
        return;
    };

    // ---------------------------------------------------------------------- success
    rep.class("outcome:success");
    rep.count("successes", 1);
    let (exp_seq, exp_mid) = match &expect {
        Expect::Fail(reason) => {
            rep.fail(format!("accepted_invalid|{op}|{reason}"), detail(json!(null)));
            return;
        }
        Expect::Cut { seq, mid } => (*seq, mid.clone()),
    };
    if let Some(s) = out.status {
        if s != 201 {
            rep.fail(format!("http_status|{op}|success_not_201"), detail(json!({"status": s})));
        }
    }
    if let Some(rs) = &out.resp_src {
        if rs != &src {
            rep.fail(format!("response_names_other_source|{op}"), detail(json!({"response_source": rs})));
        }
    }

    // (b) exactly two lines, both on one new stream
    let shape_fail = |rep: &mut CaseReport, what: &str, extra: Value| {
        rep.fail(
            format!("child_stream_shape|{op}|{what}"),
            detail(json!({"child": child, "why": extra,
                          "appended": suffix.iter().map(|l| clip(&String::from_utf8_lossy(&l.raw))).collect::<Vec<_>>()})),
        );
    };
    if child == src || streams_before.contains(&child) || listed_before.contains(&child) {
        shape_fail(rep, "child_id_not_new", json!(null));
        return;
    }
    if suffix.len() != 2 {
        shape_fail(rep, "not_exactly_two_frames_appended", json!({"appended_lines": suffix.len()}));
        return;
    }
    if let Some(l) = suffix.iter().find(|l| !l.is_continuity(&child)) {
        shape_fail(rep, "frame_on_another_stream", json!({"stream_id": l.stream_id()}));
        return;
    }
    let lineage_type = if req.handoff { "continuity_handoff_created" } else { "continuity_branched" };
    let (l0, l1) = (&suffix[0], &suffix[1]);
    if l0.typ() != "continuity_created" || l0.v["seq"].as_u64() != Some(0) {
        shape_fail(rep, "first_frame_not_created_seq0", json!({"type": l0.typ(), "seq": l0.v["seq"]}));
        return;
    }
    if l1.typ() != lineage_type || l1.v["seq"].as_u64() != Some(1) {
        shape_fail(rep, "second_frame_not_lineage_seq1", json!({"type": l1.typ(), "seq": l1.v["seq"]}));
        return;
    }
    let (e0, e1) = match (
        serde_json::from_value::<Event>(l0.v.clone()),
        serde_json::from_value::<Event>(l1.v.clone()),
    ) {
        (Ok(a), Ok(b)) => (a, b),
        (a, b) => {
            shape_fail(rep, "frame_does_not_parse", json!({"created": a.err().map(|e| e.to_string()), "lineage": b.err().map(|e| e.to_string())}));
            return;
        }
    };
    if e0.session_id != child || e1.session_id != child {
        shape_fail(rep, "frame_session_id_differs", json!(null));
    }
    // created frame: same workspace as the source (ADR-0009 "in the same workspace"), given title
    if let EventKind::ContinuityCreated { workspace, title } = &e0.kind {
        if let Some(EventKind::ContinuityCreated { workspace: src_ws, .. }) = src_frames.first().map(|e| &e.kind) {
            if workspace != src_ws {
                rep.fail(format!("created_frame|{op}|workspace_differs"), detail(json!({"child": workspace, "source": src_ws})));
            }
        }
        if !same_title(title, &req.title) {
            rep.fail(format!("created_frame|{op}|title_differs"), detail(json!({"recorded": title})));
        }
    }
    // listing
    match world.get(&child) {
        None => rep.fail(format!("child_not_listed|{op}|get"), detail(json!({"child": child}))),
        Some(t) => {
            if !same_title(&t, &req.title) {
                rep.fail(format!("child_listing|{op}|title_differs"), detail(json!({"listed": t})));
            }
        }
    }
    if !listed_after.iter().any(|(id, _)| id == &child) {
        rep.fail(format!("child_not_listed|{op}|list"), detail(json!({"child": child})));
    }
    if new_listed.iter().any(|id| **id != child) {
        rep.fail(format!("unexpected_thread_listed|{op}"), detail(json!({"newly_listed": new_listed})));
    }
    if listed_before.iter().any(|id| !listed_after.iter().any(|(a, _)| a == id)) {
        rep.fail(format!("thread_unlisted|{op}"), detail(json!(null)));
    }

    // lineage frame: source, cut, provenance, summary
    let (rec_src, rec_seq, rec_mid, rec_actor, rec_origin, rec_art, rec_md) = match &e1.kind {
        EventKind::ContinuityBranched { parent_thread_id, parent_seq, parent_message_id, actor_id, origin } => {
            (parent_thread_id, *parent_seq, parent_message_id, actor_id, origin, &None, &None)
        }
        EventKind::ContinuityHandoffCreated {
            from_thread_id,
            from_seq,
            from_message_id,
            summary_artifact_id,
            summary_markdown,
            actor_id,
            origin,
        } => (from_thread_id, *from_seq, from_message_id, actor_id, origin, summary_artifact_id, summary_markdown),
        _ => return,
    };
    if rec_src != &src {
        rep.fail(format!("lineage|{op}|names_other_source"), detail(json!({"recorded": rec_src})));
    }
    if rec_actor != &exp_actor || rec_origin != &exp_origin {
        rep.fail(
            format!("lineage|{op}|provenance_differs"),
            detail(json!({"recorded": [rec_actor, rec_origin], "given": [exp_actor, exp_origin]})),
        );
    }
    if ret_seq != rec_seq || &ret_mid != rec_mid {
        rep.fail(
            format!("returned_cut_differs_from_recorded|{op}"),
            detail(json!({"returned": [ret_seq, ret_mid], "recorded": [rec_seq, rec_mid]})),
        );
    }
    // (c) recorded cut == model, within the source as it was
    let sel_class = match (&from_mid, from_seq) {
        (None, None) => "none",
        (None, Some(_)) => "from_seq",
        (Some(_), _) => "from_message_id",
    };
    if rec_seq > head {
        rep.fail(format!("cut_out_of_range|{op}|{sel_class}"), detail(json!({"recorded_seq": rec_seq})));
    }
    if rec_seq != exp_seq {
        let several = from_mid
            .as_ref()
            .map(|m| {
                let (sp, en) = run_frames_for(&src_frames, m);
                sp.len() > 1 || en.len() > 1
            })
            .unwrap_or(false);
        rep.fail(
            format!("cut_mismatch|{op}|{sel_class}|seq{}", if several { "|several_run_frames" } else { "" }),
            detail(json!({"recorded_seq": rec_seq, "model_seq": exp_seq})),
        );
    }
    if rec_mid != &exp_mid {
        rep.fail(
            format!("cut_mismatch|{op}|{sel_class}|message_id"),
            detail(json!({"recorded_message_id": rec_mid, "model_message_id": exp_mid})),
        );
    }
    rep.class_if(rec_seq > 0 && rec_seq < head, "cut_strictly_inside");
    rep.class_if(rec_mid.is_none(), "cut_without_message");

    // (d) handoff: resolvable summary
    if req.handoff {
        // an artifact id is 64 lower-case hex (what every artifact reader of the project accepts);
        // anything else is not resolvable even if joining it onto the blob directory hits a file
        let blob_ok = |id: &str| id.len() == 64 && id.bytes().all(|b| b.is_ascii_digit() || (b'a'..=b'f').contains(&b)) && world.it.sandbox.blob_path(id).is_file();
        let bundle_of = |id: &str| -> Option<Value> {
            std::fs::read(world.it.sandbox.blob_path(id)).ok().and_then(|b| serde_json::from_slice::<Value>(&b).ok())
        };
        let rec_blob = rec_art.as_deref().map(blob_ok).unwrap_or(false);
        // the frame carries inline markdown, or an artifact id whose blob exists
        if rec_md.is_none() && !rec_blob {
            let k1 = sum_label == "unknown_artifact_id" && rec_art == &art;
            if k1 && ctx.ex_k1 {
                rep.count("excluded_known_K1_unknown_artifact_id_accepted", 1);
            } else {
                let why = if k1 {
                    "unknown_artifact_id_accepted"
                } else if rec_art.is_none() {
                    "frame_has_neither"
                } else {
                    "artifact_missing"
                };
                rep.fail(format!("unresolvable_summary|{op}|{why}"), detail(json!({"summary_artifact_id": rec_art})));
            }
        }
        // what the caller gave is what the child carries ("recorded as frames and/or artifacts")
        if let Some(given) = &md {
            if let Some(inline) = rec_md {
                if inline != given {
                    rep.fail(format!("summary|{op}|markdown_differs_from_given"), detail(json!({"recorded": clip(inline)})));
                }
            } else if rec_blob {
                let in_bundle = rec_art.as_deref().and_then(bundle_of).map(|b| b["summary_markdown"].as_str() == Some(given.as_str()));
                if in_bundle != Some(true) {
                    rep.fail(format!("summary|{op}|given_markdown_not_carried"), detail(json!({"summary_artifact_id": rec_art})));
                }
            }
        }
        if let Some(given) = &art {
            // id alone: the frame must carry that id. id + markdown: ADR-0009 also allows the
            // runtime to persist its own bundle for the markdown and record that id instead.
            let own_bundle = md.is_some() && rec_blob;
            if rec_art.as_ref() != Some(given) && !own_bundle {
                rep.fail(format!("summary|{op}|artifact_id_differs_from_given"), detail(json!({"recorded": rec_art})));
            }
            if rec_art.as_ref() == Some(given) && !rec_blob && rec_md.is_some() {
                // inline markdown keeps the summary resolvable; the dangling id is the same
                // unchecked acceptance as K1 (observation only)
                rep.count("dangling_artifact_id_beside_inline_markdown", 1);
            }
        }
        // ADR-0009 + handoff_context_bundle.md: markdown without an id => a bundle artifact is
        // persisted and its id recorded
        if sum_label == "markdown" {
            match rec_art {
                None => rep.fail(format!("summary|{op}|no_bundle_recorded_for_markdown"), detail(json!(null))),
                Some(id) if !rec_blob => {
                    rep.fail(format!("summary|{op}|recorded_bundle_missing"), detail(json!({"summary_artifact_id": id})))
                }
                Some(_) => {}
            }
        }
        // a blob written by this call is a v1 bundle that repeats the markdown and the source cut
        if let Some(id) = rec_art.as_ref().filter(|id| rec_blob && !blobs_before.contains(*id)) {
            rep.count("bundles_checked", 1);
            match bundle_of(id) {
                None => rep.fail(format!("bundle|{op}|not_json"), detail(json!({"summary_artifact_id": id}))),
                Some(b) => {
                    if b["schema"] != "rip.handoff_context_bundle.v1" {
                        rep.fail(format!("bundle|{op}|schema"), detail(json!({"schema": b["schema"]})));
                    }
                    if b["summary_markdown"].as_str() != md.as_deref() {
                        rep.fail(format!("bundle|{op}|markdown_differs"), detail(json!({"bundle": clip(&b["summary_markdown"].to_string())})));
                    }
                    let has_ref = b["refs"]["threads"]
                        .as_array()
                        .map(|a| {
                            a.iter().any(|r| {
                                r["thread_id"].as_str() == Some(src.as_str())
                                    && r["seq"].as_u64() == Some(rec_seq)
                                    && r["message_id"].as_str().map(|s| s.to_string()) == *rec_mid
                            })
                        })
                        .unwrap_or(false);
                    if !has_ref {
                        rep.fail(format!("bundle|{op}|source_cut_ref_missing_or_differs"), detail(json!({"refs": b["refs"]})));
                    }
                    if !b["refs"]["artifacts"].is_array() || !b["refs"]["files"].is_array() {
                        rep.fail(format!("bundle|{op}|required_ref_arrays_missing"), detail(json!({"refs": b["refs"]})));
                    }
                }
            }
            ctx.artifacts.push(id.clone());
        }
    }

    ctx.children.push(child.clone());

    // ---- direct only: the child keeps its first two frames when it grows / after a restart
    if world.http.is_none() && rep.ok() {
        if req.restart_after {
            world.it.restart();
            rep.class("restart_after_request");
            if world.it.live.store.get(&child).is_none() {
                rep.fail(format!("child_not_listed|{op}|after_restart"), detail(json!({"child": child})));
            }
        }
        if req.probe_child {
            let r = catch(|| {
                world.it.live.store.append_message(&child, "user".to_string(), "cli".to_string(), "probe".to_string())
            });
            rep.class("child_probed");
            let now = world.it.sandbox.log_bytes();
            let ok_shape = now.starts_with(&after)
                && parse_lines(&now[after.len()..])
                    .map(|ls| {
                        ls.len() == 1
                            && ls[0].is_continuity(&child)
                            && ls[0].typ() == "continuity_message_appended"
                            && ls[0].v["seq"].as_u64() == Some(2)
                    })
                    .unwrap_or(false);
            if !matches!(r, Ok(Ok(_))) || !ok_shape {
                rep.fail(
                    format!("child_stream_shape|{op}|first_append_to_child"),
                    detail(json!({"append_result": format!("{r:?}"),
                                  "appended": String::from_utf8_lossy(&now[after.len().min(now.len())..]).chars().take(400).collect::<String>()})),
                );
            }
        }
    }
}

include!("c10/sched.rs");

fn main() {
    let mut check = Check::new("C10", "exploration");
    check.assume("source histories are built through the real ContinuityStore API (messages, run_spawned/run_ended and run-linked frames via the H7b appenders, cursors, checkpoints, auto/schedule, restarts); no cache faults (C04) and no concurrency (C01) here");
    check.assume("model of the cut: from_seq => that seq (must be <= head as it was) + last continuity_message_appended at or before it; from_message_id => that id + max seq over the message frame and the run_spawned/run_ended frames naming it; none => head + last message; both / unknown / non-message id / no summary / unknown source => the call fails (ADR-0009, event_frames.md)");
    check.assume("within one case a single store instance serves every request and listing (the Interp store in `direct`, the router's engine in `http`): two live stores over one data dir is C18's subject");
    check.assume("storage failures (artifact store or index not writable) are outside the property's quantifier and are not injected");
    check.assume("a summary_artifact_id that names no blob, or names an artifact that is not a handoff bundle (a compaction summary), may be refused or accepted (event_frames.md: 'should reference a handoff context bundle artifact'): both outcomes pass, an acceptance must still carry a resolvable summary; id + markdown may record the given id or the id of a bundle the runtime wrote itself");
    check.assume("an empty title and no title are not distinguished; HTTP success status 201 and the provenance defaults actor_id=user / origin=server are taken from ADR-0009 and the handler's OpenAPI annotation");
    check.assume("message ids of another thread, empty-string ids and case-changed uuids are not generated (the docs do not say whether they resolve)");
    let rule = "generated source history (turns + noise), then 1-4 generated branch/handoff requests (selector x summary x title x provenance x source in {main, child, unknown}); model computed from the raw truth frames of the source before each call. non-trivial = a request with a selector other than `none` on a source with >=2 messages and >=1 run; distinct by case hash";
    let n = check.cases(8_000, 200_000);
    check.group("direct", rule, GroupOpts { cases: n, ..Default::default() }, || case_strategy(5, 12, 4), |c: &Case| run(c, false));
    let n = check.cases(250, 6_250);
    check.group(
        "http",
        "same cases, every request and listing through the real router (POST /threads/{id}/branch|handoff, GET /threads[/id]) built over the directories the history was written to; non-trivial as above",
        // a router costs ~70 ms to build: keep shrinking of an http failure bounded
        GroupOpts { cases: n, max_shrink_iters: 60, ..Default::default() },
        || case_strategy(4, 8, 6),
        |c: &Case| run(c, true),
    );
    let n = check.cases(4_000, 100_000);
    check.group(
        "child_visibility",
        "actor A performs 1-2 branch / handoff calls on one ContinuityStore, parked at the store's hook points (log write / flush, end of cache appends, index temp file and rename, artifact rename) following a generated choice vector; actor B polls the thread list and posts to every new thread the moment it is listed. Verdict from the raw log: every child starts with continuity_created, then its lineage frame. non-trivial = the watcher posted to a child; distinct by case hash",
        GroupOpts { cases: n, max_shrink_iters: 100, watchdog_s: 600, ..Default::default() },
        vis_case_strategy,
        run_vis,
    );
    check.finish();
}
