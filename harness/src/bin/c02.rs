//! C02 — truth log is append-only; read-only and no-op capabilities never write.
//!
//! Invariant over histories: around EVERY call, `events.jsonl` before is a byte prefix of after;
//! the suffix is whole `\n`-terminated lines that parse as frames; for read-only / dry-run /
//! no-op invocations the suffix is empty. Classification of read-only / no-op comes from the
//! property statement and docs/03_contracts/compaction.md ("read-only", "must not emit
//! continuity truth frames"), not from the code.

use std::time::Duration;

use axum::http::Method;
use proptest::prelude::*;
use rip_kernel::{Event, EventKind};
use ripd::{
    CompactionCutPointsV1Request, CompactionStatusV1Request, ContextSelectionStatusV1Request,
    ProviderCursorStatusV1Request,
};
use rv::engine::runner::catch;
use rv::engine::{pick, CaseReport, Check, GroupOpts};
use rv::fault::{self, Fault, Versions};
use rv::store::{ops_strategy, Interp, Op, OpWeights, UNKNOWN_THREAD};
use serde::{Deserialize, Serialize};
use serde_json::{json, Value};

#[derive(Debug, Clone, Serialize, Deserialize)]
enum ReadOp {
    Replay { t: u16 },
    CutPoints { t: u16, stride: Option<u64>, limit: Option<u32> },
    Status { t: u16, stride: Option<u64> },
    CursorStatus { t: u16 },
    SelectionStatus { t: u16, limit: Option<u32> },
    ListGet { t: u16 },
    Subscribe,
    ReopenLog,
    UnknownThread,
    /// an id no thread has, shaped like a path (ids are joined into cache file names)
    HostileId { id: u8, which: u8 },
}

/// Unknown thread ids with path-like shapes. `<id>.jsonl` under continuity_streams/ is where the
/// full sidecar of a thread lives, so "../events" names the truth log itself.
const HOSTILE_IDS: &[&str] = &[
    "../events",
    "../events.jsonl",
    "..",
    ".",
    "",
    "events",
    "../continuities/index",
    "../../data/events",
    "a/b",
    "../snapshots/x",
    "./../events",
    "..//events",
    "%2e%2e%2fevents",
    "日本/../../events",
];

#[derive(Debug, Clone, Serialize, Deserialize)]
enum Step {
    Op(Op),
    Read(ReadOp),
    Fault(Fault),
    /// the authority dies mid-append and is restarted: another stream first writes `noise_kb` KiB of
    /// whole frames (so the log can be longer than any scan chunk), then the file gets the body of
    /// a frame without its newline (torn 0) or the first part of one (torn 1), then the log and the
    /// store are reopened. Everything that was a whole frame before must still be an exact prefix.
    /// torn 2: no torn write; the thread index file is lost instead, the authority restarted, a thread
    /// looked up and ensure_default called: nothing may be added.
    TornRestart { noise_kb: u16, torn: u8 },
}

#[derive(Debug, Clone, Serialize, Deserialize)]
struct Case {
    steps: Vec<Step>,
}

fn stride_s() -> BoxedStrategy<Option<u64>> {
    prop_oneof![
        Just(None),
        Just(Some(0u64)),
        (1u64..5).prop_map(Some),
        Just(Some(10_000)),
        Just(Some(u64::MAX))
    ]
    .boxed()
}

fn limit_s() -> BoxedStrategy<Option<u32>> {
    prop_oneof![
        Just(None),
        Just(Some(0u32)),
        Just(Some(1)),
        Just(Some(33)),
        Just(Some(51)),
        Just(Some(u32::MAX))
    ]
    .boxed()
}

fn read_strategy() -> BoxedStrategy<ReadOp> {
    let t = || any::<u16>();
    prop_oneof![
        3 => t().prop_map(|t| ReadOp::Replay { t }),
        3 => (t(), stride_s(), limit_s()).prop_map(|(t, stride, limit)| ReadOp::CutPoints { t, stride, limit }),
        3 => (t(), stride_s()).prop_map(|(t, stride)| ReadOp::Status { t, stride }),
        2 => t().prop_map(|t| ReadOp::CursorStatus { t }),
        2 => (t(), limit_s()).prop_map(|(t, limit)| ReadOp::SelectionStatus { t, limit }),
        1 => t().prop_map(|t| ReadOp::ListGet { t }),
        1 => Just(ReadOp::Subscribe),
        1 => Just(ReadOp::ReopenLog),
        1 => Just(ReadOp::UnknownThread),
        2 => (0u8..(HOSTILE_IDS.len() as u8), 0u8..8).prop_map(|(id, which)| ReadOp::HostileId { id, which }),
    ]
    .boxed()
}

fn case_strategy(max_len: usize) -> BoxedStrategy<Case> {
    let w = OpWeights::default();
    (
        ops_strategy(w, max_len),
        proptest::collection::vec((any::<u16>(), read_strategy()), 0..max_len),
        proptest::collection::vec((any::<u16>(), fault::fault_strategy()), 0..4),
        // 1 case in 12 has a torn restart (the big noise makes those cases slower)
        proptest::option::weighted(0.12, (any::<u16>(), prop_oneof![2 => Just(0u16), 2 => 1u16..60, 3 => 70u16..260], 0u8..3)),
    )
        .prop_map(|(ops, reads, faults, torn)| {
            // interleave: each read / fault is inserted after position pick(pos, len)
            let mut steps: Vec<Step> = ops.into_iter().map(Step::Op).collect();
            let mut inserts: Vec<(usize, Step)> = Vec::new();
            let n = steps.len();
            for (pos, r) in reads {
                inserts.push((pick(pos, n) + 1, Step::Read(r)));
            }
            for (pos, f) in faults {
                inserts.push((pick(pos, n) + 1, Step::Fault(f)));
            }
            if let Some((pos, noise_kb, torn)) = torn {
                inserts.push((pick(pos, n) + 1, Step::TornRestart { noise_kb, torn }));
            }
            inserts.sort_by_key(|(p, _)| *p);
            for (p, s) in inserts.into_iter().rev() {
                steps.insert(p.min(steps.len()), s);
            }
            Case { steps }
        })
        .boxed()
}

#[derive(PartialEq, Clone, Copy)]
enum Expect {
    /// read-only / dry-run / no-op: zero bytes
    Nothing,
    /// may append whole frames
    Frames,
}

/// Check the suffix rule; returns number of frames appended.
fn check_delta(before: &[u8], after: &[u8], expect: Expect, what: &str, step: usize, rep: &mut CaseReport) -> usize {
    if !after.starts_with(before) {
        rep.fail(
            format!("not_append_only|{what}"),
            json!({"step": step, "before_len": before.len(), "after_len": after.len()}),
        );
        return 0;
    }
    let suffix = &after[before.len()..];
    if suffix.is_empty() {
        return 0;
    }
    if expect == Expect::Nothing {
        rep.fail(
            format!("readonly_wrote|{what}"),
            json!({"step": step, "appended_bytes": suffix.len(),
                   "appended": String::from_utf8_lossy(&suffix[..suffix.len().min(400)])}),
        );
    }
    if *suffix.last().unwrap() != b'\n' {
        rep.fail(format!("partial_frame|{what}"), json!({"step": step}));
        return 0;
    }
    let mut n = 0;
    for line in suffix[..suffix.len() - 1].split(|b| *b == b'\n') {
        match serde_json::from_slice::<Event>(line) {
            Ok(_) => n += 1,
            Err(e) => {
                rep.fail(
                    format!("suffix_not_a_frame|{what}"),
                    json!({"step": step, "error": e.to_string(),
                           "line": String::from_utf8_lossy(&line[..line.len().min(300)])}),
                );
            }
        }
    }
    n
}

fn run(case: &Case) -> CaseReport {
    let mut rep = CaseReport::new();
    let mut it = Interp::new("c02");
    let mut versions = Versions::default();
    let mut faulted = false;
    let mut checkpoints = 0u64;
    let mut readonly_after_fault_or_ckpt = 0u64;
    let mut failing_mutations = 0u64;
    for (i, step) in case.steps.iter().enumerate() {
        let before = it.sandbox.log_bytes();
        match step {
            Step::Op(op) => {
                // a rotate is a no-op when NO cursor frame of the thread matches its filters; that
                // is decided here from the thread's truth before the call (reference model of the
                // documented filter rule: a filter that is set matches only a cursor frame that
                // carries the same value), not from the answer of the call itself
                let rotate_model_noop = match op {
                    Op::CursorRotate { t, provider, endpoint, model } => {
                        let tid = it.thread_id(*t);
                        it.sandbox.truth_thread(&tid).ok().map(|truth| {
                            rv::model::rotate_target(
                                &truth,
                                provider.map(|x| rv::store::PROVIDERS[x as usize % 3]),
                                endpoint.map(|x| rv::store::ENDPOINTS[x as usize % 3]),
                                model.map(|x| rv::store::MODELS[x as usize % 3]),
                            )["rotated"]
                                == false
                        })
                    }
                    _ => None,
                };
                let res = match catch(|| it.apply(op)) {
                    Ok(r) => r,
                    Err(p) => {
                        rep.fail(format!("panic|{}", op.tag()), json!({"step": i, "panic": p}));
                        return rep;
                    }
                };
                let after = it.sandbox.log_bytes();
                let mut expect = Expect::Frames;
                let mut what = op.tag().to_string();
                match (op, &res.result) {
                    (Op::Restart, _) => {
                        expect = Expect::Nothing;
                    }
                    (Op::Auto { dry_run, .. }, Ok(v)) => {
                        if *dry_run == Some(true) {
                            expect = Expect::Nothing;
                            what = "auto_dry_run".into();
                        } else if v["status"] == "noop" {
                            expect = Expect::Nothing;
                            what = "auto_noop".into();
                        }
                    }
                    (Op::Schedule { dry_run, .. }, Ok(v)) => {
                        if *dry_run == Some(true) {
                            expect = Expect::Nothing;
                            what = "schedule_dry_run".into();
                        } else if v["decision"] == "noop" || v["decision"] == "dry_run" {
                            expect = Expect::Nothing;
                            what = "schedule_noop".into();
                        }
                    }
                    (Op::CursorRotate { .. }, Ok(v)) if v["rotated"] == false => {
                        expect = Expect::Nothing;
                        what = "rotate_nothing_to_rotate".into();
                    }
                    (Op::CursorRotate { .. }, Ok(_)) if rotate_model_noop == Some(true) => {
                        // the call claims a rotation although no cursor frame matches the filters
                        expect = Expect::Nothing;
                        what = "rotate_no_matching_cursor".into();
                        rep.class("rotate_filter_matches_no_cursor");
                    }
                    _ => {}
                }
                if res.result.is_err() && !matches!(op, Op::Restart) {
                    failing_mutations += 1;
                    rep.class("failing_op");
                }
                if expect == Expect::Nothing && (faulted || checkpoints > 0) && !matches!(op, Op::Restart) {
                    readonly_after_fault_or_ckpt += 1;
                }
                let n = check_delta(&before, &after, expect, &what, i, &mut rep);
                if matches!(op, Op::ManualCheckpoint { .. } | Op::Auto { .. } | Op::Schedule { .. }) && n > 0 {
                    checkpoints += 1;
                }
                versions.record(&it.sandbox.streams_dir());
            }
            Step::TornRestart { torn: 2, .. } => {
                // the thread index (a cache of continuity_created frames) is lost, the authority
                // restarted, one existing thread looked up (which rebuilds that entry alone); with a
                // thread of this workspace in the truth log, ensure_default is a no-op: it adds nothing
                let _ = std::fs::remove_file(it.sandbox.data.join("continuities").join("index.json"));
                it.restart();
                let has_thread = it.sandbox.truth_values().map(|v| v.iter().any(|f| f["type"] == "continuity_created")).unwrap_or(false);
                let tid = it.thread_id(0);
                let _ = catch(|| it.live.store.get(&tid));
                let mid = it.sandbox.log_bytes();
                check_delta(&before, &mid, Expect::Nothing, "index_loss_restart_and_lookup", i, &mut rep);
                if has_thread {
                    let _ = catch(|| it.apply(&Op::Ensure));
                    let after = it.sandbox.log_bytes();
                    check_delta(&mid, &after, Expect::Nothing, "ensure_default_after_index_loss", i, &mut rep);
                    rep.class("index_lost_then_lookup_then_ensure_default");
                }
                versions.record(&it.sandbox.streams_dir());
            }
            Step::TornRestart { noise_kb, torn } => {
                use std::io::Write;
                // other streams' whole frames first
                let sid = format!("noise-{i}");
                let mut seq = 0u64;
                let mut left = *noise_kb as usize * 1024;
                while left > 0 {
                    let n = left.min(16 * 1024);
                    let ev = Event { id: format!("{sid}-{seq}"), session_id: sid.clone(), timestamp_ms: 0, seq, kind: EventKind::OutputTextDelta { delta: "n".repeat(n) } };
                    let _ = it.live.log.append(&ev);
                    seq += 1;
                    left -= n;
                }
                let acked = it.sandbox.log_bytes();
                check_delta(&before, &acked, Expect::Frames, "noise_frames", i, &mut rep);
                // the dying append: a frame larger than the writer buffer reaches the file without
                // its newline, or only in part
                let ev = Event { id: format!("{sid}-torn"), session_id: sid.clone(), timestamp_ms: 0, seq, kind: EventKind::OutputTextDelta { delta: "t".repeat(9000) } };
                let body = serde_json::to_vec(&ev).unwrap_or_default();
                let part: &[u8] = if *torn == 0 { &body } else { &body[..body.len() / 2] };
                if let Ok(mut f) = std::fs::OpenOptions::new().append(true).open(it.sandbox.log_path()) {
                    let _ = f.write_all(part);
                }
                if let Err(p) = catch(|| it.restart()) {
                    rep.fail("panic|restart_after_torn_append", json!({"step": i, "panic": p}));
                    return rep;
                }
                let after = it.sandbox.log_bytes();
                rep.class(if acked.len() > 64 * 1024 { "torn_restart:log>64KiB" } else { "torn_restart:log<=64KiB" });
                // every whole frame that was there is still an exact prefix; what follows is whole
                // frames again (the torn one completed, or nothing)
                check_delta(&acked, &after, Expect::Frames, if *torn == 0 { "restart_after_body_without_newline" } else { "restart_after_partial_frame" }, i, &mut rep);
                // and the next append continues from there
                let _ = catch(|| it.apply(&Op::Msg { t: 0, actor: 0, content: "after the torn restart".into() }));
                let later = it.sandbox.log_bytes();
                check_delta(&after, &later, Expect::Frames, "append_after_torn_restart", i, &mut rep);
                faulted = true;
            }
            Step::Fault(f) => {
                if let Some(a) = fault::apply(&it.sandbox.streams_dir(), f, &versions) {
                    if a.changed {
                        faulted = true;
                        rep.class(format!("fault:{}", a.kind));
                    }
                }
            }
            Step::Read(r) => {
                let what = match catch(|| do_read(&mut it, r)) {
                    Ok(w) => w,
                    Err(p) => {
                        // a panic in a read path is not C02's subject, but the log must still be intact
                        rep.class("read_panicked");
                        rep.count("read_panics", 1);
                        let _ = p;
                        "read_panicked"
                    }
                };
                let after = it.sandbox.log_bytes();
                check_delta(&before, &after, Expect::Nothing, what, i, &mut rep);
                if faulted || checkpoints > 0 {
                    readonly_after_fault_or_ckpt += 1;
                }
            }
        }
    }
    rep.nontrivial = readonly_after_fault_or_ckpt > 0 || failing_mutations > 0;
    rep.class_if(checkpoints > 0, "has_checkpoint");
    rep.class_if(faulted, "faulted");
    rep.class_if(it.restarts > 0, "restarted");
    rep.count("readonly_calls_after_fault_or_checkpoint", readonly_after_fault_or_ckpt);
    rep
}

fn do_read(it: &mut Interp, r: &ReadOp) -> &'static str {
    match r {
        ReadOp::Replay { t } => {
            let tid = it.thread_id(*t);
            let _ = it.live.store.replay_events(&tid);
            "replay"
        }
        ReadOp::CutPoints { t, stride, limit } => {
            let tid = it.thread_id(*t);
            let _ = it.live.store.compaction_cut_points_v1(
                &tid,
                CompactionCutPointsV1Request { stride_messages: *stride, limit: *limit },
            );
            "cut_points"
        }
        ReadOp::Status { t, stride } => {
            let tid = it.thread_id(*t);
            let _ = it
                .live
                .store
                .compaction_status_v1(&tid, CompactionStatusV1Request { stride_messages: *stride });
            "status"
        }
        ReadOp::CursorStatus { t } => {
            let tid = it.thread_id(*t);
            let _ = it.live.store.provider_cursor_status_v1(&tid, ProviderCursorStatusV1Request {});
            "cursor_status"
        }
        ReadOp::SelectionStatus { t, limit } => {
            let tid = it.thread_id(*t);
            let _ = it
                .live
                .store
                .context_selection_status_v1(&tid, ContextSelectionStatusV1Request { limit: *limit });
            "selection_status"
        }
        ReadOp::ListGet { t } => {
            let tid = it.thread_id(*t);
            let _ = it.live.store.list();
            let _ = it.live.store.get(&tid);
            "list_get"
        }
        ReadOp::Subscribe => {
            let rx = it.live.store.subscribe();
            drop(rx);
            "subscribe"
        }
        ReadOp::ReopenLog => {
            let log = rip_log::EventLog::new(it.sandbox.log_path());
            if let Ok(log) = log {
                let _ = log.replay();
                let _ = log.replay_validated();
            }
            "reopen_log"
        }
        ReadOp::UnknownThread => {
            let s = &it.live.store;
            let _ = s.replay_events(UNKNOWN_THREAD);
            let _ = s.compaction_cut_points_v1(
                UNKNOWN_THREAD,
                CompactionCutPointsV1Request { stride_messages: Some(2), limit: Some(3) },
            );
            let _ = s.compaction_status_v1(UNKNOWN_THREAD, CompactionStatusV1Request { stride_messages: Some(2) });
            let _ = s.provider_cursor_status_v1(UNKNOWN_THREAD, ProviderCursorStatusV1Request {});
            let _ = s.context_selection_status_v1(UNKNOWN_THREAD, ContextSelectionStatusV1Request { limit: None });
            "unknown_thread_reads"
        }
        ReadOp::HostileId { id, which } => {
            let s = &it.live.store;
            let tid = HOSTILE_IDS[*id as usize % HOSTILE_IDS.len()];
            let w = *which;
            if w == 0 || w == 7 {
                let _ = s.replay_events(tid);
            }
            if w == 1 || w == 7 {
                let _ = s.get(tid);
            }
            if w == 2 || w == 7 {
                let _ = s.compaction_cut_points_v1(tid, CompactionCutPointsV1Request { stride_messages: Some(2), limit: Some(3) });
            }
            if w == 3 || w == 7 {
                let _ = s.compaction_status_v1(tid, CompactionStatusV1Request { stride_messages: Some(2) });
            }
            if w == 4 || w == 7 {
                let _ = s.provider_cursor_status_v1(tid, ProviderCursorStatusV1Request {});
            }
            if w == 5 || w == 7 {
                let _ = s.context_selection_status_v1(tid, ContextSelectionStatusV1Request { limit: None });
            }
            if w == 6 {
                // a mutation that must be refused (no such thread): nothing may be written
                let _ = s.append_message(tid, "user".into(), "test".into(), "to nobody".into());
            }
            "hostile_unknown_id"
        }
    }
}

// ---------------------------------------------------------------------------------------------
// HTTP group: the same rule through the real router (server.rs), incl. stream opens and
// malformed requests.
// ---------------------------------------------------------------------------------------------

#[derive(Debug, Clone, Serialize, Deserialize)]
enum HttpRead {
    Threads,
    Thread { t: u16 },
    ThreadEvents { t: u16 },
    CutPoints { t: u16, body: Value },
    Status { t: u16, body: Value },
    CursorStatus { t: u16 },
    SelectionStatus { t: u16, body: Value },
    AutoDry { t: u16, stride: Option<u64> },
    ScheduleDry { t: u16, stride: Option<u64> },
    OpenApi,
    Doctor,
    SessionEventsUnknown,
    TaskReadsUnknown,
    Malformed { t: u16, which: u8 },
    /// path-shaped unknown thread id, percent-encoded into the URL
    HostileId { id: u8, which: u8 },
}

#[derive(Debug, Clone, Serialize, Deserialize)]
struct HttpCase {
    ops: Vec<Op>,
    reads: Vec<HttpRead>,
}

fn body_s() -> BoxedStrategy<Value> {
    prop_oneof![
        Just(json!({})),
        (stride_s(), limit_s()).prop_map(|(s, l)| json!({"stride_messages": s, "limit": l})),
        Just(json!({"stride_messages": "x"})),
        Just(json!({"limit": -1})),
        Just(json!([1, 2])),
    ]
    .boxed()
}

fn http_case_strategy() -> BoxedStrategy<HttpCase> {
    let t = || any::<u16>();
    let read = prop_oneof![
        1 => Just(HttpRead::Threads),
        1 => t().prop_map(|t| HttpRead::Thread { t }),
        3 => t().prop_map(|t| HttpRead::ThreadEvents { t }),
        3 => (t(), body_s()).prop_map(|(t, body)| HttpRead::CutPoints { t, body }),
        3 => (t(), body_s()).prop_map(|(t, body)| HttpRead::Status { t, body }),
        2 => t().prop_map(|t| HttpRead::CursorStatus { t }),
        2 => (t(), body_s()).prop_map(|(t, body)| HttpRead::SelectionStatus { t, body }),
        2 => (t(), stride_s()).prop_map(|(t, stride)| HttpRead::AutoDry { t, stride }),
        2 => (t(), stride_s()).prop_map(|(t, stride)| HttpRead::ScheduleDry { t, stride }),
        1 => Just(HttpRead::OpenApi),
        1 => Just(HttpRead::Doctor),
        1 => Just(HttpRead::SessionEventsUnknown),
        1 => Just(HttpRead::TaskReadsUnknown),
        2 => (t(), 0u8..4).prop_map(|(t, which)| HttpRead::Malformed { t, which }),
        3 => (0u8..(HOSTILE_IDS.len() as u8), 0u8..7).prop_map(|(id, which)| HttpRead::HostileId { id, which }),
    ];
    (
        ops_strategy(OpWeights { restart: 0, ..OpWeights::default() }, 30),
        proptest::collection::vec(read, 1..12),
    )
        .prop_map(|(ops, reads)| HttpCase { ops, reads })
        .boxed()
}

fn run_http(case: &HttpCase) -> CaseReport {
    let mut rep = CaseReport::new();
    let mut it = Interp::new("c02h");
    let mut has_ckpt = false;
    for op in &case.ops {
        if let Ok(r) = catch(|| it.apply(op)) {
            if matches!(op, Op::ManualCheckpoint { .. } | Op::Auto { .. }) && r.result.is_ok() {
                has_ckpt = true;
            }
        }
    }
    let threads: Vec<String> = it.threads.iter().map(|t| t.id.clone()).collect();
    let data = it.sandbox.data.clone();
    let ws = it.sandbox.ws.clone();
    let log_path = it.sandbox.log_path();
    // the router owns its own engine over the same directories (an "authority restart")
    let rt = tokio::runtime::Builder::new_current_thread().enable_all().build().expect("rt");
    let tid_of = |t: u16| -> String {
        if threads.is_empty() || t % 7 == 0 {
            UNKNOWN_THREAD.to_string()
        } else {
            threads[pick(t, threads.len())].clone()
        }
    };
    rt.block_on(async {
        let router = ripd::verif::build_router(data, ws, None, false);
        for (i, r) in case.reads.iter().enumerate() {
            let before = std::fs::read(&log_path).unwrap_or_default();
            let what: &str = match r {
                HttpRead::Threads => {
                    rv::http::call(&router, Method::GET, "/threads", None).await;
                    "http_threads"
                }
                HttpRead::Thread { t } => {
                    rv::http::call(&router, Method::GET, &format!("/threads/{}", tid_of(*t)), None).await;
                    "http_thread_get"
                }
                HttpRead::ThreadEvents { t } => {
                    let path = format!("/threads/{}/events", tid_of(*t));
                    let (_s, frames, _) =
                        rv::http::sse_collect(&router, &path, Duration::from_millis(30), |p| p.len() >= 400).await;
                    rep.count("sse_frames_read", frames.len() as u64);
                    "http_thread_stream_open"
                }
                HttpRead::CutPoints { t, body } => {
                    rv::http::call(&router, Method::POST, &format!("/threads/{}/compaction-cut-points", tid_of(*t)), Some(body.clone())).await;
                    "http_cut_points"
                }
                HttpRead::Status { t, body } => {
                    rv::http::call(&router, Method::POST, &format!("/threads/{}/compaction-status", tid_of(*t)), Some(body.clone())).await;
                    "http_status"
                }
                HttpRead::CursorStatus { t } => {
                    rv::http::call(&router, Method::POST, &format!("/threads/{}/provider-cursor-status", tid_of(*t)), Some(json!({}))).await;
                    "http_cursor_status"
                }
                HttpRead::SelectionStatus { t, body } => {
                    rv::http::call(&router, Method::POST, &format!("/threads/{}/context-selection-status", tid_of(*t)), Some(body.clone())).await;
                    "http_selection_status"
                }
                HttpRead::AutoDry { t, stride } => {
                    rv::http::call(&router, Method::POST, &format!("/threads/{}/compaction-auto", tid_of(*t)),
                        Some(json!({"stride_messages": stride, "dry_run": true, "actor_id": "user", "origin": "cli"}))).await;
                    "http_auto_dry_run"
                }
                HttpRead::ScheduleDry { t, stride } => {
                    rv::http::call(&router, Method::POST, &format!("/threads/{}/compaction-auto-schedule", tid_of(*t)),
                        Some(json!({"stride_messages": stride, "dry_run": true, "actor_id": "user", "origin": "cli"}))).await;
                    "http_schedule_dry_run"
                }
                HttpRead::OpenApi => {
                    rv::http::call(&router, Method::GET, "/openapi.json", None).await;
                    "http_openapi"
                }
                HttpRead::Doctor => {
                    rv::http::call(&router, Method::GET, "/config/doctor", None).await;
                    "http_doctor"
                }
                HttpRead::SessionEventsUnknown => {
                    rv::http::call(&router, Method::GET, "/sessions/nope/events", None).await;
                    "http_session_events_unknown"
                }
                HttpRead::TaskReadsUnknown => {
                    rv::http::call(&router, Method::GET, "/tasks", None).await;
                    rv::http::call(&router, Method::GET, "/tasks/nope", None).await;
                    rv::http::call(&router, Method::GET, "/tasks/nope/output", None).await;
                    rv::http::call(&router, Method::GET, "/tasks/nope/events", None).await;
                    "http_task_reads_unknown"
                }
                HttpRead::Malformed { t, which } => {
                    let tid = tid_of(*t);
                    let (path, body): (String, &[u8]) = match which {
                        0 => (format!("/threads/{tid}/messages"), b"{not json"),
                        1 => (format!("/threads/{tid}/branch"), b"{\"from_seq\": \"x\"}"),
                        2 => (format!("/threads/{tid}/handoff"), b"[]"),
                        _ => (format!("/threads/{tid}/compaction-checkpoint"), b"{\"to_seq\": -3}"),
                    };
                    rv::http::call_raw(&router, Method::POST, &path, Some("application/json"), body.to_vec()).await;
                    "http_malformed_mutation"
                }
                HttpRead::HostileId { id, which } => {
                    let raw = HOSTILE_IDS[*id as usize % HOSTILE_IDS.len()];
                    // every byte outside the unreserved set is percent-encoded, so the router sees
                    // ONE path segment that decodes to the raw id
                    let enc: String = raw
                        .bytes()
                        .map(|b| if b.is_ascii_alphanumeric() || b == b'-' || b == b'_' { (b as char).to_string() } else { format!("%{b:02X}") })
                        .collect();
                    if enc.is_empty() {
                        rv::http::call(&router, Method::GET, "/threads//events", None).await;
                    } else {
                        match which {
                            0 => {
                                rv::http::call(&router, Method::GET, &format!("/threads/{enc}"), None).await;
                            }
                            1 => {
                                rv::http::sse_collect(&router, &format!("/threads/{enc}/events"), Duration::from_millis(20), |p| p.len() >= 50).await;
                            }
                            2 => {
                                rv::http::call(&router, Method::POST, &format!("/threads/{enc}/compaction-cut-points"), Some(json!({"stride_messages": 2}))).await;
                            }
                            3 => {
                                rv::http::call(&router, Method::POST, &format!("/threads/{enc}/compaction-status"), Some(json!({"stride_messages": 2}))).await;
                            }
                            4 => {
                                rv::http::call(&router, Method::POST, &format!("/threads/{enc}/provider-cursor-status"), Some(json!({}))).await;
                            }
                            5 => {
                                rv::http::call(&router, Method::POST, &format!("/threads/{enc}/context-selection-status"), Some(json!({}))).await;
                            }
                            _ => {
                                rv::http::call(&router, Method::POST, &format!("/threads/{enc}/messages"), Some(json!({"content": "to nobody", "actor_id": "user", "origin": "test"}))).await;
                            }
                        }
                    }
                    "http_hostile_unknown_id"
                }
            };
            let after = std::fs::read(&log_path).unwrap_or_default();
            check_delta(&before, &after, Expect::Nothing, what, i, &mut rep);
            rep.class(what);
        }
    });
    rep.nontrivial = has_ckpt || case.reads.iter().any(|r| matches!(r, HttpRead::Malformed { .. } | HttpRead::ThreadEvents { .. }));
    rep
}

include!("c02/live.rs");

fn main() {
    let mut check = Check::new("C02", "exploration");
    check.assume("read-only / no-op classification taken from the property statement and docs/03_contracts/compaction.md: status, cut-points, replay, stream open, dry_run=true, auto/schedule answering noop/dry_run, rotate with nothing to rotate, reopening the log");
    check.assume("failing mutating calls are only held to the append-only + whole-frame rule (what a failed branch/handoff may leave behind is C10's subject)");
    let rule = "history = generated continuity operations (incl. failing ones, unknown threads, invalid selectors, stride 0/huge) interleaved with read capabilities (generated parameters), cache faults and restarts; log bytes compared around every call. non-trivial = a read-only/no-op call made on a store with >=1 checkpoint/job or after a cache fault, or a failing mutating call; distinct by case hash";
    let n = check.cases(20_000, 600_000);
    check.group("history", rule, GroupOpts { cases: n, ..Default::default() }, || case_strategy(28), run);
    let n = check.cases(300, 10_000);
    check.group(
        "http",
        "store populated by a generated history, then read/stream/dry-run/malformed requests through the real router; non-trivial = store has a checkpoint, or a stream open, or a malformed mutation request",
        GroupOpts { cases: n, ..Default::default() },
        http_case_strategy,
        run_http,
    );
    let n = check.cases(240, 8_000);
    check.group(
        "live",
        "1-5 steps through the real router on a LIVE authority (stub and tool runs on a thread, plain sessions, bash background tasks with stdout/stderr/exit codes, manual and auto compaction): after every step, once all streams it started have logged their terminal frame and the log has settled, the log must extend the previous bytes by whole frames only; then 2-13 read-only requests against the still-registered handles (session / task / thread SSE streams, task list / status / output pages, thread reads, statuses, dry runs, a refused second input) must each add nothing (growth is reported only if it repeats when the request is repeated). non-trivial = >=1 session/task stream and a session/task read; distinct by case hash",
        GroupOpts { cases: n, watchdog_s: 600, max_shrink_iters: 64, ..Default::default() },
        live_case_strategy,
        run_live,
    );
    check.finish();
}
