//! C07 — run lifecycle frames are complete, unique and causally ordered.
//!
//! Each case = one authority (fresh sandbox, the real router from `ripd::verif::build_router`,
//! engine-level provider config pointing at a scripted provider or none) + 1–3 posts on ONE thread
//! (sequential or concurrent) + optional background compaction jobs + an optional plain session
//! (`POST /sessions` + `/input`). After quiescence the oracle reads the raw truth log
//! (`events.jsonl`, file order = global order) with its own reader and checks the lifecycle rules of
//! docs/03_contracts/event_frames.md ("Invariants") and of the property statement.
//!
//! The provider script is a flat list of generated turns served in request-arrival order; which
//! turn reaches which run is irrelevant for the verdict (the verdict is a function of the log
//! only); classes are computed from what was actually served / logged.

use std::collections::BTreeMap;
use std::time::{Duration, Instant};

use axum::http::{Method, StatusCode};
use proptest::prelude::*;
use ripd::verif::ToolChoiceParam;
use ripd::CompactionCheckpointCumulativeV1Request;
use rv::engine::{pick, CaseReport, Check, GroupOpts};
use rv::provider::{partition, sse_done, sse_json, Provider, Reply};
use rv::runs::{provider_config, runtime, Authority};
use rv::store::{Sandbox, UNKNOWN_THREAD};
use serde::{Deserialize, Serialize};
use serde_json::{json, Value};

/// F12: a second `POST /sessions/{id}/input` on the same session id starts a second run on the
/// same stream (two `session_started`, duplicate seqs, two `session_ended`). Cases in exactly that
/// region do not send the second input; they are counted (`excluded_known_second_input`).
/// The pinned reproducer (`allow_known: true`) sends it when the finding is registered in
/// known_findings.json or when it is replayed explicitly with `--replay`.
const EXCLUDE_KNOWN_SECOND_INPUT: bool = false;
const SIG_SECOND_INPUT: &str = "session|second_input|duplicate_start";

const QUIESCE: Duration = Duration::from_secs(20);

thread_local! {
    /// runtime of the code under test (router, session tasks, job tasks): its alive-task count is
    /// the deterministic "everything the case started has terminated" signal
    static RT: tokio::runtime::Runtime = runtime(2);
    /// the scripted provider lives on its own runtime so that it never counts as an alive task
    static PRT: tokio::runtime::Runtime = runtime(1);
}

fn alive_tasks() -> usize {
    tokio::runtime::Handle::current().metrics().num_alive_tasks()
}

// ---------------------------------------------------------------------------------------------
// case
// ---------------------------------------------------------------------------------------------

#[derive(Debug, Clone, Serialize, Deserialize, PartialEq)]
#[serde(rename_all = "snake_case")]
enum EngineCfg {
    /// no engine-level provider (prompts run the kernel stub unless the post carries an override)
    None,
    Auto { stateless: bool },
    /// tool_choice "none": every function call is rejected by tool_choice
    ChoiceNone,
    /// tool_choice {type:function,name:"read"}: only `read` may run
    ChoiceOnlyRead,
}

#[derive(Debug, Clone, Serialize, Deserialize, PartialEq)]
#[serde(rename_all = "snake_case")]
enum Pre {
    None,
    /// thread pre-populated (public store API, before the router exists) with two messages and a
    /// cumulative checkpoint; `delete_blob` removes the checkpoint's summary artifact blob so that
    /// context compilation fails for every provider-backed prompt run on the thread
    Checkpoint { delete_blob: bool },
}

#[derive(Debug, Clone, Serialize, Deserialize, PartialEq)]
#[serde(rename_all = "snake_case")]
enum CallTool {
    Write,
    WriteAppend,
    ApplyPatchAdd,
    ReadSeed,
    ReadMissing,
    Ls,
    Grep,
    BashEcho,
    BashExit3,
    BashSleep,
    Unknown,
    InvalidJsonArgs,
    WrongTypeArgs,
}

#[derive(Debug, Clone, Serialize, Deserialize, PartialEq)]
struct Call {
    tool: CallTool,
    /// 0: added + arguments.delta x2 + item.done(arguments "")   1: added + arguments.done + item.done(full)
    /// 2: item.done(full) only                                   3: added + item.done(full), duplicate arguments.done
    style: u8,
    /// item carries an `id` (false => only call_id; schema-invalid under strict validation)
    item_id: bool,
}

#[derive(Debug, Clone, Serialize, Deserialize, PartialEq)]
#[serde(rename_all = "snake_case")]
enum Noise {
    Comment,
    InvalidJson,
    SchemaMissingFields,
    SchemaUnknownType,
    NoType,
    NonObject,
    EventNameMismatch,
}

#[derive(Debug, Clone, Serialize, Deserialize, PartialEq)]
#[serde(rename_all = "snake_case")]
enum End {
    CompletedDone,
    /// `response.completed` but no `[DONE]`
    NoDone,
    /// nothing after the body (no completed, no `[DONE]`)
    Bare,
    /// `[DONE]` inserted at a generated position inside the body; the rest still follows
    EarlyDone { at: u16 },
    /// `response.failed` + `[DONE]`
    Failed,
}

#[derive(Debug, Clone, Serialize, Deserialize, PartialEq)]
#[serde(rename_all = "snake_case")]
enum Transport {
    Ok,
    Http { status: u16, body: u8 },
    /// 200 with zero body bytes
    Empty,
    /// connection closed abruptly after pick(at, len+1) body bytes
    Drop { at: u16 },
    /// the same stream framed with CRLF line ends, complete
    CrlfOk,
    /// CRLF framing, the body ends (cleanly) right AFTER one of the last carriage returns
    /// (`back` = 0 the very last one: a final event whose blank line lacks only its LF)
    CrlfDropAfterCr { back: u8 },
}

#[derive(Debug, Clone, Serialize, Deserialize, PartialEq)]
struct Turn {
    /// 0: full `response.created` with id   1: minimal {response:{id}}   2: no created event (no id)
    created: u8,
    text: Vec<String>,
    calls: Vec<Call>,
    /// (position choice, kind)
    noise: Vec<(u16, Noise)>,
    end: End,
    transport: Transport,
    cuts: Vec<u16>,
}

#[derive(Debug, Clone, Serialize, Deserialize, PartialEq)]
#[serde(rename_all = "snake_case")]
enum ToolEnv {
    Write,
    ApplyPatchAdd,
    ReadSeed,
    ReadMissing,
    Ls,
    BashEcho,
    BashExit3,
    Unknown,
    /// `args` has the wrong shape for the tool
    InvalidArgs,
    /// no `args` member at all (defaults to null)
    NoArgs,
    /// bash `sleep 0.25` with timeout_ms 15
    TimeoutTiny,
    /// write with timeout_ms 0
    TimeoutZero,
    /// ls with a generous timeout
    TimeoutGenerous,
    /// valid envelope with unknown extra members and surrounding whitespace
    ExtraMembers,
}

#[derive(Debug, Clone, Serialize, Deserialize, PartialEq)]
#[serde(rename_all = "snake_case")]
enum CkEnv {
    CreateSeed,
    CreateMissing,
    CreateEmpty,
    RewindUnknown,
    RewindUuid,
}

#[derive(Debug, Clone, Serialize, Deserialize, PartialEq)]
#[serde(rename_all = "snake_case")]
enum Input {
    Prompt { text: String },
    Tool { env: ToolEnv },
    Checkpoint { env: CkEnv },
    /// starts with '{' but is neither envelope => handled as a prompt
    Malformed { which: u8 },
}

#[derive(Debug, Clone, Serialize, Deserialize, PartialEq)]
struct Override {
    stateless: Option<bool>,
    model: bool,
    parallel_tool_calls: Option<bool>,
}

#[derive(Debug, Clone, Serialize, Deserialize, PartialEq)]
struct Post {
    input: Input,
    /// per-post `openresponses` override (endpoint = the scripted provider)
    over: Option<Override>,
    /// provider conversation for this post (used when the input is handled as a prompt)
    turns: Vec<Turn>,
    /// POST /sessions/{run session}/cancel: 0 never, 1 right after the 202, 2 a few ms later,
    /// 3 after the run ended. The handler only unregisters the session handle: the run itself
    /// must still complete its lifecycle, so the oracle is unchanged.
    #[serde(default)]
    cancel: u8,
    /// POST /sessions/{run session}/input on the session a thread post created: 0 never, 1 right
    /// after the 202, 2 after the run ended. The run is the session's one run: the input must be
    /// refused; if it is accepted the lifecycle oracle sees whatever the second run logs.
    #[serde(default)]
    extra_input: u8,
}

#[derive(Debug, Clone, Serialize, Deserialize, PartialEq)]
#[serde(rename_all = "snake_case")]
enum Fallback {
    Text,
    Http500,
    /// every further request answers with one `ls` call => the loop hits the tool-call cap
    ToolLoop,
}

#[derive(Debug, Clone, Serialize, Deserialize, PartialEq)]
struct JobReq {
    /// issued after post index pick(at, posts+1) (sequential) / inside the concurrent batch
    at: u16,
    schedule: bool,
    stride: u64,
    max_new: u32,
    execute: bool,
    block: bool,
}

#[derive(Debug, Clone, Serialize, Deserialize, PartialEq)]
struct Plain {
    input: Input,
    turns: Vec<Turn>,
    /// F12 region: send a second input to the same session id
    second_input: bool,
}

#[derive(Debug, Clone, Serialize, Deserialize, PartialEq)]
struct Case {
    engine: EngineCfg,
    pre: Pre,
    posts: Vec<Post>,
    parallel: bool,
    fallback: Fallback,
    jobs: Vec<JobReq>,
    plain: Option<Plain>,
    /// 0 none, 1 post to an unknown thread, 2 malformed post body
    bad_post: u8,
    #[serde(default)]
    allow_known: bool,
}

// ---------------------------------------------------------------------------------------------
// strategies
// ---------------------------------------------------------------------------------------------

fn small_text() -> BoxedStrategy<String> {
    prop_oneof![
        8 => "[a-z ]{1,16}".prop_map(|s| s),
        2 => rv::gen::text::text(10),
        1 => Just(String::new()),
    ]
    .boxed()
}

fn call_tool_s() -> BoxedStrategy<CallTool> {
    prop_oneof![
        5 => Just(CallTool::Write),
        1 => Just(CallTool::WriteAppend),
        2 => Just(CallTool::ApplyPatchAdd),
        2 => Just(CallTool::ReadSeed),
        1 => Just(CallTool::ReadMissing),
        2 => Just(CallTool::Ls),
        1 => Just(CallTool::Grep),
        2 => Just(CallTool::BashEcho),
        1 => Just(CallTool::BashExit3),
        1 => Just(CallTool::BashSleep),
        2 => Just(CallTool::Unknown),
        2 => Just(CallTool::InvalidJsonArgs),
        1 => Just(CallTool::WrongTypeArgs),
    ]
    .boxed()
}

fn call_s() -> BoxedStrategy<Call> {
    (call_tool_s(), 0u8..4, prop::bool::weighted(0.85))
        .prop_map(|(tool, style, item_id)| Call { tool, style, item_id })
        .boxed()
}

fn noise_s() -> BoxedStrategy<Noise> {
    prop_oneof![
        2 => Just(Noise::Comment),
        3 => Just(Noise::InvalidJson),
        2 => Just(Noise::SchemaMissingFields),
        2 => Just(Noise::SchemaUnknownType),
        1 => Just(Noise::NoType),
        1 => Just(Noise::NonObject),
        1 => Just(Noise::EventNameMismatch),
    ]
    .boxed()
}

fn cuts_s() -> BoxedStrategy<Vec<u16>> {
    prop_oneof![
        3 => Just(Vec::new()),
        4 => proptest::collection::vec(any::<u16>(), 1..4),
    ]
    .boxed()
}

/// A turn that keeps the loop going: transport ok, has a response id, >=1 function call, reaches
/// the calls (no early DONE before them).
fn continuing_turn_s() -> BoxedStrategy<Turn> {
    (
        0u8..2,
        proptest::collection::vec(small_text(), 0..3),
        proptest::collection::vec(call_s(), 1..4),
        proptest::collection::vec((any::<u16>(), noise_s()), 0..2),
        prop_oneof![4 => Just(End::CompletedDone), 1 => Just(End::NoDone), 1 => Just(End::Bare)],
        cuts_s(),
    )
        .prop_map(|(created, text, calls, noise, end, cuts)| Turn {
            created,
            text,
            calls,
            noise,
            end,
            transport: Transport::Ok,
            cuts,
        })
        .boxed()
}

fn final_turn_s() -> BoxedStrategy<Turn> {
    let transport = prop_oneof![
        12 => Just(Transport::Ok),
        4 => (prop::sample::select(vec![400u16, 401, 404, 429, 500, 503]), prop_oneof![3 => 0u8..3, 3 => 3u8..24])
            .prop_map(|(status, body)| Transport::Http { status, body }),
        2 => Just(Transport::Empty),
        4 => any::<u16>().prop_map(|at| Transport::Drop { at }),
        1 => Just(Transport::CrlfOk),
        5 => prop_oneof![3 => Just(0u8), 1 => 1u8..4].prop_map(|back| Transport::CrlfDropAfterCr { back }),
    ];
    let end = prop_oneof![
        8 => Just(End::CompletedDone),
        2 => Just(End::NoDone),
        1 => Just(End::Bare),
        2 => any::<u16>().prop_map(|at| End::EarlyDone { at }),
        1 => Just(End::Failed),
    ];
    (
        prop_oneof![5 => Just(0u8), 2 => Just(1u8), 1 => Just(2u8)],
        proptest::collection::vec(small_text(), 0..4),
        // a final turn may also carry calls: the conversation then runs into the fallback
        prop_oneof![5 => Just(Vec::new()), 2 => proptest::collection::vec(call_s(), 1..3)],
        proptest::collection::vec((any::<u16>(), noise_s()), 0..3),
        end,
        transport,
        cuts_s(),
    )
        .prop_map(|(created, text, calls, noise, end, transport, cuts)| Turn {
            created,
            text,
            calls,
            noise,
            end,
            transport,
            cuts,
        })
        .boxed()
}

fn turns_s() -> BoxedStrategy<Vec<Turn>> {
    (
        prop_oneof![3 => Just(0usize), 4 => Just(1usize), 2 => Just(2usize), 1 => Just(3usize)],
        proptest::collection::vec(continuing_turn_s(), 3),
        final_turn_s(),
    )
        .prop_map(|(n, mut cont, last)| {
            cont.truncate(n);
            cont.push(last);
            cont
        })
        .boxed()
}

fn tool_env_s() -> BoxedStrategy<ToolEnv> {
    prop_oneof![
        4 => Just(ToolEnv::Write),
        1 => Just(ToolEnv::ApplyPatchAdd),
        1 => Just(ToolEnv::ReadSeed),
        1 => Just(ToolEnv::ReadMissing),
        1 => Just(ToolEnv::Ls),
        2 => Just(ToolEnv::BashEcho),
        1 => Just(ToolEnv::BashExit3),
        2 => Just(ToolEnv::Unknown),
        2 => Just(ToolEnv::InvalidArgs),
        1 => Just(ToolEnv::NoArgs),
        3 => Just(ToolEnv::TimeoutTiny),
        1 => Just(ToolEnv::TimeoutZero),
        1 => Just(ToolEnv::TimeoutGenerous),
        1 => Just(ToolEnv::ExtraMembers),
    ]
    .boxed()
}

fn ck_env_s() -> BoxedStrategy<CkEnv> {
    prop_oneof![
        3 => Just(CkEnv::CreateSeed),
        1 => Just(CkEnv::CreateMissing),
        1 => Just(CkEnv::CreateEmpty),
        2 => Just(CkEnv::RewindUnknown),
        1 => Just(CkEnv::RewindUuid),
    ]
    .boxed()
}

fn input_s() -> BoxedStrategy<Input> {
    prop_oneof![
        9 => small_text().prop_map(|text| Input::Prompt { text }),
        5 => tool_env_s().prop_map(|env| Input::Tool { env }),
        2 => ck_env_s().prop_map(|env| Input::Checkpoint { env }),
        2 => (0u8..6).prop_map(|which| Input::Malformed { which }),
    ]
    .boxed()
}

fn post_s() -> BoxedStrategy<Post> {
    let over = prop_oneof![
        3 => Just(None),
        1 => (proptest::option::of(any::<bool>()), any::<bool>(), proptest::option::of(any::<bool>()))
            .prop_map(|(stateless, model, parallel_tool_calls)| Some(Override { stateless, model, parallel_tool_calls })),
    ];
    (
        input_s(),
        over,
        turns_s(),
        prop_oneof![6 => Just(0u8), 1 => Just(1u8), 1 => Just(2u8), 1 => Just(3u8)],
        prop_oneof![8 => Just(0u8), 1 => Just(1u8), 1 => Just(2u8)],
    )
        .prop_map(|(input, over, turns, cancel, extra_input)| {
            // a cancelled handle is unregistered (404 for any input): keep the two apart
            let extra_input = if cancel == 1 || cancel == 2 { 0 } else { extra_input };
            Post { input, over, turns, cancel, extra_input }
        })
        .boxed()
}

fn case_strategy() -> BoxedStrategy<Case> {
    let engine = prop_oneof![
        2 => Just(EngineCfg::None),
        7 => Just(EngineCfg::Auto { stateless: false }),
        2 => Just(EngineCfg::Auto { stateless: true }),
        1 => Just(EngineCfg::ChoiceNone),
        1 => Just(EngineCfg::ChoiceOnlyRead),
    ];
    let pre = prop_oneof![
        7 => Just(Pre::None),
        1 => Just(Pre::Checkpoint { delete_blob: false }),
        2 => Just(Pre::Checkpoint { delete_blob: true }),
    ];
    let fallback = prop_oneof![
        7 => Just(Fallback::Text),
        2 => Just(Fallback::Http500),
        2 => Just(Fallback::ToolLoop),
    ];
    let job = (any::<u16>(), any::<bool>(), 1u64..3, 1u32..3, prop::bool::weighted(0.8), any::<bool>())
        .prop_map(|(at, schedule, stride, max_new, execute, block)| JobReq { at, schedule, stride, max_new, execute, block });
    let jobs = prop_oneof![
        3 => Just(Vec::new()),
        1 => proptest::collection::vec(job, 1..3),
    ];
    let plain = prop_oneof![
        3 => Just(None),
        1 => (input_s(), turns_s(), prop::bool::weighted(0.3))
            .prop_map(|(input, turns, second_input)| Some(Plain { input, turns, second_input })),
    ];
    (
        engine,
        pre,
        prop_oneof![
            3 => proptest::collection::vec(post_s(), 1),
            3 => proptest::collection::vec(post_s(), 2),
            2 => proptest::collection::vec(post_s(), 3),
        ],
        prop::bool::weighted(0.35),
        fallback,
        jobs,
        plain,
        prop_oneof![6 => Just(0u8), 1 => Just(1u8), 1 => Just(2u8)],
    )
        .prop_map(|(engine, pre, posts, parallel, fallback, jobs, plain, bad_post)| Case {
            engine,
            pre,
            posts,
            parallel,
            fallback,
            jobs,
            plain,
            bad_post,
            allow_known: false,
        })
        .boxed()
}

// ---------------------------------------------------------------------------------------------
// rendering: inputs and provider replies
// ---------------------------------------------------------------------------------------------

const SEED_FILE: &str = "seed.txt";

fn render_input(input: &Input, tag: &str) -> String {
    match input {
        Input::Prompt { text } => {
            // never let a generated prompt look like an envelope by accident
            if text.trim_start().starts_with('{') {
                format!("p {text}")
            } else {
                text.clone()
            }
        }
        Input::Tool { env } => match env {
            ToolEnv::Write => json!({"tool":"write","args":{"path": format!("env_{tag}.txt"), "content":"from envelope"}}).to_string(),
            ToolEnv::ApplyPatchAdd => json!({"tool":"apply_patch","args":{"patch": format!("*** Begin Patch\n*** Add File: envp_{tag}.txt\n+hi\n*** End Patch\n")}}).to_string(),
            ToolEnv::ReadSeed => json!({"tool":"read","args":{"path": SEED_FILE}}).to_string(),
            ToolEnv::ReadMissing => json!({"tool":"read","args":{"path":"missing.txt"}}).to_string(),
            ToolEnv::Ls => json!({"tool":"ls","args":{}}).to_string(),
            ToolEnv::BashEcho => json!({"tool":"bash","args":{"command":"echo hi"}}).to_string(),
            ToolEnv::BashExit3 => json!({"tool":"bash","args":{"command":"echo oops >&2; exit 3"}}).to_string(),
            ToolEnv::Unknown => json!({"tool":"no_such_tool","args":{"x":1}}).to_string(),
            ToolEnv::InvalidArgs => json!({"tool":"write","args":{"path": 5, "content": ["x"]}}).to_string(),
            ToolEnv::NoArgs => json!({"tool":"write"}).to_string(),
            ToolEnv::TimeoutTiny => json!({"tool":"bash","args":{"command":"sleep 0.25"},"timeout_ms":15}).to_string(),
            ToolEnv::TimeoutZero => json!({"tool":"write","args":{"path": format!("envz_{tag}.txt"), "content":"z"},"timeout_ms":0}).to_string(),
            ToolEnv::TimeoutGenerous => json!({"tool":"ls","args":{},"timeout_ms":10000}).to_string(),
            ToolEnv::ExtraMembers => format!(
                "  \n{}\n ",
                json!({"tool":"write","args":{"path": format!("envx_{tag}.txt"), "content":"x"},"note":"extra","n":[1,2]})
            ),
        },
        Input::Checkpoint { env } => match env {
            CkEnv::CreateSeed => json!({"checkpoint":{"action":"create","label":"snap","files":[SEED_FILE]}}).to_string(),
            CkEnv::CreateMissing => json!({"checkpoint":{"action":"create","label":"snap","files":["not_there.txt"]}}).to_string(),
            CkEnv::CreateEmpty => json!({"checkpoint":{"action":"create","label":"","files":[]}}).to_string(),
            CkEnv::RewindUnknown => json!({"checkpoint":{"action":"rewind","id":"nope"}}).to_string(),
            CkEnv::RewindUuid => json!({"checkpoint":{"action":"rewind","id":"00000000-0000-4000-8000-000000000001"}}).to_string(),
        },
        Input::Malformed { which } => match which {
            0 => "{not json}".to_string(),
            1 => json!({"tool": 5, "args": {}}).to_string(),
            2 => json!({"checkpoint":{"action":"bogus"}}).to_string(),
            3 => format!("{} trailing", json!({"tool":"ls","args":{}})),
            4 => "{}".to_string(),
            _ => json!({"checkpoint":{"action":"create","label":"x"}, "args": {}}).to_string(),
        },
    }
}

/// Is the input handled as a prompt (session.rs parse_action: trimmed text starting with '{' that
/// deserializes as a checkpoint envelope or a tool command is an action, everything else a prompt)?
fn prompt_like(input: &Input) -> bool {
    matches!(input, Input::Prompt { .. } | Input::Malformed { .. })
}

fn input_class(input: &Input) -> String {
    match input {
        Input::Prompt { .. } => "input:prompt".into(),
        Input::Tool { env } => format!("input:tool_envelope:{}", serde_json::to_value(env).ok().and_then(|v| v.as_str().map(|s| s.to_string())).unwrap_or_default()),
        Input::Checkpoint { .. } => "input:checkpoint_envelope".into(),
        Input::Malformed { .. } => "input:malformed_envelope".into(),
    }
}

fn response_obj(id: &str, status: &str) -> Value {
    json!({
        "background": false, "completed_at": null, "created_at": 0, "error": null, "frequency_penalty": 0,
        "id": id, "incomplete_details": null, "instructions": null, "max_output_tokens": null,
        "max_tool_calls": null, "metadata": {}, "model": "fixture-model", "object": "response", "output": [],
        "parallel_tool_calls": false, "presence_penalty": 0, "previous_response_id": null,
        "prompt_cache_key": null, "reasoning": null, "safety_identifier": null, "service_tier": "",
        "status": status, "store": false, "temperature": 0, "text": {"format": {"type": "text"}},
        "tool_choice": "auto", "tools": [], "top_logprobs": 0, "top_p": 0, "truncation": "auto",
        "usage": null, "user": null
    })
}

fn call_name_args(tool: &CallTool, tag: &str) -> (String, String) {
    match tool {
        CallTool::Write => ("write".into(), json!({"path": format!("w_{tag}.txt"), "content": format!("content {tag}")}).to_string()),
        CallTool::WriteAppend => ("write".into(), json!({"path": "appended.txt", "content": format!("{tag}\n"), "append": true}).to_string()),
        CallTool::ApplyPatchAdd => (
            "apply_patch".into(),
            json!({"patch": format!("*** Begin Patch\n*** Add File: p_{tag}.txt\n+hi {tag}\n*** End Patch\n")}).to_string(),
        ),
        CallTool::ReadSeed => ("read".into(), json!({"path": SEED_FILE}).to_string()),
        CallTool::ReadMissing => ("read".into(), json!({"path": "missing.txt"}).to_string()),
        CallTool::Ls => ("ls".into(), json!({}).to_string()),
        CallTool::Grep => ("grep".into(), json!({"pattern": "seed"}).to_string()),
        CallTool::BashEcho => ("bash".into(), json!({"command": format!("echo {tag}")}).to_string()),
        CallTool::BashExit3 => ("bash".into(), json!({"command": "exit 3"}).to_string()),
        CallTool::BashSleep => ("shell".into(), json!({"command": "sleep 0.05"}).to_string()),
        CallTool::Unknown => ("no_such_tool".into(), json!({"x": 1}).to_string()),
        CallTool::InvalidJsonArgs => ("write".into(), "{\"path\": \"bad.txt\", \"content\": ".to_string()),
        CallTool::WrongTypeArgs => ("write".into(), json!({"path": 7}).to_string()),
    }
}

fn noise_text(n: &Noise, seqno: u64) -> String {
    match n {
        Noise::Comment => ": keep-alive comment\n\n".to_string(),
        Noise::InvalidJson => "data: {\"type\":\"response.output_text.delta\", not json\n\n".to_string(),
        Noise::SchemaMissingFields => sse_json(&json!({"type":"response.output_text.delta"})),
        Noise::SchemaUnknownType => sse_json(&json!({"type":"response.bogus_event","sequence_number":seqno,"x":[1,2,3]})),
        Noise::NoType => "data: {\"no_type\":true}\n\n".to_string(),
        Noise::NonObject => "data: [1,2,3]\n\n".to_string(),
        Noise::EventNameMismatch => format!(
            "event: response.completed\ndata: {}\n\n",
            json!({"type":"response.output_text.delta","sequence_number":seqno,"item_id":"m","output_index":0,"content_index":0,"delta":"x","logprobs":[]})
        ),
    }
}

/// Render one turn into the reply the provider plays for request number `k`.
fn render_turn(turn: &Turn, k: usize) -> Reply {
    let rid = format!("resp_{k}");
    let mut seqno: u64 = 0;
    let mut next = || {
        seqno += 1;
        seqno
    };
    let mut head = String::new();
    match turn.created {
        0 => head.push_str(&sse_json(&json!({"type":"response.created","sequence_number":next(),"response":response_obj(&rid, "in_progress")}))),
        1 => head.push_str(&sse_json(&json!({"type":"response.created","response":{"id": rid}}))),
        _ => {}
    }
    // body items
    let mut items: Vec<String> = Vec::new();
    for (i, t) in turn.text.iter().enumerate() {
        let _ = i;
        items.push(sse_json(&json!({"type":"response.output_text.delta","sequence_number":next(),"item_id":"msg_1","output_index":0,"content_index":0,"delta":t,"logprobs":[]})));
    }
    for (j, c) in turn.calls.iter().enumerate() {
        let tag = format!("{k}_{j}");
        let (name, args) = call_name_args(&c.tool, &tag);
        let item_id = format!("fc_{tag}");
        let call_id = format!("call_{tag}");
        let oi = (j + 1) as u64;
        let item = |arguments: &str, status: &str| -> Value {
            let mut it = json!({"type":"function_call","call_id":call_id,"name":name,"arguments":arguments,"status":status});
            if c.item_id {
                it["id"] = json!(item_id);
            }
            it
        };
        // argument events are keyed by item_id; without an item id the collector keys the buffer
        // by call_id, so use that as the item_id of the argument events
        let key = if c.item_id { item_id.clone() } else { call_id.clone() };
        let mut s = String::new();
        match c.style {
            0 => {
                s.push_str(&sse_json(&json!({"type":"response.output_item.added","sequence_number":next(),"output_index":oi,"item":item("", "in_progress")})));
                let mid = args.len() / 2;
                let mut cut = mid;
                while !args.is_char_boundary(cut) {
                    cut -= 1;
                }
                s.push_str(&sse_json(&json!({"type":"response.function_call_arguments.delta","sequence_number":next(),"item_id":key,"output_index":oi,"delta":&args[..cut]})));
                s.push_str(&sse_json(&json!({"type":"response.function_call_arguments.delta","sequence_number":next(),"item_id":key,"output_index":oi,"delta":&args[cut..]})));
                s.push_str(&sse_json(&json!({"type":"response.output_item.done","sequence_number":next(),"output_index":oi,"item":item("", "completed")})));
            }
            1 => {
                s.push_str(&sse_json(&json!({"type":"response.output_item.added","sequence_number":next(),"output_index":oi,"item":item("", "in_progress")})));
                s.push_str(&sse_json(&json!({"type":"response.function_call_arguments.done","sequence_number":next(),"item_id":key,"output_index":oi,"arguments":args})));
                s.push_str(&sse_json(&json!({"type":"response.output_item.done","sequence_number":next(),"output_index":oi,"item":item(&args, "completed")})));
            }
            2 => {
                s.push_str(&sse_json(&json!({"type":"response.output_item.done","sequence_number":next(),"output_index":oi,"item":item(&args, "completed")})));
            }
            _ => {
                s.push_str(&sse_json(&json!({"type":"response.output_item.added","sequence_number":next(),"output_index":oi,"item":item("", "in_progress")})));
                s.push_str(&sse_json(&json!({"type":"response.function_call_arguments.done","sequence_number":next(),"item_id":key,"output_index":oi,"arguments":args})));
                s.push_str(&sse_json(&json!({"type":"response.function_call_arguments.done","sequence_number":next(),"item_id":key,"output_index":oi,"arguments":args})));
                s.push_str(&sse_json(&json!({"type":"response.output_item.done","sequence_number":next(),"output_index":oi,"item":item(&args, "completed")})));
            }
        }
        items.push(s);
    }
    // noise, inserted at generated positions (stable order)
    let mut ins: Vec<(usize, String)> = turn
        .noise
        .iter()
        .map(|(pos, n)| (pick(*pos, items.len() + 1), noise_text(n, 900)))
        .collect();
    if let End::EarlyDone { at } = &turn.end {
        ins.push((pick(*at, items.len() + 1), sse_done()));
    }
    ins.sort_by_key(|(p, _)| *p);
    for (p, s) in ins.into_iter().rev() {
        items.insert(p.min(items.len()), s);
    }
    let mut body = head;
    for s in &items {
        body.push_str(s);
    }
    match &turn.end {
        End::CompletedDone => {
            body.push_str(&sse_json(&json!({"type":"response.completed","sequence_number":next(),"response":response_obj(&rid, "completed")})));
            body.push_str(&sse_done());
        }
        End::NoDone | End::EarlyDone { .. } => {
            body.push_str(&sse_json(&json!({"type":"response.completed","sequence_number":next(),"response":response_obj(&rid, "completed")})));
        }
        End::Bare => {}
        End::Failed => {
            body.push_str(&sse_json(&json!({"type":"response.failed","sequence_number":next(),"response":response_obj(&rid, "failed")})));
            body.push_str(&sse_done());
        }
    }
    match &turn.transport {
        Transport::Ok => Reply::sse(partition(body.as_bytes(), &turn.cuts)),
        Transport::Http { status, body: b } => {
            // 3..: long bodies. kind = (b-3)/4, pad = (b-3)%4 ASCII bytes in front so that multi-byte
            // characters fall on every alignment relative to any byte limit the runtime applies
            let long_body: Option<Vec<u8>> = if *b >= 3 {
                let (kind, pad) = ((*b - 3) / 4, ((*b - 3) % 4) as usize);
                let mut v: Vec<u8> = "p".repeat(pad).into_bytes();
                match kind {
                    0 => v.extend("long ascii failure body ".repeat(250).into_bytes()),
                    1 => v.extend(format!("{{\"error\":{{\"message\":\"{}\",\"type\":\"rate_limit\"}}}}", "リクエストが多すぎます。しばらくしてからもう一度お試しください。".repeat(40)).into_bytes()),
                    2 => v.extend(format!("<html><body><h1>Ошибка шлюза</h1><p>{}</p></body></html>", "Сервис временно недоступен — попробуйте позже. ".repeat(60)).into_bytes()),
                    3 => v.extend("🙂 emoji failure 🙃 ".repeat(300).into_bytes()),
                    4 => {
                        v.extend("not utf-8: ".as_bytes());
                        v.extend(std::iter::repeat([0xffu8, 0xfe, 0xe3, 0x81]).take(900).flatten());
                    }
                    _ => v.extend("x".repeat(70_000).into_bytes()),
                }
                Some(v)
            } else {
                None
            };
            let mut r = Reply::error(
                *status,
                match b {
                    0 => "{\"error\":{\"message\":\"scripted failure\",\"type\":\"server_error\"}}",
                    1 => "plain text failure body",
                    _ => "",
                },
            );
            if *b == 1 {
                r.content_type = Some("text/plain".to_string());
                r.echo_request = 1;
            }
            if let Some(v) = long_body {
                r.chunks = vec![v];
                r.content_type = Some(if (*b - 3) / 4 == 2 { "text/html; charset=utf-8" } else { "application/json" }.to_string());
            }
            r
        }
        Transport::Empty => Reply::sse(Vec::new()),
        Transport::Drop { at } => {
            let mut r = Reply::sse(partition(body.as_bytes(), &turn.cuts));
            r.drop_after = Some(pick(*at, body.len() + 1));
            r
        }
        Transport::CrlfOk => Reply::sse(partition(body.replace('\n', "\r\n").as_bytes(), &turn.cuts)),
        Transport::CrlfDropAfterCr { back } => {
            let crlf = body.replace('\n', "\r\n");
            let crs: Vec<usize> = crlf.bytes().enumerate().filter(|(_, b)| *b == b'\r').map(|(i, _)| i).collect();
            // a body that simply ENDS there (clean end of the response, as a proxy that cuts a
            // stream short delivers it), not an aborted connection: the pipe's end-of-stream
            // flush runs, not the transport-error path (abrupt drops at any byte: `Drop`)
            let end = if crs.is_empty() { crlf.len() } else { crs[crs.len() - 1 - (*back as usize).min(crs.len() - 1)] + 1 };
            Reply::sse(partition(&crlf.as_bytes()[..end], &turn.cuts))
        }
    }
}

fn render_fallback(f: &Fallback) -> Reply {
    match f {
        Fallback::Text => {
            let mut body = String::new();
            body.push_str(&sse_json(&json!({"type":"response.created","sequence_number":1,"response":response_obj("resp_fallback", "in_progress")})));
            body.push_str(&sse_json(&json!({"type":"response.output_text.delta","sequence_number":2,"item_id":"msg_1","output_index":0,"content_index":0,"delta":"fallback","logprobs":[]})));
            body.push_str(&sse_json(&json!({"type":"response.completed","sequence_number":3,"response":response_obj("resp_fallback", "completed")})));
            body.push_str(&sse_done());
            Reply::sse(vec![body.into_bytes()])
        }
        Fallback::Http500 => Reply::error(500, "{\"error\":\"fallback\"}"),
        Fallback::ToolLoop => {
            let mut body = String::new();
            body.push_str(&sse_json(&json!({"type":"response.created","sequence_number":1,"response":response_obj("resp_loop", "in_progress")})));
            body.push_str(&sse_json(&json!({"type":"response.output_item.done","sequence_number":2,"output_index":0,
                "item":{"type":"function_call","id":"fc_loop","call_id":"call_loop","name":"ls","arguments":"{}","status":"completed"}})));
            body.push_str(&sse_done());
            Reply::sse(vec![body.into_bytes()])
        }
    }
}

fn turn_classes(t: &Turn, rep: &mut CaseReport) {
    match &t.transport {
        Transport::Ok => rep.class("provider:ok_stream"),
        Transport::Http { status, body } => {
            rep.class(if *status >= 500 { "provider:http_5xx" } else { "provider:http_4xx" });
            rep.class_if(*body >= 3, "provider:http_error_long_body");
        }
        Transport::Empty => rep.class("provider:empty_body"),
        Transport::Drop { .. } => rep.class("provider:connection_drop"),
        Transport::CrlfOk => rep.class("provider:crlf_stream"),
        Transport::CrlfDropAfterCr { .. } => rep.class("provider:crlf_drop_after_cr"),
    }
    if matches!(t.transport, Transport::Ok | Transport::Drop { .. } | Transport::CrlfOk | Transport::CrlfDropAfterCr { .. }) {
        match &t.end {
            End::CompletedDone => rep.class("provider:completed_done"),
            End::NoDone | End::Bare => rep.class("provider:missing_done"),
            End::EarlyDone { .. } => rep.class("provider:early_done"),
            End::Failed => rep.class("provider:response_failed"),
        }
        if !t.calls.is_empty() {
            rep.class("provider:function_calls");
        }
        if !t.text.is_empty() {
            rep.class("provider:text_deltas");
        }
        if t.created == 2 {
            rep.class("provider:no_response_id");
        }
        if t.cuts.len() > 0 {
            rep.class("provider:chunk_partition");
        }
        for (_, n) in &t.noise {
            match n {
                Noise::Comment => rep.class("provider:comment"),
                Noise::InvalidJson => rep.class("provider:invalid_json"),
                _ => rep.class("provider:schema_invalid_event"),
            }
        }
    }
}

fn turn_is_error_path(t: &Turn) -> bool {
    !matches!(t.transport, Transport::Ok)
        || !matches!(t.end, End::CompletedDone)
        || t.noise.iter().any(|(_, n)| !matches!(n, Noise::Comment))
}

// ---------------------------------------------------------------------------------------------
// driving one case
// ---------------------------------------------------------------------------------------------

#[derive(Debug, Clone)]
struct Accepted {
    idx: usize,
    message_id: String,
    session_id: String,
    content: String,
    prompt_like: bool,
    provider: bool,
}

#[derive(Debug, Clone)]
struct PlainRun {
    session_id: String,
    inputs: Vec<String>,
}

struct Driven {
    thread: String,
    accepted: Vec<Accepted>,
    rejected_wrote: Option<Value>,
    /// the post that should have been refused was accepted (then nothing is known about it)
    bad_accepted: bool,
    /// ids of the messages appended through the store API before the router existed (not posted)
    pre_messages: Vec<String>,
    plain: Option<PlainRun>,
    served: usize,
    flat_turns: Vec<Turn>,
    values: Vec<Value>,
}

fn post_provider(case: &Case, p: &Post) -> bool {
    case.engine != EngineCfg::None || p.over.is_some()
}

#[derive(Debug, PartialEq, Clone, Copy)]
enum Quiet {
    /// the awaited condition holds
    Done,
    /// every task the case started on the runtime has terminated and the condition still does not
    /// hold: it never will (no clock involved: the task count is read BEFORE the condition)
    Dead,
    Timeout,
}

async fn wait_quiet(reliable: bool, timeout: Duration, mut done: impl FnMut() -> bool) -> Quiet {
    let t0 = Instant::now();
    loop {
        let alive = alive_tasks();
        if done() {
            return Quiet::Done;
        }
        if reliable && alive == 0 {
            return Quiet::Dead;
        }
        if t0.elapsed() > timeout {
            return Quiet::Timeout;
        }
        // no point in waiting on: the provider has already served more requests than runs that
        // end can issue (judged by the caller as run|never_ends, see PROVIDER_REQUEST_BOUND)
        let served = CUR_PROVIDER_REQUESTS.with(|c| c.borrow().as_ref().map(|r| r.lock().unwrap().len())).unwrap_or(0);
        if served > PROVIDER_REQUEST_BOUND {
            return Quiet::Timeout;
        }
        tokio::time::sleep(Duration::from_millis(3)).await;
    }
}

fn log_has(auth: &Authority, ty: &str, needle: &str, at_least: usize) -> bool {
    let bytes = auth.sandbox.log_bytes();
    let text = String::from_utf8_lossy(&bytes);
    let ty = format!("\"type\":\"{ty}\"");
    text.lines().filter(|l| l.contains(&ty) && l.contains(needle)).count() >= at_least
}

async fn wait_run(auth: &Authority, reliable: bool, sid: &str, rep: &mut CaseReport) -> Result<(), String> {
    let needle = format!("\"run_session_id\":\"{sid}\"");
    match wait_quiet(reliable, QUIESCE, || log_has(auth, "continuity_run_ended", &needle, 1)).await {
        Quiet::Done => Ok(()),
        Quiet::Dead => {
            rep.class("run_task_terminated_without_run_ended");
            Ok(())
        }
        Quiet::Timeout => Err("run_ended not seen".to_string()),
    }
}

async fn wait_job(auth: &Authority, reliable: bool, job_id: &str, rep: &mut CaseReport) -> Result<(), String> {
    let needle = format!("\"job_id\":\"{job_id}\"");
    match wait_quiet(reliable, QUIESCE, || log_has(auth, "continuity_job_ended", &needle, 1)).await {
        Quiet::Done => Ok(()),
        Quiet::Dead => {
            // "ended at most once" is the claim; a job task that is gone without an end frame is
            // only counted
            rep.class("job_task_terminated_without_job_ended");
            Ok(())
        }
        Quiet::Timeout => Err("job_ended not seen".to_string()),
    }
}

async fn issue_job(auth: &Authority, thread: &str, j: &JobReq) -> Option<String> {
    let (path, body) = if j.schedule {
        (
            format!("/threads/{thread}/compaction-auto-schedule"),
            json!({"stride_messages": j.stride, "max_new_checkpoints": j.max_new, "block_on_inflight": j.block,
                   "execute": j.execute, "dry_run": false, "actor_id": "user", "origin": "test"}),
        )
    } else {
        (
            format!("/threads/{thread}/compaction-auto"),
            json!({"stride_messages": j.stride, "max_new_checkpoints": j.max_new, "dry_run": false,
                   "actor_id": "user", "origin": "test"}),
        )
    };
    let (s, v) = rv::http::call_json(&auth.router, Method::POST, &path, Some(body)).await;
    if s != StatusCode::ACCEPTED {
        return None;
    }
    // a job that will be executed in the background (its end frame is awaited)
    let executes = if j.schedule { v["execute"].as_bool().unwrap_or(false) } else { true };
    if executes {
        v["job_id"].as_str().map(|s| s.to_string())
    } else {
        None
    }
}

async fn do_post(auth: &Authority, thread: &str, content: &str, over: Option<Value>) -> (StatusCode, Value) {
    auth.post_message(thread, content, over).await
}

/// Returns Err(why) when the case could not be brought to quiescence (inconclusive).
/// A further input on the session of a thread run. Returns true when it was accepted.
async fn extra_input(auth: &Authority, reliable: bool, sid: &str, when: u8, rep: &mut CaseReport) -> bool {
    let s = auth.send_input(sid, "one more input on the run's session").await;
    rep.class(format!("extra_input:{}:{}", if when == 1 { "right_after_202" } else { "after_run_ended" }, s.as_u16()));
    if s == StatusCode::ACCEPTED {
        // let the second run log what it logs before the log is read
        let needle = format!("\"stream_id\":\"{sid}\"");
        let _ = wait_quiet(reliable, QUIESCE, || log_has(auth, "session_ended", &needle, 2)).await;
        return true;
    }
    false
}

async fn cancel_session(auth: &Authority, sid: &str, when: u8, rep: &mut CaseReport) {
    if when == 2 {
        tokio::time::sleep(Duration::from_millis(3)).await;
    }
    let (s, _) = rv::http::call_json(&auth.router, Method::POST, &format!("/sessions/{sid}/cancel"), None).await;
    rep.class(format!("cancel:{}:{}", match when { 1 => "right_after_202", 2 => "few_ms_later", _ => "after_run_ended" }, s.as_u16()));
}

// requests the scripted provider of the current case has received (read when a wait times out)
thread_local! {
    static CUR_PROVIDER_REQUESTS: std::cell::RefCell<Option<std::sync::Arc<std::sync::Mutex<Vec<rv::provider::Recorded>>>>> = const { std::cell::RefCell::new(None) };
}
/// 4 runs x (32 tool calls + scripted turns) stays far below this
const PROVIDER_REQUEST_BOUND: usize = 600;

async fn drive(case: &Case, send_second_input: bool, rep: &mut CaseReport) -> Result<Driven, String> {
    // ---- provider script: all turns of prompt-like inputs, in issue order
    let mut flat_turns: Vec<Turn> = Vec::new();
    for p in &case.posts {
        if prompt_like(&p.input) && post_provider(case, p) {
            flat_turns.extend(p.turns.iter().cloned());
        }
    }
    if let Some(pl) = &case.plain {
        if prompt_like(&pl.input) && case.engine != EngineCfg::None {
            flat_turns.extend(pl.turns.iter().cloned());
        }
    }
    let script: Vec<Reply> = flat_turns.iter().enumerate().map(|(k, t)| render_turn(t, k)).collect();
    let fallback = render_fallback(&case.fallback);
    let provider = PRT.with(|prt| {
        let h = prt.handle().clone();
        // started from a plain thread so the accept loop is spawned on the provider runtime
        std::thread::scope(|sc| sc.spawn(move || h.block_on(Provider::start(script, fallback))).join())
    })
    .map_err(|_| "provider start panicked".to_string())?;
    CUR_PROVIDER_REQUESTS.with(|c| *c.borrow_mut() = Some(provider.requests.clone()));
    // stragglers of the previous case on this runtime (closing connections) must be gone before
    // the task count can be trusted
    let reliable = wait_quiet(false, Duration::from_secs(2), || alive_tasks() == 0).await == Quiet::Done;
    if !reliable {
        rep.class("task_count_unreliable");
    }

    // ---- sandbox, optional pre-populated checkpoint, router
    let sandbox = Sandbox::new("c07");
    let mut pre_messages: Vec<String> = Vec::new();
    let _ = std::fs::write(sandbox.ws.join(SEED_FILE), b"seed line one\nseed line two\n");
    if let Pre::Checkpoint { delete_blob } = &case.pre {
        let live = sandbox.open();
        let tid = live.store.ensure_default().map_err(|e| format!("pre ensure: {e}"))?;
        let m1 = live
            .store
            .append_message(&tid, "user".into(), "test".into(), "earlier message one".into())
            .map_err(|e| format!("pre msg: {e}"))?;
        let m2 = live
            .store
            .append_message(&tid, "user".into(), "test".into(), "earlier message two".into())
            .map_err(|e| format!("pre msg: {e}"))?;
        let (_ck, art, _to_seq, _to_mid, _rule) = live
            .store
            .compaction_checkpoint_cumulative_v1(
                &tid,
                CompactionCheckpointCumulativeV1Request {
                    summary_markdown: Some("summary of earlier messages".to_string()),
                    summary_artifact_id: None,
                    to_message_id: Some(m2.clone()),
                    to_seq: None,
                    stride_messages: None,
                    actor_id: "user".to_string(),
                    origin: "test".to_string(),
                },
            )
            .map_err(|e| format!("pre checkpoint: {e}"))?;
        pre_messages.push(m1);
        pre_messages.push(m2.clone());
        if *delete_blob {
            let blob = sandbox.blob_path(&art);
            if std::fs::remove_file(&blob).is_err() {
                return Err("pre: summary blob not where expected".to_string());
            }
        }
        drop(live);
    }
    let engine_cfg = match &case.engine {
        EngineCfg::None => None,
        EngineCfg::Auto { stateless } => {
            let mut c = provider_config(provider.endpoint());
            c.stateless_history = *stateless;
            Some(c)
        }
        EngineCfg::ChoiceNone => {
            let mut c = provider_config(provider.endpoint());
            c.tool_choice = ToolChoiceParam::none();
            Some(c)
        }
        EngineCfg::ChoiceOnlyRead => {
            let mut c = provider_config(provider.endpoint());
            c.tool_choice = ToolChoiceParam::specific_function("read");
            Some(c)
        }
    };
    let auth = Authority::on(sandbox, engine_cfg);
    let thread = auth.ensure_thread().await.ok_or("ensure_thread failed")?;

    // ---- a post that must be refused: nothing may be appended
    let mut rejected_wrote = None;
    let mut bad_accepted = false;
    if case.bad_post != 0 {
        let before = auth.sandbox.log_bytes();
        let status = if case.bad_post == 1 {
            do_post(&auth, UNKNOWN_THREAD, "hello nobody", None).await.0
        } else {
            rv::http::call_raw(
                &auth.router,
                Method::POST,
                &format!("/threads/{thread}/messages"),
                Some("application/json"),
                b"{\"actor_id\":\"user\"}".to_vec(),
            )
            .await
            .0
        };
        let after = auth.sandbox.log_bytes();
        if status == StatusCode::ACCEPTED {
            // not a refusal after all: nothing to assert here (and nothing is tracked for it)
            rep.class("bad_post_was_accepted");
            bad_accepted = true;
        } else if after != before {
            rejected_wrote = Some(json!({"status": status.as_u16(), "which": case.bad_post,
                "appended": String::from_utf8_lossy(&after[before.len().min(after.len())..]).chars().take(600).collect::<String>()}));
        }
        rep.class(if case.bad_post == 1 { "rejected_post:unknown_thread" } else { "rejected_post:malformed_body" });
    }

    // ---- posts (+ jobs, + plain session)
    let endpoint = provider.endpoint();
    let over_json = |o: &Option<Override>| -> Option<Value> {
        o.as_ref().map(|o| {
            let mut v = json!({"endpoint": endpoint});
            if let Some(s) = o.stateless {
                v["stateless_history"] = json!(s);
            }
            if o.model {
                v["model"] = json!("override-model");
            }
            if let Some(p) = o.parallel_tool_calls {
                v["parallel_tool_calls"] = json!(p);
            }
            v
        })
    };
    let contents: Vec<String> = case.posts.iter().enumerate().map(|(i, p)| render_input(&p.input, &format!("p{i}"))).collect();
    let mut accepted: Vec<Accepted> = Vec::new();
    let mut job_ids: Vec<String> = Vec::new();
    let mut plain_run: Option<PlainRun> = None;
    let plain_input = case.plain.as_ref().map(|pl| render_input(&pl.input, "plain"));

    let record = |i: usize, s: StatusCode, v: &Value, accepted: &mut Vec<Accepted>, rep: &mut CaseReport| {
        if s == StatusCode::ACCEPTED {
            if let (Some(m), Some(sid)) = (v["message_id"].as_str(), v["session_id"].as_str()) {
                accepted.push(Accepted {
                    idx: i,
                    message_id: m.to_string(),
                    session_id: sid.to_string(),
                    content: contents[i].clone(),
                    prompt_like: prompt_like(&case.posts[i].input),
                    provider: post_provider(case, &case.posts[i]),
                });
                return;
            }
        }
        rep.class("post_not_accepted");
    };

    if case.parallel {
        let post_futs = case.posts.iter().enumerate().map(|(i, p)| do_post(&auth, &thread, &contents[i], over_json(&p.over)));
        let job_futs = case.jobs.iter().map(|j| issue_job(&auth, &thread, j));
        let plain_fut = async {
            if let Some(input) = &plain_input {
                let sid = auth.create_session().await?;
                let s = auth.send_input(&sid, input).await;
                if s == StatusCode::ACCEPTED {
                    return Some(PlainRun { session_id: sid, inputs: vec![input.clone()] });
                }
            }
            None
        };
        let (posts_out, jobs_out, plain_out) = tokio::join!(
            futures_util::future::join_all(post_futs),
            futures_util::future::join_all(job_futs),
            plain_fut
        );
        for (i, (s, v)) in posts_out.iter().enumerate() {
            record(i, *s, v, &mut accepted, rep);
        }
        job_ids.extend(jobs_out.into_iter().flatten());
        plain_run = plain_out;
        for a in &accepted {
            let c = case.posts[a.idx].cancel;
            if c == 1 || c == 2 {
                cancel_session(&auth, &a.session_id, c, rep).await;
            }
        }
        for a in &accepted {
            if case.posts[a.idx].extra_input == 1 {
                extra_input(&auth, reliable, &a.session_id, 1, rep).await;
            }
        }
        for a in &accepted {
            wait_run(&auth, reliable, &a.session_id, rep).await?;
            if case.posts[a.idx].extra_input == 2 {
                extra_input(&auth, reliable, &a.session_id, 2, rep).await;
            }
            if case.posts[a.idx].cancel == 3 {
                cancel_session(&auth, &a.session_id, 3, rep).await;
            }
        }
    } else {
        let n = case.posts.len();
        for slot in 0..=n {
            if slot > 0 {
                let i = slot - 1;
                let (s, v) = do_post(&auth, &thread, &contents[i], over_json(&case.posts[i].over)).await;
                let before = accepted.len();
                record(i, s, &v, &mut accepted, rep);
                if accepted.len() > before {
                    let sid = accepted[before].session_id.clone();
                    let c = case.posts[i].cancel;
                    if c == 1 || c == 2 {
                        cancel_session(&auth, &sid, c, rep).await;
                    }
                    if case.posts[i].extra_input == 1 {
                        extra_input(&auth, reliable, &sid, 1, rep).await;
                    }
                    wait_run(&auth, reliable, &sid, rep).await?;
                    if case.posts[i].extra_input == 2 {
                        extra_input(&auth, reliable, &sid, 2, rep).await;
                    }
                    if c == 3 {
                        cancel_session(&auth, &sid, 3, rep).await;
                    }
                }
            }
            for j in case.jobs.iter().filter(|j| pick(j.at, n + 1) == slot) {
                if let Some(id) = issue_job(&auth, &thread, j).await {
                    // sequential mode: let the job finish before the next post
                    wait_job(&auth, reliable, &id, rep).await?;
                    job_ids.push(id);
                }
            }
        }
        if let Some(input) = &plain_input {
            if let Some(sid) = auth.create_session().await {
                if auth.send_input(&sid, input).await == StatusCode::ACCEPTED {
                    plain_run = Some(PlainRun { session_id: sid, inputs: vec![input.clone()] });
                }
            }
        }
    }

    // ---- quiescence of the rest
    for id in &job_ids {
        wait_job(&auth, reliable, id, rep).await?;
    }
    if let Some(pr) = plain_run.as_mut() {
        let snap = auth.sandbox.data.join("snapshots").join(format!("{}.json", pr.session_id));
        match wait_quiet(reliable, QUIESCE, || snap.exists()).await {
            Quiet::Done => {}
            Quiet::Dead => rep.class("plain_task_terminated_without_snapshot"),
            Quiet::Timeout => return Err("plain session snapshot not seen".to_string()),
        }
        if send_second_input {
            let second = "second input on the same session";
            if auth.send_input(&pr.session_id, second).await == StatusCode::ACCEPTED {
                pr.inputs.push(second.to_string());
                // the snapshot already exists; wait for a second terminal frame instead
                let needle = format!("\"stream_id\":\"{}\"", pr.session_id);
                if wait_quiet(reliable, QUIESCE, || log_has(&auth, "session_ended", &needle, 2)).await == Quiet::Timeout {
                    return Err("second run did not end".to_string());
                }
            }
        }
    }
    // everything the case started has produced its closing frame (or its task is gone); let the
    // remaining tasks (e.g. closing client connections) drain, bounded, before the log is read
    if reliable {
        let drained = wait_quiet(false, Duration::from_secs(5), || alive_tasks() == 0).await == Quiet::Done;
        rep.class_if(!drained, "tasks_linger_after_quiescence");
    }
    // the snapshot of a linked run is written before its run_ended; nothing else writes now
    let values = auth.sandbox.truth_values().map_err(|e| format!("truth log unreadable: {e}"))?;
    let served = provider.recorded().len();
    Ok(Driven {
        thread,
        accepted,
        rejected_wrote,
        bad_accepted,
        pre_messages,
        plain: plain_run,
        served,
        flat_turns,
        values,
    })
}

// ---------------------------------------------------------------------------------------------
// oracle
// ---------------------------------------------------------------------------------------------

fn ty(v: &Value) -> &str {
    v.get("type").and_then(|t| t.as_str()).unwrap_or("")
}
fn s<'a>(v: &'a Value, k: &str) -> &'a str {
    v.get(k).and_then(|t| t.as_str()).unwrap_or("")
}

fn excerpt(frames: &[(usize, &Value)]) -> Value {
    Value::Array(
        frames
            .iter()
            .take(60)
            .map(|(pos, v)| {
                let mut o = json!({"pos": pos, "seq": v["seq"], "type": v["type"]});
                for k in ["reason", "tool_id", "run_session_id", "message_id", "job_id", "error", "name"] {
                    if let Some(x) = v.get(k) {
                        o[k] = x.clone();
                    }
                }
                o
            })
            .collect(),
    )
}

/// Per-session-stream rules. Returns (position of the single session_ended, its reason).
fn check_session(sid: &str, frames: &[(usize, &Value)], expect_input: Option<&str>, label: &str, rep: &mut CaseReport) -> Option<(usize, String)> {
    let detail = |why: &str| json!({"session": label, "session_id": sid, "why": why, "frames": excerpt(frames)});
    if frames.is_empty() {
        rep.fail("session|start|no_frames", detail("no frame of this session in the log"));
        return None;
    }
    // seq 0..n contiguous in file order
    for (i, (_, v)) in frames.iter().enumerate() {
        if v["seq"].as_u64() != Some(i as u64) {
            rep.fail("session|seq|not_contiguous", detail(&format!("frame #{i} has seq {}", v["seq"])));
            break;
        }
    }
    if ty(frames[0].1) != "session_started" {
        rep.fail("session|start|not_first", detail("first frame is not session_started"));
    } else if let Some(inp) = expect_input {
        if s(frames[0].1, "input") != inp {
            // not part of the statement: counted only
            rep.class("note:session_started_input_differs_from_posted_input");
        }
    }
    let starts = frames.iter().filter(|(_, v)| ty(v) == "session_started").count();
    if starts != 1 {
        rep.fail("session|start|count", detail(&format!("{starts} session_started frames")));
    }
    let ends: Vec<&(usize, &Value)> = frames.iter().filter(|(_, v)| ty(v) == "session_ended").collect();
    if ends.len() != 1 {
        rep.fail("session|end|count", detail(&format!("{} session_ended frames", ends.len())));
    }
    if ty(frames[frames.len() - 1].1) != "session_ended" {
        rep.fail("session|end|not_last", detail("last frame of the stream is not session_ended"));
    }
    // tools: every tool_started has exactly one tool_ended/tool_failed after it (before the end)
    let end_idx = frames.iter().position(|(_, v)| ty(v) == "session_ended").unwrap_or(frames.len());
    // (a tool id may legitimately recur: ids of calls rejected by tool_choice are derived from the
    // provider's call_id, which a provider may repeat; instances are paired in stream order)
    let mut open: BTreeMap<&str, usize> = BTreeMap::new();
    let mut seen_ids: Vec<&str> = Vec::new();
    for (i, (_, v)) in frames.iter().enumerate() {
        match ty(v) {
            "tool_started" => {
                let id = s(v, "tool_id");
                if seen_ids.contains(&id) {
                    rep.class("tool_id_reused_by_provider_call_id");
                }
                seen_ids.push(id);
                if open.insert(id, i).is_some() {
                    rep.fail("session|tool|duplicate_start", detail(&format!("tool_id {id} started again before it completed")));
                }
            }
            "tool_ended" | "tool_failed" => {
                let id = s(v, "tool_id");
                if open.remove(id).is_none() {
                    rep.fail("session|tool|end_without_open_start", detail(&format!("{} for tool_id {id} without an open tool_started (missing start or second end)", ty(v))));
                } else if i > end_idx {
                    rep.fail("session|tool|end_after_session_ended", detail(&format!("tool_id {id} closed after session_ended")));
                }
            }
            "tool_stdout" | "tool_stderr" => {
                let id = s(v, "tool_id");
                if !open.contains_key(id) {
                    // not part of the statement: counted only
                    rep.class("note:tool_output_chunk_outside_started_ended");
                }
            }
            _ => {}
        }
    }
    for (id, _) in &open {
        rep.fail("session|tool|unmatched_start", detail(&format!("tool_id {id} has tool_started but neither tool_ended nor tool_failed")));
    }
    if ends.len() == 1 {
        Some((ends[0].0, s(ends[0].1, "reason").to_string()))
    } else {
        None
    }
}

fn rank(t: &str) -> Option<u8> {
    match t {
        "continuity_context_selection_decided" => Some(0),
        "continuity_context_compiled" => Some(1),
        "continuity_tool_side_effects" => Some(2),
        "continuity_provider_cursor_updated" => Some(3),
        _ => None,
    }
}

fn short(t: &str) -> &str {
    t.strip_prefix("continuity_").unwrap_or(t)
}

fn oracle(case: &Case, d: &Driven, rep: &mut CaseReport) {
    let vals = &d.values;
    if let Some(w) = &d.rejected_wrote {
        rep.fail("post|rejected|appended", w.clone());
    }
    // index
    let mut sessions: BTreeMap<&str, Vec<(usize, &Value)>> = BTreeMap::new();
    let mut thread_frames: Vec<(usize, &Value)> = Vec::new();
    for (pos, v) in vals.iter().enumerate() {
        match s(v, "stream_kind") {
            "session" => sessions.entry(s(v, "stream_id")).or_default().push((pos, v)),
            "continuity" if s(v, "stream_id") == d.thread => thread_frames.push((pos, v)),
            _ => {}
        }
    }

    // ---- thread-level: spawned runs are exactly the accepted posts
    let spawned: Vec<&(usize, &Value)> = thread_frames.iter().filter(|(_, v)| ty(v) == "continuity_run_spawned").collect();
    for sp in &spawned {
        let (m, r) = (s(sp.1, "message_id"), s(sp.1, "run_session_id"));
        if !d.bad_accepted && !d.accepted.iter().any(|a| a.message_id == m && a.session_id == r) {
            rep.fail("thread|run_spawned|stray", json!({"why": "run_spawned naming no accepted post", "frame": sp.1, "accepted": d.accepted.iter().map(|a| json!([a.message_id, a.session_id])).collect::<Vec<_>>()}));
        }
    }
    let ended_all: Vec<&(usize, &Value)> = thread_frames.iter().filter(|(_, v)| ty(v) == "continuity_run_ended").collect();
    for en in &ended_all {
        let r = s(en.1, "run_session_id");
        if !d.bad_accepted && !d.accepted.iter().any(|a| a.session_id == r) {
            rep.fail("thread|run_ended|stray", json!({"why": "run_ended naming no spawned run", "frame": en.1}));
        }
    }

    // every message that reached the thread through POST /messages (i.e. every message frame other
    // than the ones appended through the store API before the router existed) has exactly one
    // run_spawned naming it - also when the HTTP answer was not 202
    for (_, m) in thread_frames.iter().filter(|(_, v)| ty(v) == "continuity_message_appended") {
        let id = s(m, "id");
        if d.pre_messages.iter().any(|p| p == id) {
            continue;
        }
        let n = spawned.iter().filter(|x| s(x.1, "message_id") == id).count();
        if n != 1 {
            rep.fail("post|run_spawned|count", json!({"why": format!("{n} run_spawned frames name posted message {id}"), "message": m}));
        }
    }

    for a in &d.accepted {
        let label = format!("post#{}", a.idx);
        let linked: Vec<(usize, &Value)> = thread_frames
            .iter()
            .filter(|(_, v)| v.get("run_session_id").and_then(|x| x.as_str()) == Some(a.session_id.as_str()))
            .cloned()
            .collect();
        let detail = |why: &str| {
            json!({"post": a.idx, "why": why, "session_id": a.session_id, "message_id": a.message_id,
                   "thread_frames_of_run": excerpt(&linked),
                   "session_frames": excerpt(sessions.get(a.session_id.as_str()).map(|v| v.as_slice()).unwrap_or(&[]))})
        };
        // message
        let msgs: Vec<&(usize, &Value)> = thread_frames
            .iter()
            .filter(|(_, v)| ty(v) == "continuity_message_appended" && s(v, "id") == a.message_id)
            .collect();
        if msgs.len() != 1 {
            rep.fail("post|message_appended|count", detail(&format!("{} continuity_message_appended frames with the returned message_id", msgs.len())));
        } else if s(msgs[0].1, "content") != a.content {
            // not part of the statement: counted only
            rep.class("note:message_content_differs_from_posted_content");
        }
        // run_spawned
        let sp: Vec<&(usize, &Value)> = linked.iter().filter(|(_, v)| ty(v) == "continuity_run_spawned").collect();
        let sp_by_msg = spawned.iter().filter(|x| s(x.1, "message_id") == a.message_id).count();
        if sp.len() != 1 || sp_by_msg != 1 {
            rep.fail("post|run_spawned|count", detail(&format!("{} run_spawned frames name the session, {} name the message", sp.len(), sp_by_msg)));
        }
        if let (Some(m), Some(sp0)) = (msgs.first(), sp.first()) {
            if s(sp0.1, "message_id") != a.message_id {
                rep.fail("post|run_spawned|message_id_mismatch", detail("run_spawned names another message"));
            }
            if sp0.0 < m.0 {
                rep.fail("post|run_spawned|before_message", detail("run_spawned precedes its message"));
            }
        }
        // session stream
        let sframes: &[(usize, &Value)] = sessions.get(a.session_id.as_str()).map(|v| v.as_slice()).unwrap_or(&[]);
        let sess_end = check_session(&a.session_id, sframes, Some(&a.content), &label, rep);
        // run_ended
        let en: Vec<&(usize, &Value)> = linked.iter().filter(|(_, v)| ty(v) == "continuity_run_ended").collect();
        if en.len() != 1 {
            rep.fail(
                if en.is_empty() { "run|run_ended|missing" } else { "run|run_ended|duplicate" },
                detail(&format!("{} run_ended frames", en.len())),
            );
        }
        let reason = sess_end.as_ref().map(|(_, r)| r.clone());
        if let Some(e0) = en.first() {
            if s(e0.1, "message_id") != a.message_id {
                rep.fail("run|run_ended|message_id_mismatch", detail("run_ended names another message"));
            }
            match &sess_end {
                Some((end_pos, r)) => {
                    if e0.0 < *end_pos {
                        rep.fail("run|run_ended|before_session_ended", detail("run_ended precedes the session's terminal frame in the log"));
                    }
                    if s(e0.1, "reason") != r {
                        rep.fail("run|run_ended|reason_mismatch", detail(&format!("run_ended.reason={:?} session_ended.reason={:?}", s(e0.1, "reason"), r)));
                    }
                }
                None => {
                    // the session rules above already failed (0 or >1 terminal frames); make the
                    // consequence for the run explicit when there is no terminal frame at all
                    if !sframes.iter().any(|(_, v)| ty(v) == "session_ended") {
                        rep.fail("run|run_ended|no_session_ended", detail("run_ended although the session has no terminal frame"));
                    } else if let Some(first_end) = sframes.iter().find(|(_, v)| ty(v) == "session_ended") {
                        if e0.0 < first_end.0 {
                            rep.fail("run|run_ended|before_session_ended", detail("run_ended precedes the session's terminal frame in the log"));
                        }
                    }
                }
            }
        }
        // span + order of run-linked thread frames
        let sp_pos = sp.first().map(|x| x.0);
        let en_pos = en.first().map(|x| x.0);
        let mut seen: Vec<(usize, &str)> = Vec::new();
        for (pos, v) in &linked {
            let t = ty(v);
            if t == "continuity_run_spawned" || t == "continuity_run_ended" {
                continue;
            }
            let Some(_) = rank(t) else {
                rep.class(format!("other_run_linked_frame:{t}"));
                continue;
            };
            if sp_pos.map(|p| *pos < p).unwrap_or(false) {
                rep.fail(format!("run|span|{}_before_run_spawned", short(t)), detail("run-linked frame precedes run_spawned"));
            }
            if en_pos.map(|p| *pos > p).unwrap_or(false) {
                rep.fail(format!("run|span|{}_after_run_ended", short(t)), detail("run-linked frame follows run_ended"));
            }
            seen.push((*pos, t));
        }
        for w in 0..seen.len() {
            for x in w + 1..seen.len() {
                let (ra, rb) = (rank(seen[w].1).unwrap_or(0), rank(seen[x].1).unwrap_or(0));
                if rb < ra {
                    rep.fail(format!("run|order|{}_after_{}", short(seen[x].1), short(seen[w].1)), detail("run-linked thread frames out of order"));
                }
            }
        }
        let count = |t: &str| seen.iter().filter(|(_, x)| *x == t).count();
        let (nsel, ncomp, ncur, nside) = (
            count("continuity_context_selection_decided"),
            count("continuity_context_compiled"),
            count("continuity_provider_cursor_updated"),
            count("continuity_tool_side_effects"),
        );
        if nsel > 1 {
            rep.fail("run|selection|duplicate", detail("more than one context_selection_decided"));
        }
        if ncomp > 1 {
            rep.fail("run|compiled|duplicate", detail("more than one context_compiled"));
        }
        if ncur > 1 {
            rep.fail("run|cursor|duplicate", detail("more than one run-linked provider_cursor_updated"));
        }
        // presence rule
        let compile_failed = reason.as_deref() == Some("context_compile_failed");
        if a.prompt_like && a.provider {
            if (nsel == 0) != (ncomp == 0) {
                rep.fail(
                    if nsel == 0 { "run|context|compiled_without_selection" } else { "run|context|selection_without_compiled" },
                    detail("selection and compilation must be recorded together"),
                );
            }
            if nsel == 0 && ncomp == 0 && !compile_failed && reason.is_some() {
                rep.fail("run|context|missing_without_compile_failure", detail("provider-backed prompt run recorded neither selection nor compilation and did not end context_compile_failed"));
            }
            if (nsel > 0 || ncomp > 0) && compile_failed {
                rep.fail("run|context|present_with_compile_failure", detail("run ended context_compile_failed but recorded a compiled context"));
            }
            if compile_failed {
                rep.class("compile_failed");
                if sframes.iter().any(|(_, v)| matches!(ty(v), "openresponses_request_started" | "tool_started" | "provider_event")) {
                    // not part of the statement: counted only
                    rep.class("note:provider_contacted_after_compile_failure");
                }
                if !matches!(case.pre, Pre::Checkpoint { delete_blob: true }) {
                    rep.class("unexpected_compile_failure");
                    rep.count("unexpected_compile_failure", 1);
                }
            } else if matches!(case.pre, Pre::Checkpoint { delete_blob: true }) && case.jobs.is_empty() && reason.is_some() {
                // (with compaction jobs in the case a newer, intact checkpoint may legitimately be
                // selected instead: no expectation then)
                rep.fail("run|context|expected_compile_failure", detail("the thread's only checkpoint lost its summary artifact, yet the run did not end context_compile_failed"));
            }
        } else if nsel > 0 || ncomp > 0 {
            rep.fail("run|context|unexpected_presence", detail("selection/compilation recorded for a run that is not a provider-backed prompt"));
        }
        // side effects: name a tool of this session, after that tool completed, at most once
        let mut side_ids: Vec<&str> = Vec::new();
        for (pos, v) in linked.iter().filter(|(_, v)| ty(v) == "continuity_tool_side_effects") {
            let id = s(v, "tool_id");
            if side_ids.contains(&id) {
                rep.fail("run|side_effects|duplicate", detail(&format!("two side-effect frames for tool_id {id}")));
            }
            side_ids.push(id);
            let closing = sframes.iter().find(|(_, f)| matches!(ty(f), "tool_ended" | "tool_failed") && s(f, "tool_id") == id);
            match closing {
                None => rep.fail("run|side_effects|unknown_tool_id", detail(&format!("side effects for tool_id {id}, which never completed in this session"))),
                Some((cpos, _)) => {
                    if pos < cpos {
                        rep.fail("run|side_effects|before_tool_end", detail(&format!("side effects for tool_id {id} precede its tool_ended/tool_failed")));
                    }
                }
            }
        }
        // classes
        if let Some(r) = &reason {
            rep.class(format!("end:{r}"));
        }
        rep.class_if(nside > 0, "side_effects_logged");
        rep.class_if(ncur > 0, "cursor_updated");
        rep.class_if(nsel > 0 && ncomp > 0, "context_selected_and_compiled");
        let via_provider = sframes.iter().any(|(_, v)| ty(v) == "openresponses_request_started");
        for (_, v) in sframes {
            match ty(v) {
                "tool_started" => {
                    if via_provider {
                        rep.class("tool_started_in_loop");
                    }
                }
                "tool_ended" => {
                    let code = v["exit_code"].as_i64().unwrap_or(-1);
                    rep.class(match code {
                        0 => "tool:ok",
                        2 => "tool:exit2_invalid_args",
                        _ => "tool:exit_nonzero",
                    });
                    if via_provider {
                        rep.class("tool_executed");
                    }
                }
                "tool_failed" => {
                    let e = s(v, "error");
                    rep.class(if e == "unknown tool" {
                        "tool:unknown_tool"
                    } else if e == "timeout" {
                        "tool:timeout"
                    } else if e.contains("rejected by tool_choice") {
                        "tool:rejected_by_tool_choice"
                    } else {
                        "tool:failed_other"
                    });
                }
                "checkpoint_created" => rep.class("checkpoint:created"),
                "checkpoint_rewound" => rep.class("checkpoint:rewound"),
                "checkpoint_failed" => rep.class("checkpoint:failed"),
                _ => {}
            }
        }
    }

    // ---- plain session
    if let Some(pr) = &d.plain {
        let sframes: &[(usize, &Value)] = sessions.get(pr.session_id.as_str()).map(|v| v.as_slice()).unwrap_or(&[]);
        if pr.inputs.len() > 1 {
            // F12 region (only reached by the pinned reproducer / explicit replay)
            let starts = sframes.iter().filter(|(_, v)| ty(v) == "session_started").count();
            let ends = sframes.iter().filter(|(_, v)| ty(v) == "session_ended").count();
            let mut seqs: Vec<u64> = sframes.iter().filter_map(|(_, v)| v["seq"].as_u64()).collect();
            let n = seqs.len();
            seqs.sort_unstable();
            seqs.dedup();
            if starts > 1 || ends > 1 || seqs.len() != n {
                rep.fail(
                    SIG_SECOND_INPUT,
                    json!({"why": "a second POST /sessions/{id}/input started a second run on the same stream",
                           "session_started": starts, "session_ended": ends, "frames": n, "distinct_seqs": seqs.len(),
                           "frames_excerpt": excerpt(sframes)}),
                );
            } else {
                check_session(&pr.session_id, sframes, None, "plain", rep);
            }
        } else {
            let end = check_session(&pr.session_id, sframes, Some(&pr.inputs[0]), "plain", rep);
            if let Some((_, r)) = end {
                rep.class(format!("plain_end:{r}"));
            }
        }
        // a session that is not attached to a thread leaves no continuity frame
        if vals.iter().any(|v| s(v, "stream_kind") == "continuity" && v.get("run_session_id").and_then(|x| x.as_str()) == Some(pr.session_id.as_str())) {
            rep.fail("plain|continuity|linked_frame", json!({"why": "a continuity frame names a session that was never attached to a thread", "session_id": pr.session_id}));
        }
        rep.class("plain_session");
    }

    // ---- no session stream beyond the ones this case started
    for (sid, frames) in &sessions {
        if !d.bad_accepted && !d.accepted.iter().any(|a| a.session_id == *sid) && d.plain.as_ref().map(|p| p.session_id.as_str()) != Some(*sid) {
            rep.fail("session|stray|unknown_stream", json!({"why": "session stream that no request of the case started", "session_id": sid, "frames": excerpt(frames)}));
        }
    }

    // ---- background jobs (all continuity streams)
    let mut job_spawned: BTreeMap<&str, usize> = BTreeMap::new();
    let mut job_ended: BTreeMap<&str, usize> = BTreeMap::new();
    for (pos, v) in vals.iter().enumerate() {
        match ty(v) {
            "continuity_job_spawned" => {
                job_spawned.entry(s(v, "job_id")).or_insert(pos);
            }
            "continuity_job_ended" => {
                let id = s(v, "job_id");
                if job_ended.insert(id, pos).is_some() {
                    rep.fail("job|ended|duplicate", json!({"why": "two continuity_job_ended frames for one job", "job_id": id}));
                }
                if !job_spawned.contains_key(id) {
                    rep.fail("job|ended|without_spawned", json!({"why": "job_ended without a preceding job_spawned", "job_id": id}));
                }
                rep.class(format!("job_ended:{}", s(v, "status")));
            }
            _ => {}
        }
    }
    rep.class_if(!job_spawned.is_empty(), "job_spawned");
    rep.class_if(job_spawned.len() > job_ended.len(), "job_left_inflight");
    rep.count("jobs_spawned", job_spawned.len() as u64);
    rep.count("runs_checked", d.accepted.len() as u64);
}

fn run(case: &Case, known_registered: bool, explicit_replay: bool) -> CaseReport {
    let mut rep = CaseReport::new();
    // F12 region
    let wants_second = case.plain.as_ref().map(|p| p.second_input).unwrap_or(false);
    let send_second = wants_second && (!EXCLUDE_KNOWN_SECOND_INPUT || (case.allow_known && (known_registered || explicit_replay)));
    if wants_second && !send_second {
        rep.count("excluded_known_second_input", 1);
        rep.class("excluded:second_input_same_session");
    }
    if send_second {
        rep.class("second_input_same_session");
    }

    let driven = RT.with(|rt| rt.block_on(drive(case, send_second, &mut rep)));
    let d = match driven {
        Ok(d) => d,
        Err(why) => {
            // a wait that timed out is inconclusive - unless the count of provider requests shows
            // that a run is not going to end: every run has a budget of 32 tool calls (one provider
            // request per round), a case starts at most 4 runs, so a few hundred requests cannot
            // be reached by runs that end. This is a count, not a clock: a slow machine issues
            // fewer requests, never more.
            let served = CUR_PROVIDER_REQUESTS.with(|c| c.borrow().as_ref().map(|r| r.lock().unwrap().len())).unwrap_or(0);
            if served > PROVIDER_REQUEST_BOUND {
                rep.fail(
                    "run|never_ends|provider_requests_beyond_every_budget",
                    json!({"provider_requests": served, "bound": PROVIDER_REQUEST_BOUND, "wait": why,
                        "engine": format!("{:?}", case.engine), "fallback": format!("{:?}", case.fallback)}),
                );
                return rep;
            }
            rep.inconclusive(&why);
            return rep;
        }
    };

    // classes from what was issued / served
    for p in &case.posts {
        rep.class(input_class(&p.input));
        rep.class_if(matches!(p.input, Input::Tool { .. }), "input:tool_envelope");
        rep.class_if(p.over.is_some(), "provider_override_on_post");
    }
    rep.class(format!("posts:{}", case.posts.len()));
    rep.class_if(case.parallel && case.posts.len() > 1, "parallel_posts");
    rep.class(match &case.engine {
        EngineCfg::None => "engine:none",
        EngineCfg::Auto { .. } => "engine:auto",
        EngineCfg::ChoiceNone => "engine:tool_choice_none",
        EngineCfg::ChoiceOnlyRead => "engine:tool_choice_only_read",
    });
    rep.class_if(matches!(case.engine, EngineCfg::Auto { stateless: true }), "engine:stateless_history");
    match &case.pre {
        Pre::None => {}
        Pre::Checkpoint { delete_blob: false } => rep.class("pre:checkpoint_intact"),
        Pre::Checkpoint { delete_blob: true } => rep.class("pre:checkpoint_blob_deleted"),
    }
    let served_turns = d.served.min(d.flat_turns.len());
    for t in &d.flat_turns[..served_turns] {
        turn_classes(t, &mut rep);
    }
    rep.class_if(d.served > d.flat_turns.len(), "provider:fallback_served");
    rep.count("provider_requests", d.served as u64);

    oracle(case, &d, &mut rep);

    let scripted_nontrivial = d.flat_turns[..served_turns].iter().any(|t| !t.calls.is_empty() || turn_is_error_path(t));
    if std::env::var_os("C07_TRACE").is_some() {
        eprintln!("[c07] classes={:?} counters={:?} fails={:?}", rep.classes, rep.counters, rep.fails.iter().map(|f| &f.sig).collect::<Vec<_>>());
    }
    rep.nontrivial = scripted_nontrivial
        || rep.classes.iter().any(|c| c == "compile_failed" || c == "parallel_posts" || c == "tool_executed" || c == "provider:fallback_served");
    rep
}

fn main() {
    let mut check = Check::new("C07", "exploration");
    check.assume("oracle source: docs/03_contracts/event_frames.md 'Invariants' (seq from 0 by 1; session_ended terminal; side effects after tool_ended/tool_failed and before run_ended; selection after run_spawned and before compiled; compiled / run-linked cursor update before run_ended; job_ended at most once per job) + the property statement (exactly one run_spawned per accepted post, exactly one run_ended after the session's terminal frame with the same reason, selection < compiled < side effects < cursor update)");
    check.assume("presence rule derived from session.rs run_session: context selection and compilation are recorded (both or neither) only for a thread-linked run whose input is handled as a prompt (not a tool/checkpoint envelope per parse_action) and for which a provider is configured (engine-level config or per-post openresponses override); when compilation fails neither is recorded and the session ends 'context_compile_failed' without contacting the provider. A checkpoint whose summary blob was deleted is expected to make compilation fail; a compile failure without injected fault is only counted");
    check.assume("global order = line order of events.jsonl read by an independent reader after quiescence (every accepted post has its run_ended frame, every executed job its job_ended frame, the plain session its snapshot); a wait that times out (20 s) makes the case inconclusive, never a violation");
    check.assume("the scripted provider serves turns in request-arrival order; which turn reaches which run does not enter the verdict. Tool completeness of continuity_tool_side_effects (every mutating tool logged) is C11's subject; here only uniqueness per tool_id, membership and order are checked");
    check.assume("F12 (second input on one session id restarts the stream) is excluded by construction: cases in that region do not send the second input (counted as excluded_known_second_input)");
    let known_registered = check.known().matches(SIG_SECOND_INPUT).is_some();
    let explicit_replay = check.args.replay.is_some();
    if !known_registered && !explicit_replay {
        check.note("finding 'session|second_input|duplicate_start' is not registered in known_findings.json: the pinned reproducer replays/known/C07/F12_second_input.json runs with the second input suppressed until it is (replay it explicitly with --replay to see the violation)");
    }
    let rule = "case = engine provider config (none / auto / stateless / tool_choice none / only read) x optional pre-existing checkpoint (intact / summary blob deleted) x 1-3 posts on one thread (sequential or concurrent; prompt, tool envelope, checkpoint envelope, malformed envelope; optional per-post provider override) each with a 1-4 turn provider conversation from the SSE grammar (text, 0-3 function calls in 4 wire styles, comments, invalid JSON, schema-invalid events, completed / no [DONE] / early [DONE] / failed, HTTP 4xx/5xx, empty body, drop at byte k, chunk partition) x fallback (text / 500 / endless tool loop) x compaction jobs x plain session x refused post. non-trivial = a served turn with >=1 function call or an error path, or a compile failure, or concurrent posts, or the fallback was reached; distinct by case hash";
    let n = check.cases(600, 12_000);
    check.group(
        "lifecycle",
        rule,
        GroupOpts { cases: n, max_shrink_iters: 48, watchdog_s: 900, ..Default::default() },
        case_strategy,
        move |case: &Case| run(case, known_registered, explicit_replay),
    );
    check.finish();
}
