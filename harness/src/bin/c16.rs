//! C16 — the tool loop answers each provider call exactly once; never runs a barred tool.
//!
//! One case = one authority (fresh sandbox, real router, engine-level provider config pointing at
//! the scripted provider E5) + one prompt run + a generated provider conversation of 1–6 turns.
//!
//! Oracle sources (never the code): ADR-0005 (promotion on `response.output_item.done` of a
//! `function_call` item; arguments assembled from item events and argument deltas keyed by item
//! id; sequential execution and answering in `output_index` order; follow-up = previous_response_id
//! = last response id observed + `function_call_output` items by `call_id`; stateless mode omits
//! previous_response_id and resends the accumulated history; `max_tool_calls` + global cap),
//! docs/03_contracts/openresponses_coverage.md ("rejects disallowed function_call items
//! deterministically (no tool execution; function_call_output.ok=false + tool error events)",
//! "Provider request builder validates CreateResponseBody payloads"), and the property text.
//!
//! The model of the collector is *by item*: an item counts once when its (first)
//! `response.output_item.done` of type `function_call` arrives; call id / name from the item;
//! all argument sources of one item agree by construction (so no precedence rule is needed);
//! completed items are ordered by `output_index` (unique per turn by construction).

use std::cell::RefCell;
use std::collections::BTreeMap;
use std::time::Duration;

use proptest::prelude::*;
use rip_provider_openresponses::{SpecificToolChoiceParam, ToolChoiceValue};
use ripd::verif::ToolChoiceParam;
use rv::engine::{pick, CaseReport, Check, GroupOpts};
use rv::provider::{partition, sse_done, sse_json, Provider, Reply};
use rv::runs::{provider_config, Authority};
use serde::{Deserialize, Serialize};
use serde_json::{json, Value};

/// F19: a repeated `response.output_item.done` for one item makes the collector complete the item
/// twice (the call is executed twice and answered twice). While the defect is open the duplicate
/// event is not emitted into the script (the case still records that it was generated) and the
/// exclusion is counted. `VERIF_NO_EXCLUDE=1` (or a case with `allow_known: true`, as the pinned
/// reproducer under replays/known/C16) lets the duplicate through.
const EXCLUDE_KNOWN_DUP_DONE: bool = false;

const MAX_TOOL_CALLS: usize = 32; // ADR-0005 "global cap"; provider_openresponses.rs DEFAULT_MAX_TOOL_CALLS
const PROMPT: &str = "please do the thing";

// ---------------------------------------------------------------------------------------------
// Case
// ---------------------------------------------------------------------------------------------

#[derive(Debug, Clone, Serialize, Deserialize, PartialEq)]
enum Tc {
    Auto,
    None,
    Required,
    Function(String),
    /// mode: None | "auto" | "required" | "none"
    Allowed { tools: Vec<String>, mode: Option<String> },
    /// a raw tool_choice value (used for values that fail the ToolChoiceParam schema)
    Raw(Value),
}

impl Tc {
    fn kind(&self) -> String {
        match self {
            Tc::Auto => "auto".into(),
            Tc::None => "none".into(),
            Tc::Required => "required".into(),
            Tc::Function(n) => format!("function:{n}"),
            Tc::Allowed { tools, mode } => format!(
                "allowed[{}]{}",
                tools.join(","),
                mode.as_deref().map(|m| format!("/{m}")).unwrap_or_default()
            ),
            Tc::Raw(_) => "raw".into(),
        }
    }
    fn family(&self) -> &'static str {
        match self {
            Tc::Auto => "auto",
            Tc::None => "none",
            Tc::Required => "required",
            Tc::Function(_) => "function",
            Tc::Allowed { .. } => "allowed_tools",
            Tc::Raw(_) => "raw",
        }
    }
    fn build(&self) -> ToolChoiceParam {
        match self {
            Tc::Auto => ToolChoiceParam::auto(),
            Tc::None => ToolChoiceParam::none(),
            Tc::Required => ToolChoiceParam::required(),
            Tc::Function(n) => ToolChoiceParam::specific_function(n.clone()),
            Tc::Allowed { tools, mode } => {
                let tools = tools.iter().map(|t| SpecificToolChoiceParam::function(t.clone())).collect();
                let mode = match mode.as_deref() {
                    Some("auto") => Some(ToolChoiceValue::Auto),
                    Some("required") => Some(ToolChoiceValue::Required),
                    Some("none") => Some(ToolChoiceValue::None),
                    _ => None,
                };
                ToolChoiceParam::allowed_tools_with_mode(tools, mode)
            }
            Tc::Raw(v) => ToolChoiceParam::new(v.clone()),
        }
    }
    /// Is a call to function `name` excluded by this tool choice? (Open Responses semantics:
    /// `none` = no tools; a named function = only that function; allowed_tools = only the listed
    /// functions, and none at all with mode none; auto/required = any declared tool.)
    fn bars(&self, name: &str) -> bool {
        match self {
            Tc::Auto | Tc::Required | Tc::Raw(_) => false,
            Tc::None => true,
            Tc::Function(f) => f != name,
            Tc::Allowed { tools, mode } => mode.as_deref() == Some("none") || !tools.iter().any(|t| t == name),
        }
    }
}

#[derive(Debug, Clone, Serialize, Deserialize, PartialEq)]
struct Item {
    /// unique per (turn, index), fixed width: appears inside the arguments so that executions can
    /// be attributed from `tool_started.args` and from the workspace
    tag: String,
    /// write | write_bad_schema | read | read_missing | ls | unknown | unknown_badname | invalid_json
    kind: String,
    name: String,
    call_id: String,
    item_id: Option<String>,
    arguments: String,
    output_index: u64,
    /// emit `response.output_item.added` (arguments "")
    added: bool,
    /// emit argument deltas: the arguments cut at these positions (pieces = distinct cuts + 1)
    deltas: Option<Vec<u16>>,
    /// emit `response.function_call_arguments.done` carrying the full arguments
    args_done: bool,
    /// `response.output_item.done` carries the full arguments (else "")
    done_full: bool,
    /// `added` arrives after the first delta
    added_late: bool,
    /// a second `response.output_item.done` for the same call follows
    dup_done: bool,
    /// how the repeat differs: 0 identical; 1 id'd first, id-less repeat (identical when the item has no id); 2 arguments presence flipped (full <-> "")
    #[serde(default)]
    dup_variant: u8,
}

#[derive(Debug, Clone, Serialize, Deserialize, PartialEq)]
struct Turn {
    created_id: Option<String>,
    completed_id: Option<String>,
    done_marker: bool,
    /// answer with this HTTP status instead of a stream
    http_error: Option<u16>,
    items: Vec<Item>,
    text: Vec<String>,
    text_as_item: bool,
    text_output_index: u64,
    /// interleaving choices (which stream emits the next event)
    order: Vec<u16>,
    chunk_cuts: Vec<u16>,
}

#[derive(Debug, Clone, Serialize, Deserialize, PartialEq)]
struct Case {
    tc: Tc,
    stateless: bool,
    parallel: bool,
    via_thread: bool,
    turns: Vec<Turn>,
    #[serde(default)]
    allow_known: bool,
}

// ---------------------------------------------------------------------------------------------
// Generator
// ---------------------------------------------------------------------------------------------

#[derive(Debug, Clone)]
struct RawItem {
    kind: u8,
    has_id: bool,
    shape: u8,
    cuts: Vec<u16>,
    args_done: bool,
    done_full: bool,
    added_late: bool,
    dup_done: bool,
    dup_call: Option<u16>,
    oi_key: u16,
    long_id: bool,
}

#[derive(Debug, Clone)]
struct RawTurn {
    items: Vec<RawItem>,
    ids: u8,
    ending: u8,
    text: Vec<String>,
    text_as_item: bool,
    text_key: u16,
    gaps: bool,
    order: Vec<u16>,
    chunk_cuts: Vec<u16>,
}

fn raw_item(bound_class: bool) -> BoxedStrategy<RawItem> {
    let kind = if bound_class {
        prop_oneof![8 => Just(0u8), 2 => Just(2u8)].boxed()
    } else {
        prop_oneof![
            50 => Just(0u8), // write
            8 => Just(1u8),  // write_bad_schema
            10 => Just(2u8), // read
            4 => Just(3u8),  // read_missing
            8 => Just(4u8),  // ls
            7 => Just(5u8),  // unknown
            1 => Just(6u8),  // unknown_badname
            8 => Just(7u8),  // invalid_json
            6 => Just(8u8),  // bash
            6 => Just(9u8),  // shell (alias of bash)
            2 => Just(10u8), // Write
            2 => Just(11u8), // "write "
        ]
        .boxed()
    };
    let shape = if bound_class {
        prop_oneof![6 => Just(1u8), 2 => Just(0u8), 2 => Just(2u8)].boxed()
    } else {
        prop_oneof![5 => Just(0u8), 2 => Just(1u8), 2 => Just(2u8)].boxed()
    };
    (
        kind,
        prop::bool::weighted(0.8),
        shape,
        proptest::collection::vec(any::<u16>(), 0..4),
        any::<bool>(),
        any::<bool>(),
        prop::bool::weighted(0.06),
        prop::bool::weighted(if bound_class { 0.02 } else { 0.10 }),
        proptest::option::weighted(if bound_class { 0.03 } else { 0.12 }, any::<u16>()),
        any::<u16>(),
        prop::bool::weighted(if bound_class { 0.0 } else { 0.006 }),
    )
        .prop_map(
            |(kind, has_id, shape, cuts, args_done, done_full, added_late, dup_done, dup_call, oi_key, long_id)| RawItem {
                kind,
                has_id,
                shape,
                cuts,
                args_done,
                done_full,
                added_late,
                dup_done,
                dup_call,
                oi_key,
                long_id,
            },
        )
        .boxed()
}

fn raw_turn(items: BoxedStrategy<Vec<RawItem>>) -> BoxedStrategy<RawTurn> {
    (
        items,
        prop_oneof![14 => Just(0u8), 3 => Just(1u8), 1 => Just(2u8), 1 => Just(3u8)], // ids: same / no completed / different completed / none at all
        prop_oneof![5 => Just(0u8), 2 => Just(1u8), 2 => Just(2u8), 2 => Just(3u8)], // completed+DONE / DONE / completed / neither
        proptest::collection::vec("[a-z ]{1,8}", 0..3),
        any::<bool>(),
        any::<u16>(),
        prop::bool::weighted(0.3),
        proptest::collection::vec(any::<u16>(), 0..24),
        proptest::collection::vec(any::<u16>(), 0..3),
    )
        .prop_map(|(items, ids, ending, text, text_as_item, text_key, gaps, order, chunk_cuts)| RawTurn {
            items,
            ids,
            ending,
            text,
            text_as_item,
            text_key,
            gaps,
            order,
            chunk_cuts,
        })
        .boxed()
}

fn arguments_for(kind: u8, tag: &str, call_id: &str) -> (String, String, String) {
    // (kind label, tool name, arguments string)
    match kind {
        0 => (
            "write".into(),
            "write".into(),
            json!({"path": format!("calls/{tag}.txt"), "content": format!("{call_id}\n"), "append": true}).to_string(),
        ),
        1 => ("write_bad_schema".into(), "write".into(), json!({"path": format!("calls/{tag}.txt")}).to_string()),
        2 => ("read".into(), "read".into(), json!({"path": format!("seed/{tag}.txt")}).to_string()),
        3 => ("read_missing".into(), "read".into(), json!({"path": format!("missing/{tag}.txt")}).to_string()),
        4 => ("ls".into(), "ls".into(), json!({"path": "seed", "include": [format!("{tag}*")]}).to_string()),
        8 => ("bash".into(), "bash".into(), json!({"command": format!("mkdir -p calls; echo {call_id} >> calls/{tag}.txt"), "cwd": "."}).to_string()),
        // the alias the registry also knows the bash tool by: a tool choice that names `bash` bars it
        9 => ("shell_alias".into(), "shell".into(), json!({"command": format!("mkdir -p calls; echo {call_id} >> calls/{tag}.txt"), "cwd": "."}).to_string()),
        // names that differ from a declared tool only by case / padding: not that tool
        10 => ("write_other_case".into(), "Write".into(), json!({"path": format!("calls/{tag}.txt"), "content": format!("{call_id}\n"), "append": true}).to_string()),
        11 => ("write_padded_name".into(), "write ".into(), json!({"path": format!("calls/{tag}.txt"), "content": format!("{call_id}\n"), "append": true}).to_string()),
        5 => ("unknown".into(), "frobnicate".into(), json!({"tag": tag}).to_string()),
        6 => ("unknown_badname".into(), "frob.nicate".into(), json!({"tag": tag}).to_string()),
        _ => (
            "invalid_json".into(),
            "write".into(),
            format!("{{\"path\":\"calls/{tag}.txt\",\"content\":"),
        ),
    }
}

fn resolve(tc: Tc, stateless: bool, parallel: bool, via_thread: bool, raw: Vec<RawTurn>, http_error_last: Option<u16>) -> Case {
    let mut turns: Vec<Turn> = Vec::new();
    let mut all_call_ids: Vec<(String, usize, bool)> = Vec::new();
    let n_turns = raw.len();
    for (t, rt) in raw.into_iter().enumerate() {
        // output_index: rank of the keys (items + the text item), optionally with gaps
        let mut keys: Vec<(u16, usize)> = rt.items.iter().enumerate().map(|(i, it)| (it.oi_key, i)).collect();
        keys.push((rt.text_key, usize::MAX));
        keys.sort();
        let step = if rt.gaps { 3 } else { 1 };
        let mut oi_of: BTreeMap<usize, u64> = BTreeMap::new();
        for (rank, (_, i)) in keys.iter().enumerate() {
            oi_of.insert(*i, (rank as u64) * step);
        }
        let mut items = Vec::new();
        for (i, ri) in rt.items.iter().enumerate() {
            let tag = format!("T{t}C{i:02}");
            // call ids never contain a tag (the tag is what attributes an execution to an item)
            let mut call_id = format!("cid-{t}-{i}");
            if ri.long_id {
                call_id = format!("cid-{t}-{i}-{}", "x".repeat(70));
            }
            if let Some(c) = ri.dup_call {
                if !all_call_ids.is_empty() {
                    let (cand, _cand_turn, _cand_has_id) = all_call_ids[pick(c, all_call_ids.len())].clone();
                    // Ambiguous identity, not generated: an item WITHOUT an id that shares its call
                    // id with another item of the same turn. The only identity such an item has is
                    // its call id (docs: missing ids are normalised to the call id), so "two items"
                    // and "one item announced twice" cannot be told apart (DESIGN §8.5).
                    // (checked against every item of this turn that already carries the id —
                    // two items of one turn can also inherit the same id from an earlier turn)
                    let ambiguous = all_call_ids
                        .iter()
                        .any(|(id, turn, has_id)| *turn == t && *id == cand && !(ri.has_id && *has_id));
                    if !ambiguous {
                        call_id = cand;
                    }
                }
            }
            all_call_ids.push((call_id.clone(), t, ri.has_id));
            let (kind, name, arguments) = arguments_for(ri.kind, &tag, &call_id);
            let item_id = if ri.has_id { Some(format!("fc_{tag}")) } else { None };
            // shape 0 = streamed (added, deltas?, args.done?, done), 1 = done only, 2 = added + done
            let (added, mut deltas, mut args_done, mut done_full) = match ri.shape {
                0 => (true, Some(ri.cuts.clone()), ri.args_done, ri.done_full),
                1 => (false, None, false, true),
                _ => (true, None, false, true),
            };
            if item_id.is_none() {
                // argument events are keyed by item id: an item without an id carries its
                // arguments itself
                deltas = None;
                args_done = false;
                done_full = true;
            }
            if ri.shape == 0 && ri.cuts.is_empty() && ri.args_done {
                deltas = None; // arguments only through arguments.done
            }
            if deltas.is_none() && !args_done {
                done_full = true;
            }
            let added_late = ri.added_late && deltas.is_some() && added;
            items.push(Item {
                tag,
                kind,
                name,
                call_id,
                item_id,
                arguments,
                output_index: oi_of[&i],
                added,
                deltas,
                args_done,
                done_full,
                added_late,
                dup_done: ri.dup_done,
                dup_variant: (ri.oi_key % 3) as u8,
            });
        }
        let rid = format!("resp_{t}");
        let (mut created_id, mut completed_id) = match rt.ids {
            0 => (Some(rid.clone()), Some(rid.clone())),
            1 => (Some(rid.clone()), None),
            2 => (Some(rid.clone()), Some(format!("resp_{t}_final"))),
            _ => (None, None),
        };
        if !stateless && created_id.is_none() {
            // previous_response_id mode needs a response id; a provider that never names its
            // response is only generated for stateless history
            created_id = Some(rid.clone());
        }
        let (with_completed, done_marker) = match rt.ending {
            0 => (true, true),
            1 => (false, true),
            2 => (true, false),
            _ => (false, false),
        };
        if !with_completed {
            completed_id = None;
        } else if completed_id.is_none() && created_id.is_some() && rt.ids != 1 {
            completed_id = created_id.clone();
        }
        let http_error = if t + 1 == n_turns { http_error_last } else { None };
        turns.push(Turn {
            created_id,
            completed_id,
            done_marker,
            http_error,
            items,
            text: rt.text,
            text_as_item: rt.text_as_item,
            text_output_index: oi_of[&usize::MAX],
            order: rt.order,
            chunk_cuts: rt.chunk_cuts,
        });
    }
    // an id-less repeat is associated through its call id: only unambiguous when no other item of
    // the run shares that call id
    let mut count: BTreeMap<String, usize> = BTreeMap::new();
    for t in &turns {
        for it in &t.items {
            *count.entry(it.call_id.clone()).or_default() += 1;
        }
    }
    for t in turns.iter_mut() {
        for it in t.items.iter_mut() {
            if it.dup_variant == 1 && count.get(&it.call_id).copied().unwrap_or(0) > 1 {
                it.dup_variant = 0;
            }
        }
    }
    Case {
        tc,
        stateless,
        parallel,
        via_thread,
        turns,
        allow_known: false,
    }
}

fn tc_strategy() -> BoxedStrategy<Tc> {
    let allowed = |tools: &[&str], mode: Option<&str>| Tc::Allowed {
        tools: tools.iter().map(|s| s.to_string()).collect(),
        mode: mode.map(|m| m.to_string()),
    };
    prop_oneof![
        22 => Just(Tc::Auto),
        10 => Just(Tc::None),
        10 => Just(Tc::Required),
        9 => Just(Tc::Function("write".into())),
        7 => Just(Tc::Function("read".into())),
        4 => Just(Tc::Function("bash".into())),
        3 => Just(Tc::Function("shell".into())),
        3 => Just(allowed(&["bash", "read"], None)),
        2 => Just(allowed(&["shell", "write"], Some("auto"))),
        6 => Just(allowed(&["write"], None)),
        4 => Just(allowed(&["write"], Some("required"))),
        6 => Just(allowed(&["read", "ls"], Some("auto"))),
        4 => Just(allowed(&["read", "ls"], None)),
        4 => Just(allowed(&[], None)),
        3 => Just(allowed(&[], Some("auto"))),
        5 => Just(allowed(&["write", "read", "ls"], Some("none"))),
    ]
    .boxed()
}

fn normal_case() -> BoxedStrategy<Case> {
    let n_items = prop_oneof![2 => Just(0usize), 3 => Just(1usize), 3 => Just(2usize), 2 => Just(3usize), 1 => Just(4usize), 1 => Just(5usize)];
    let turn = n_items
        .prop_flat_map(|n| raw_turn(proptest::collection::vec(raw_item(false), n..=n).boxed()));
    let n_turns = prop_oneof![2 => Just(1usize), 3 => Just(2usize), 3 => Just(3usize), 2 => Just(4usize), 1 => Just(5usize), 1 => Just(6usize)];
    (
        tc_strategy(),
        any::<bool>(),
        any::<bool>(),
        prop::bool::weighted(0.4),
        n_turns.prop_flat_map(move |n| proptest::collection::vec(turn.clone(), n..=n)),
        proptest::option::weighted(0.05, prop_oneof![Just(500u16), Just(429u16), Just(400u16)]),
    )
        .prop_map(|(tc, stateless, parallel, thread, turns, http_err)| {
            let via_thread = thread && tc == Tc::Auto;
            resolve(tc, stateless, parallel, via_thread, turns, http_err)
        })
        .boxed()
}

/// > 32 calls over the run (the global cap), or exactly 32 at the end of a turn.
fn bound_case() -> BoxedStrategy<Case> {
    let turn = (6usize..=12).prop_flat_map(|n| raw_turn(proptest::collection::vec(raw_item(true), n..=n).boxed()));
    (
        prop_oneof![3 => Just(Tc::Auto), 1 => Just(Tc::Required)],
        any::<bool>(),
        any::<bool>(),
        prop::bool::weighted(0.3),
        proptest::collection::vec(turn, 4..=6),
        prop::bool::weighted(0.35),
        0usize..3,
    )
        .prop_map(|(tc, stateless, parallel, thread, mut turns, exact, tail)| {
            if exact {
                // make the cumulative count hit exactly 32 at the end of a turn, then `tail` calls
                let mut cum = 0usize;
                let mut cut_at = None;
                for (k, t) in turns.iter_mut().enumerate() {
                    if cum + t.items.len() >= MAX_TOOL_CALLS {
                        t.items.truncate(MAX_TOOL_CALLS - cum);
                        cut_at = Some(k);
                        break;
                    }
                    cum += t.items.len();
                }
                if let Some(k) = cut_at {
                    turns.truncate(k + 2);
                    if let Some(last) = turns.get_mut(k + 1) {
                        last.items.truncate(tail);
                    }
                }
            }
            let via_thread = thread && tc == Tc::Auto;
            resolve(tc, stateless, parallel, via_thread, turns, None)
        })
        .boxed()
}

/// a configuration whose requests fail schema validation (tool_choice value outside the schema)
fn invalid_case() -> BoxedStrategy<Case> {
    let bad = prop_oneof![
        Just(json!("sometimes")),
        Just(json!(42)),
        Just(json!({"type": "function"})),
        Just(json!({"type": "allowed_tools", "tools": "write"})),
        Just(json!({"type": "allowed_tools", "tools": [{"type": "function", "name": "write"}], "mode": "maybe"})),
        Just(json!({"type": "no_such_tool"})),
        Just(json!(["auto"])),
    ];
    let turn = (0usize..3).prop_flat_map(|n| raw_turn(proptest::collection::vec(raw_item(false), n..=n).boxed()));
    (bad, any::<bool>(), any::<bool>(), proptest::collection::vec(turn, 1..=2))
        .prop_map(|(v, stateless, parallel, turns)| resolve(Tc::Raw(v), stateless, parallel, false, turns, None))
        .boxed()
}

fn case_strategy() -> BoxedStrategy<Case> {
    prop_oneof![82 => normal_case(), 13 => bound_case(), 5 => invalid_case()].boxed()
}

// ---------------------------------------------------------------------------------------------
// Script rendering + the by-item model of the collector
// ---------------------------------------------------------------------------------------------

fn fc_item(it: &Item, arguments: &str, status: &str) -> Value {
    let mut o = serde_json::Map::new();
    o.insert("type".into(), json!("function_call"));
    if let Some(id) = &it.item_id {
        o.insert("id".into(), json!(id));
    }
    o.insert("call_id".into(), json!(it.call_id));
    o.insert("name".into(), json!(it.name));
    o.insert("arguments".into(), json!(arguments));
    o.insert("status".into(), json!(status));
    Value::Object(o)
}

/// Events of one item, in the item's own order. `Some(idx)` marks the event that completes it.
fn item_stream(idx: usize, it: &Item, emit_dup: bool) -> Vec<(Value, Option<usize>)> {
    let mut out: Vec<(Value, Option<usize>)> = Vec::new();
    let added = json!({"type": "response.output_item.added", "output_index": it.output_index, "item": fc_item(it, "", "in_progress")});
    let mut delta_events = Vec::new();
    if let (Some(cuts), Some(item_id)) = (&it.deltas, &it.item_id) {
        let bytes = it.arguments.as_bytes();
        let pieces = partition(bytes, cuts);
        for p in pieces {
            delta_events.push(json!({"type": "response.function_call_arguments.delta", "item_id": item_id,
                "output_index": it.output_index, "delta": String::from_utf8_lossy(&p)}));
        }
    }
    if it.added && !it.added_late {
        out.push((added.clone(), None));
    }
    for (k, d) in delta_events.into_iter().enumerate() {
        out.push((d, None));
        if k == 0 && it.added && it.added_late {
            out.push((added.clone(), None));
        }
    }
    if it.args_done {
        if let Some(item_id) = &it.item_id {
            out.push((
                json!({"type": "response.function_call_arguments.done", "item_id": item_id,
                    "output_index": it.output_index, "arguments": it.arguments}),
                None,
            ));
        }
    }
    let done = json!({"type": "response.output_item.done", "output_index": it.output_index,
        "item": fc_item(it, if it.done_full { &it.arguments } else { "" }, "completed")});
    out.push((done.clone(), Some(idx)));
    if it.dup_done && emit_dup {
        let repeat = match it.dup_variant {
            // id'd first, id-less repeat: the repeat can only be associated through its call id, so
            // it is the same item beyond doubt. (The other way round — an id-less item, then a
            // repeat carrying a FRESH item id — reads as a second item sharing the call id, which
            // is the ambiguous region this check does not judge: identical repeat instead.)
            1 if it.item_id.is_some() => {
                let mut other = it.clone();
                other.item_id = None;
                json!({"type": "response.output_item.done", "output_index": it.output_index,
                    "item": fc_item(&other, if it.done_full { &it.arguments } else { "" }, "completed")})
            }
            2 => json!({"type": "response.output_item.done", "output_index": it.output_index,
                "item": fc_item(it, if it.done_full { "" } else { &it.arguments }, "completed")}),
            _ => done,
        };
        out.push((repeat, None));
    }
    out
}

fn text_stream(turn: &Turn, t: usize) -> Vec<(Value, Option<usize>)> {
    let mut out = Vec::new();
    if turn.text.is_empty() {
        return out;
    }
    let id = format!("msg_{t}");
    if turn.text_as_item {
        out.push((
            json!({"type": "response.output_item.added", "output_index": turn.text_output_index,
                "item": {"type": "message", "id": id, "role": "assistant", "status": "in_progress", "content": []}}),
            None,
        ));
    }
    for p in &turn.text {
        out.push((
            json!({"type": "response.output_text.delta", "item_id": id, "output_index": turn.text_output_index,
                "content_index": 0, "delta": p}),
            None,
        ));
    }
    if turn.text_as_item {
        out.push((
            json!({"type": "response.output_item.done", "output_index": turn.text_output_index,
                "item": {"type": "message", "id": id, "role": "assistant", "status": "completed",
                    "content": [{"type": "output_text", "text": turn.text.concat(), "annotations": []}]}}),
            None,
        ));
    }
    out
}

struct Rendered {
    reply: Reply,
    /// item indices in the order the model expects them to be executed and answered
    expected: Vec<usize>,
    /// did the arrival order of the completing events differ from the output_index order?
    out_of_order: bool,
    dup_emitted: bool,
    dup_suppressed: u64,
}

fn render_turn(turn: &Turn, t: usize, emit_dup: bool) -> Rendered {
    if let Some(status) = turn.http_error {
        return Rendered {
            reply: Reply::error(status, "{\"error\":{\"message\":\"scripted failure\"}}"),
            expected: Vec::new(),
            out_of_order: false,
            dup_emitted: false,
            dup_suppressed: 0,
        };
    }
    let mut streams: Vec<std::collections::VecDeque<(Value, Option<usize>)>> = Vec::new();
    for (i, it) in turn.items.iter().enumerate() {
        streams.push(item_stream(i, it, emit_dup).into());
    }
    streams.push(text_stream(turn, t).into());
    let mut merged: Vec<(Value, Option<usize>)> = Vec::new();
    let mut step = 0usize;
    loop {
        let active: Vec<usize> = (0..streams.len()).filter(|i| !streams[*i].is_empty()).collect();
        if active.is_empty() {
            break;
        }
        // with no (remaining) choices the streams are emitted one after the other
        let choice = turn.order.get(step).copied().unwrap_or(0);
        step += 1;
        let s = active[pick(choice, active.len())];
        if let Some(ev) = streams[s].pop_front() {
            merged.push(ev);
        }
    }
    let mut events: Vec<Value> = Vec::new();
    if let Some(id) = &turn.created_id {
        events.push(json!({"type": "response.created", "response": {"id": id}}));
    }
    let mut arrival: Vec<usize> = Vec::new();
    for (ev, completes) in merged {
        if let Some(i) = completes {
            arrival.push(i);
        }
        events.push(ev);
    }
    if let Some(id) = &turn.completed_id {
        events.push(json!({"type": "response.completed", "response": {"id": id}}));
    }
    let mut body = String::new();
    for (n, ev) in events.iter_mut().enumerate() {
        if let Some(o) = ev.as_object_mut() {
            o.insert("sequence_number".into(), json!(n));
        }
        body.push_str(&sse_json(ev));
    }
    if turn.done_marker {
        body.push_str(&sse_done());
    }
    if body.is_empty() {
        // a 200 with no bytes at all is a transport-level condition (C07/C15), not a script
        body.push_str(": keep-alive\n\n");
    }
    let mut expected = arrival.clone();
    expected.sort_by_key(|i| turn.items[*i].output_index); // stable; indices are unique per turn
    let out_of_order = expected != arrival;
    let dups = turn.items.iter().filter(|i| i.dup_done).count() as u64;
    Rendered {
        reply: Reply::sse(partition(body.as_bytes(), &turn.chunk_cuts)),
        expected,
        out_of_order,
        dup_emitted: emit_dup && dups > 0,
        dup_suppressed: if emit_dup { 0 } else { dups },
    }
}

fn fallback_reply() -> Reply {
    let mut body = String::new();
    body.push_str(&sse_json(&json!({"type": "response.created", "sequence_number": 0, "response": {"id": "resp_fallback"}})));
    body.push_str(&sse_json(&json!({"type": "response.output_text.delta", "sequence_number": 1, "item_id": "msg_f",
        "output_index": 0, "content_index": 0, "delta": "done"})));
    body.push_str(&sse_done());
    Reply::sse(vec![body.into_bytes()])
}

// ---------------------------------------------------------------------------------------------
// Run + oracle
// ---------------------------------------------------------------------------------------------

thread_local! {
    static RT: RefCell<Option<tokio::runtime::Runtime>> = const { RefCell::new(None) };
}

fn no_exclude() -> bool {
    matches!(std::env::var("VERIF_NO_EXCLUDE").ok().as_deref(), Some(v) if !v.is_empty() && v != "0")
}

fn run(case: &Case) -> CaseReport {
    RT.with(|cell| {
        let mut slot = cell.borrow_mut();
        if slot.is_none() {
            *slot = Some(rv::runs::runtime(2));
        }
        let rt = slot.as_ref().expect("runtime");
        rt.block_on(run_async(case))
    })
}

#[derive(Debug, Clone)]
struct Started {
    tool_id: String,
    turn_by_position: usize,
    tag: Option<String>,
    ended: bool,
    failed: Option<String>,
}

fn find_tag(case: &Case, args: &Value) -> Option<String> {
    let s = match args {
        Value::String(s) => s.clone(),
        other => other.to_string(),
    };
    for turn in &case.turns {
        for it in &turn.items {
            if s.contains(&it.tag) {
                return Some(it.tag.clone());
            }
        }
    }
    None
}

fn item_by_tag<'a>(case: &'a Case, tag: &str) -> Option<(usize, &'a Item)> {
    for (t, turn) in case.turns.iter().enumerate() {
        for it in &turn.items {
            if it.tag == tag {
                return Some((t, it));
            }
        }
    }
    None
}

fn str_of<'a>(v: &'a Value, k: &str) -> &'a str {
    v.get(k).and_then(|x| x.as_str()).unwrap_or("")
}

async fn run_async(case: &Case) -> CaseReport {
    let mut rep = CaseReport::new();
    let emit_dup = !(EXCLUDE_KNOWN_DUP_DONE && !case.allow_known && !no_exclude());

    // ---- ambiguous constructions are discarded and counted, never judged (DESIGN §8.5): an item
    // without an id that shares its call id with another item of the same turn (the generator
    // avoids the region; this guard covers hand-written and shrunk cases)
    for turn in &case.turns {
        for (i, a) in turn.items.iter().enumerate() {
            for (j, b) in turn.items.iter().enumerate() {
                if i != j && a.call_id == b.call_id && (a.item_id.is_none() || b.item_id.is_none()) {
                    rep.class("discarded:ambiguous_item_identity");
                    rep.count("discarded_ambiguous_item_identity", 1);
                    return rep;
                }
            }
        }
    }

    // ---- script
    let mut rendered: Vec<Rendered> = Vec::new();
    for (t, turn) in case.turns.iter().enumerate() {
        rendered.push(render_turn(turn, t, emit_dup));
    }
    let suppressed: u64 = rendered.iter().map(|r| r.dup_suppressed).sum();
    if suppressed > 0 {
        rep.count("excluded_known_F19_duplicate_output_item_done_not_emitted", suppressed);
        rep.class("excluded:duplicate_done_suppressed");
    }
    let dup_emitted = rendered.iter().any(|r| r.dup_emitted);
    let provider = Provider::start(rendered.iter().map(|r| r.reply.clone()).collect(), fallback_reply()).await;

    // ---- authority
    let tool_choice = case.tc.build();
    let tc_value = tool_choice.value().clone();
    // reference for "fails schema validation": the vendored Open Responses schema (trusted base)
    let cfg_invalid = rip_openresponses::validate_tool_choice_param(&tc_value).is_err();
    let mut cfg = provider_config(provider.endpoint());
    cfg.tool_choice = tool_choice;
    cfg.stateless_history = case.stateless;
    cfg.parallel_tool_calls = case.parallel;
    let auth = Authority::new("c16", Some(cfg));
    let ws = auth.sandbox.ws.clone();
    let _ = std::fs::create_dir_all(ws.join("seed"));
    for turn in &case.turns {
        for it in &turn.items {
            if it.kind == "read" || it.kind == "ls" {
                let _ = std::fs::write(ws.join("seed").join(format!("{}.txt", it.tag)), format!("seed {}\n", it.tag));
            }
        }
    }

    // ---- one prompt run
    let sid = if case.via_thread {
        let Some(thread) = auth.ensure_thread().await else {
            rep.inconclusive("no_thread");
            return rep;
        };
        let (_s, v) = auth.post_message(&thread, PROMPT, None).await;
        match v.get("session_id").and_then(|s| s.as_str()) {
            Some(s) => s.to_string(),
            None => {
                rep.inconclusive("thread_post_rejected");
                return rep;
            }
        }
    } else {
        let Some(sid) = auth.create_session().await else {
            rep.inconclusive("no_session");
            return rep;
        };
        let st = auth.send_input(&sid, PROMPT).await;
        if !st.is_success() {
            rep.inconclusive("input_rejected");
            return rep;
        }
        sid
    };
    if !auth.wait_snapshot(&sid, Duration::from_secs(20)).await {
        rep.inconclusive("no_snapshot_in_20s");
        return rep;
    }
    if case.via_thread && !auth.wait_run_ended(&sid, Duration::from_secs(20)).await {
        rep.inconclusive("no_run_ended_in_20s");
        return rep;
    }

    let reqs = provider.recorded();
    let bodies: Vec<Value> = reqs.iter().map(|r| r.json()).collect();
    let frames = auth.truth_session(&sid);

    // ---- frames: end reason, request starts, tool executions
    let ends: Vec<&Value> = frames.iter().filter(|f| f["type"] == "session_ended").collect();
    let end_reason = ends.last().map(|f| str_of(f, "reason").to_string()).unwrap_or_default();
    if ends.is_empty() {
        rep.inconclusive("no_session_ended_frame");
        return rep;
    }
    let mut request_starts = 0usize;
    let mut started: Vec<Started> = Vec::new();
    let mut invalid_request_frames: Vec<&Value> = Vec::new();
    for f in &frames {
        match str_of(f, "type") {
            "openresponses_request_started" => request_starts += 1,
            "tool_started" => started.push(Started {
                tool_id: str_of(f, "tool_id").to_string(),
                turn_by_position: request_starts.saturating_sub(1),
                tag: find_tag(case, &f["args"]),
                ended: false,
                failed: None,
            }),
            "tool_ended" => {
                let id = str_of(f, "tool_id");
                if let Some(s) = started.iter_mut().rev().find(|s| s.tool_id == id) {
                    s.ended = true;
                }
            }
            "tool_failed" => {
                let id = str_of(f, "tool_id");
                if let Some(s) = started.iter_mut().rev().find(|s| s.tool_id == id) {
                    s.failed = Some(str_of(f, "error").to_string());
                }
            }
            "provider_event" => {
                let has_errors = f.get("errors").and_then(|e| e.as_array()).map(|a| !a.is_empty()).unwrap_or(false);
                if has_errors && f.get("raw").map(|r| r.is_string()).unwrap_or(false) && f.get("data").map(|d| d.is_null()).unwrap_or(true)
                    && str_of(f, "status") == "event"
                {
                    invalid_request_frames.push(f);
                }
            }
            _ => {}
        }
    }

    // ---- transport failures that were not scripted (the scripted provider is harness code: under
    // extreme machine load its 10 s read timeout or a reset can fail a request). Such a run says
    // nothing about the loop: inconclusive, never a violation.
    let transport_error_frames = frames
        .iter()
        .filter(|f| {
            f["type"] == "provider_event"
                && f.get("errors").and_then(|e| e.as_array()).map(|a| !a.is_empty()).unwrap_or(false)
                && f.get("raw").map(|r| r.is_null()).unwrap_or(true)
                && f.get("data").map(|d| d.is_null()).unwrap_or(true)
        })
        .count();
    let scripted_http_error_reached = case
        .turns
        .iter()
        .enumerate()
        .any(|(t, turn)| turn.http_error.is_some() && bodies.len() == t + 1 && end_reason == "provider_error");
    if transport_error_frames > usize::from(scripted_http_error_reached) {
        rep.inconclusive("unscripted_transport_error");
        return rep;
    }

    // ---- G1: every body the provider received validates against the Open Responses schema
    for (i, b) in bodies.iter().enumerate() {
        if let Err(errs) = rip_openresponses::validate_create_response_body(b) {
            rep.fail(
                format!("invalid_body_sent|{}", if i == 0 { "first_request" } else { "followup_request" }),
                json!({"request": i, "errors": errs.iter().take(3).collect::<Vec<_>>(), "end_reason": end_reason,
                    "tool_choice": tc_value, "body_excerpt": clip(&b.to_string(), 600)}),
            );
        }
    }
    // ---- G2: requests seen by the provider = requests the session announced
    if bodies.len() != request_starts {
        rep.fail(
            "request_count_mismatch|provider_vs_request_started_frames",
            json!({"provider_received": bodies.len(), "request_started_frames": request_starts, "end_reason": end_reason}),
        );
    }
    // ---- G3: configured request fields are what was configured, and stable over the run
    for (i, b) in bodies.iter().enumerate() {
        if b.get("tool_choice") != Some(&tc_value) {
            rep.fail("request_tool_choice_differs_from_config", json!({"request": i, "sent": b.get("tool_choice"), "configured": tc_value}));
        }
        if i > 0 && b.get("tools") != bodies[0].get("tools") {
            rep.fail("tools_changed_between_requests", json!({"request": i}));
        }
        if b.get("parallel_tool_calls") != Some(&json!(case.parallel)) {
            rep.fail("request_parallel_tool_calls_differs_from_config", json!({"request": i, "sent": b.get("parallel_tool_calls")}));
        }
    }

    // ---- F19 (known): a duplicate output_item.done that was let through and made the item run
    // twice. Reported under its own signature, before anything else: every other comparison
    // would only restate it (answered twice, one extra output, order).
    if dup_emitted {
        let mut hit = false;
        for turn in &case.turns {
            for it in turn.items.iter().filter(|i| i.dup_done) {
                let n = started.iter().filter(|s| s.tag.as_deref() == Some(it.tag.as_str())).count();
                if n > 1 {
                    hit = true;
                    rep.fail(
                        "exec_twice|duplicate_output_item_done",
                        json!({"tag": it.tag, "call_id": it.call_id, "item_id": it.item_id, "tool_started_frames": n,
                            "requests_received": bodies.len(),
                            "next_request_call_ids": bodies.get(1).and_then(|b| b["input"].as_array()).map(|a| a.iter()
                                .filter(|v| v["type"] == "function_call_output").map(|v| v["call_id"].clone()).collect::<Vec<_>>()),
                            "expected": "one execution and one function_call_output per function_call item (ADR-0005: tool execution is triggered when the output item reaches response.output_item.done)"}),
                    );
                }
            }
        }
        if hit {
            finish_classes(case, &rendered, &mut rep, &end_reason, false, false, cfg_invalid, &started, &[], dup_emitted);
            return rep;
        }
    }

    // ---- the walk: model of the loop over the scripted turns
    let tc = &case.tc;
    let mut processed: Vec<(usize, usize)> = Vec::new(); // (turn, item idx) in expected execution order
    let mut n_processed = 0usize;
    let mut last_resp_id: Option<String> = None;
    let mut expected_end: Option<&'static str> = None;
    let mut expected_requests: Option<usize> = None;
    let mut bound_hit = false;
    let mut midrun_invalid = false;
    let mut t = 0usize;
    if cfg_invalid {
        rep.class("invalid_request:config");
        expected_end = Some("invalid_request");
        expected_requests = Some(0);
        if !bodies.is_empty() {
            rep.fail(
                "invalid_request_sent|config_fails_schema",
                json!({"tool_choice": tc_value, "requests_received": bodies.len(), "end_reason": end_reason}),
            );
        }
    } else {
        loop {
            if bodies.len() <= t {
                // only reachable for t == 0: later turns are entered only when the request exists
                rep.fail("missing_request|first_request_never_sent", json!({"end_reason": end_reason}));
                break;
            }
            let (turn, rend) = match (case.turns.get(t), rendered.get(t)) {
                (Some(a), Some(b)) => (Some(a), Some(b)),
                _ => (None, None),
            };
            let Some(turn) = turn else {
                // beyond the script: the fallback reply (text only) ends the run
                expected_end = Some("completed");
                expected_requests = Some(t + 1);
                break;
            };
            let rend = rend.expect("rendered");
            if turn.http_error.is_some() {
                expected_end = Some("provider_error");
                expected_requests = Some(t + 1);
                break;
            }
            if let Some(id) = &turn.created_id {
                last_resp_id = Some(id.clone());
            }
            if let Some(id) = &turn.completed_id {
                last_resp_id = Some(id.clone());
            }
            let calls: Vec<&Item> = rend.expected.iter().map(|i| &turn.items[*i]).collect();
            if calls.is_empty() {
                expected_end = Some("completed");
                expected_requests = Some(t + 1);
                break;
            }
            let room = MAX_TOOL_CALLS.saturating_sub(n_processed);
            let take = calls.len().min(room);
            for i in rend.expected.iter().take(take) {
                processed.push((t, *i));
            }
            n_processed += take;
            if calls.len() > room {
                bound_hit = true;
                expected_end = Some("max_tool_calls_exceeded");
                expected_requests = Some(t + 1);
                break;
            }
            // every call of this turn was processed: the very next request answers them
            if bodies.len() > t + 1 {
                check_followup(case, t, &calls, &bodies[t], &bodies[t + 1], last_resp_id.as_deref(), &mut rep);
                t += 1;
                continue;
            }
            // no next request: only the cap (exactly reached) or a follow-up that fails the schema
            // may explain it
            expected_requests = Some(t + 1);
            if n_processed == MAX_TOOL_CALLS && end_reason == "max_tool_calls_exceeded" {
                bound_hit = true;
                rep.class("bound_exactly_reached_no_followup");
                expected_end = Some("max_tool_calls_exceeded");
            } else if end_reason == "invalid_request" {
                midrun_invalid = true;
                expected_end = Some("invalid_request");
                rep.class("invalid_request:followup");
                // the refused follow-up must really fail the schema, and must be the answer to
                // this turn
                match invalid_request_frames.last().and_then(|f| f["raw"].as_str()).and_then(|s| serde_json::from_str::<Value>(s).ok()) {
                    Some(refused) => {
                        if rip_openresponses::validate_create_response_body(&refused).is_ok() {
                            rep.fail("valid_request_refused|followup", json!({"turn": t, "body_excerpt": clip(&refused.to_string(), 600)}));
                        }
                        check_followup(case, t, &calls, &bodies[t], &refused, last_resp_id.as_deref(), &mut rep);
                    }
                    None => {
                        rep.fail("invalid_request_without_refused_body_frame", json!({"turn": t}));
                    }
                }
            } else {
                rep.fail(
                    "unanswered|no_followup_request",
                    json!({"turn": t, "calls": calls.iter().map(|c| c.call_id.clone()).collect::<Vec<_>>(),
                        "end_reason": end_reason, "processed_so_far": n_processed}),
                );
            }
            break;
        }
    }
    if let Some(n) = expected_requests {
        if bodies.len() > n {
            rep.fail(
                "unexpected_request|after_run_should_have_ended",
                json!({"expected_requests": n, "received": bodies.len(), "end_reason": end_reason, "expected_end": expected_end}),
            );
        }
    }
    if let Some(e) = expected_end {
        if end_reason != e {
            let sig = if e == "max_tool_calls_exceeded" {
                "end_reason|expected_max_tool_calls_exceeded"
            } else if e == "invalid_request" {
                "end_reason|expected_invalid_request"
            } else {
                "end_reason|unexpected"
            };
            rep.fail(sig, json!({"expected": e, "observed": end_reason, "requests": bodies.len(), "processed_model": n_processed}));
        }
    }
    if end_reason == "invalid_request" {
        // whatever was refused must really fail the schema and must not have reached the provider
        for f in &invalid_request_frames {
            if let Some(refused) = f["raw"].as_str().and_then(|s| serde_json::from_str::<Value>(s).ok()) {
                if bodies.iter().any(|b| *b == refused) {
                    rep.fail("invalid_request_sent|refused_body_was_received", json!({"body_excerpt": clip(&refused.to_string(), 400)}));
                }
            }
        }
    }

    // ---- executions: at most once, in order, in the right turn, never when barred, ≤ cap
    let mut per_tag: BTreeMap<String, Vec<&Started>> = BTreeMap::new();
    for s in &started {
        match &s.tag {
            Some(tag) => per_tag.entry(tag.clone()).or_default().push(s),
            None => rep.fail("executed_unattributable_call", json!({"tool_id": s.tool_id})),
        }
    }
    if started.len() > MAX_TOOL_CALLS {
        rep.fail("bound_exceeded|tool_calls_in_run>32", json!({"tool_started_frames": started.len(), "end_reason": end_reason}));
    }
    for (tag, list) in &per_tag {
        let Some((turn_idx, it)) = item_by_tag(case, tag) else { continue };
        if list.len() > 1 {
            rep.fail("exec_twice|same_item", json!({"tag": tag, "call_id": it.call_id, "tool_started_frames": list.len()}));
        }
        if !processed.iter().any(|(t, i)| case.turns[*t].items[*i].tag == *tag) {
            let sig = if bound_hit { "bound_exceeded|call_beyond_cap_executed" } else { "executed_uncompleted_call" };
            rep.fail(sig, json!({"tag": tag, "turn": turn_idx}));
        }
        for s in list {
            if s.turn_by_position != turn_idx {
                rep.fail("executed_in_wrong_turn", json!({"tag": tag, "item_turn": turn_idx, "frames_after_request": s.turn_by_position}));
            }
        }
        if tc.bars(&it.name) {
            if list.iter().any(|s| s.ended) {
                rep.fail("barred_tool_executed|tool_ended_frame", json!({"tag": tag, "name": it.name, "tool_choice": tc.kind()}));
            }
            if !list.iter().any(|s| s.failed.is_some()) {
                rep.fail("barred_call_without_tool_error_event", json!({"tag": tag, "name": it.name, "tool_choice": tc.kind()}));
            }
        }
    }
    // order of executions inside each turn = expected order (frames are a subsequence)
    for tix in 0..case.turns.len() {
        let exp: Vec<&str> = processed.iter().filter(|(t, _)| *t == tix).map(|(t, i)| case.turns[*t].items[*i].tag.as_str()).collect();
        let got: Vec<&str> = started.iter().filter(|s| s.turn_by_position == tix).filter_map(|s| s.tag.as_deref()).collect();
        let mut pos = 0usize;
        let mut ok = true;
        for g in &got {
            match exp[pos.min(exp.len())..].iter().position(|e| e == g) {
                Some(p) => pos += p + 1,
                None => {
                    ok = false;
                    break;
                }
            }
        }
        if !ok && got.iter().all(|g| exp.contains(g)) {
            rep.fail("execution_order|not_by_output_index", json!({"turn": tix, "expected": exp, "observed": got}));
        }
    }
    // workspace markers: one line per execution of a `write` call
    let mut executed_writes = 0u64;
    for (tix, turn) in case.turns.iter().enumerate() {
        for (i, it) in turn.items.iter().enumerate() {
            if !matches!(it.name.as_str(), "write" | "bash" | "shell" | "Write" | "write ") {
                continue;
            }
            let path = ws.join("calls").join(format!("{}.txt", it.tag));
            let content = std::fs::read_to_string(&path).ok();
            let lines = content.as_deref().map(|c| c.lines().count()).unwrap_or(0);
            if lines > 0 {
                executed_writes += 1;
            }
            if lines > 1 {
                rep.fail(
                    "exec_twice|marker_file",
                    json!({"tag": it.tag, "lines": lines}),
                );
            }
            if lines > 0 && tc.bars(&it.name) {
                rep.fail("barred_tool_executed|marker_file_present", json!({"tag": it.tag, "tool_choice": tc.kind(), "content": content}));
            }
            if lines > 0 && !processed.contains(&(tix, i)) {
                rep.fail(
                    if bound_hit { "bound_exceeded|marker_of_call_beyond_cap" } else { "executed_uncompleted_call|marker_file" },
                    json!({"tag": it.tag}),
                );
            }
            if let Some(c) = &content {
                if lines > 0 && c.lines().any(|l| l != it.call_id) {
                    rep.fail("marker_content_mismatch", json!({"tag": it.tag, "content": c, "call_id": it.call_id}));
                }
            }
        }
    }
    rep.count("write_calls_executed", executed_writes);

    // ---- no request after the end of the run
    let late = provider.recorded().len();
    if late != bodies.len() {
        rep.fail("request_after_session_ended", json!({"at_end": bodies.len(), "later": late}));
    }

    finish_classes(case, &rendered, &mut rep, &end_reason, bound_hit, midrun_invalid, cfg_invalid, &started, &processed, dup_emitted);
    rep
}

fn clip(s: &str, n: usize) -> String {
    if s.len() <= n {
        s.to_string()
    } else {
        let mut c = n;
        while !s.is_char_boundary(c) {
            c -= 1;
        }
        format!("{}…", &s[..c])
    }
}

/// Request `next` must answer exactly the calls `calls` (in that order, by call id) of turn `t`.
fn check_followup(case: &Case, t: usize, calls: &[&Item], prev: &Value, next: &Value, last_resp_id: Option<&str>, rep: &mut CaseReport) {
    let Some(input) = next.get("input").and_then(|i| i.as_array()) else {
        rep.fail("followup_input_not_an_array", json!({"turn": t, "input": next.get("input")}));
        return;
    };
    let new_items: Vec<&Value> = if case.stateless {
        if next.get("previous_response_id").map(|v| !v.is_null()).unwrap_or(false) {
            rep.fail("stateless_followup_has_previous_response_id", json!({"turn": t, "previous_response_id": next.get("previous_response_id")}));
        }
        let prev_items: Vec<Value> = match prev.get("input") {
            Some(Value::Array(a)) => a.clone(),
            other => {
                rep.fail("stateless_request_input_not_an_array", json!({"turn": t, "input": other}));
                return;
            }
        };
        if input.len() < prev_items.len() || input[..prev_items.len()] != prev_items[..] {
            rep.fail(
                "stateless_not_prefix|input_does_not_extend_previous_input",
                json!({"turn": t, "previous_len": prev_items.len(), "next_len": input.len(),
                    "previous_types": prev_items.iter().map(|v| str_of(v, "type").to_string()).collect::<Vec<_>>(),
                    "next_types": input.iter().map(|v| str_of(v, "type").to_string()).collect::<Vec<_>>()}),
            );
            // fall back to "everything" so that the answer check still says something useful
            input.iter().collect()
        } else {
            input[prev_items.len()..].iter().collect()
        }
    } else {
        match (next.get("previous_response_id").and_then(|v| v.as_str()), last_resp_id) {
            (Some(a), Some(b)) if a == b => {}
            (a, b) => rep.fail("previous_response_id_mismatch|not_last_response_id_observed", json!({"turn": t, "sent": a, "expected": b})),
        }
        input.iter().collect()
    };
    let outputs: Vec<&Value> = new_items.iter().copied().filter(|v| str_of(v, "type") == "function_call_output").collect();
    let others: Vec<&Value> = new_items.iter().copied().filter(|v| str_of(v, "type") != "function_call_output").collect();
    let exp_ids: Vec<&str> = calls.iter().map(|c| c.call_id.as_str()).collect();
    let got_ids: Vec<&str> = outputs.iter().map(|v| str_of(v, "call_id")).collect();
    if exp_ids != got_ids {
        let mut a: Vec<&str> = exp_ids.clone();
        let mut b: Vec<&str> = got_ids.clone();
        a.sort();
        b.sort();
        let cause = if a == b {
            "order_not_by_output_index"
        } else if b.len() < a.len() && b.iter().all(|x| a.contains(x)) {
            "missing_output"
        } else if b.len() > a.len() && a.iter().all(|x| b.contains(x)) {
            "extra_output"
        } else if b.len() == a.len() {
            "wrong_call_id"
        } else {
            "different_set"
        };
        let item_ids: Vec<Option<&str>> = calls.iter().map(|c| c.item_id.as_deref()).collect();
        rep.fail(
            format!("answer_mismatch|{cause}"),
            json!({"turn": t, "expected_call_ids": exp_ids, "answered_call_ids": got_ids, "item_ids": item_ids,
                "output_indexes": calls.iter().map(|c| c.output_index).collect::<Vec<_>>()}),
        );
    } else {
        // the content of each answer belongs to the call it names, and a barred call is answered
        // with ok=false
        for (c, o) in calls.iter().zip(outputs.iter()) {
            let parsed: Option<Value> = o.get("output").and_then(|s| s.as_str()).and_then(|s| serde_json::from_str(s).ok());
            let Some(out) = parsed else {
                rep.fail("answer_output_not_a_json_string", json!({"turn": t, "call_id": c.call_id, "output": o.get("output")}));
                continue;
            };
            if let Some(p) = out.pointer("/artifacts/path").and_then(|p| p.as_str()) {
                if p.starts_with("calls/") && !p.contains(&c.tag) {
                    rep.fail("answer_mismatch|output_of_another_call", json!({"turn": t, "call_id": c.call_id, "tag": c.tag, "artifact_path": p}));
                }
            }
            if case.tc.bars(&c.name) && out.get("ok") != Some(&json!(false)) {
                rep.fail("barred_call_answered_ok", json!({"turn": t, "call_id": c.call_id, "output": out}));
            }
        }
    }
    if case.stateless {
        // ADR-0005: the history carries the provider's function_call items as well
        let bad: Vec<&str> = others.iter().map(|v| str_of(v, "type")).filter(|ty| *ty != "function_call").collect();
        if !bad.is_empty() {
            rep.fail("followup_extra_items|stateless", json!({"turn": t, "types": bad}));
        }
        let fcs: Vec<(&str, &str, &str)> = others
            .iter()
            .filter(|v| str_of(v, "type") == "function_call")
            .map(|v| (str_of(v, "call_id"), str_of(v, "name"), str_of(v, "arguments")))
            .collect();
        let exp: Vec<(&str, &str, &str)> = calls.iter().map(|c| (c.call_id.as_str(), c.name.as_str(), c.arguments.as_str())).collect();
        if fcs != exp {
            rep.fail(
                "stateless_history_function_calls_mismatch",
                json!({"turn": t, "expected": exp.iter().map(|e| json!([e.0, e.1, e.2])).collect::<Vec<_>>(),
                    "observed": fcs.iter().map(|e| json!([e.0, e.1, e.2])).collect::<Vec<_>>()}),
            );
        }
    } else if !others.is_empty() {
        rep.fail(
            "followup_extra_items|previous_response_id_mode",
            json!({"turn": t, "types": others.iter().map(|v| str_of(v, "type").to_string()).collect::<Vec<_>>()}),
        );
    }
}

#[allow(clippy::too_many_arguments)]
fn finish_classes(
    case: &Case,
    rendered: &[Rendered],
    rep: &mut CaseReport,
    end_reason: &str,
    bound_hit: bool,
    midrun_invalid: bool,
    cfg_invalid: bool,
    started: &[Started],
    processed: &[(usize, usize)],
    dup_emitted: bool,
) {
    let max_calls = case.turns.iter().map(|t| t.items.len()).max().unwrap_or(0);
    let total_calls: usize = case.turns.iter().map(|t| t.items.len()).sum();
    rep.class(format!("turns:{}", case.turns.len()));
    rep.class(format!(
        "calls_per_turn_max:{}",
        match max_calls {
            0 => "0",
            1 => "1",
            2..=3 => "2-3",
            4..=5 => "4-5",
            _ => "6+",
        }
    ));
    rep.class(format!("tool_choice:{}", case.tc.family()));
    rep.class(format!("tool_choice_detail:{}", case.tc.kind()));
    rep.class(if case.stateless { "history:stateless" } else { "history:previous_response_id" });
    rep.class(if case.via_thread { "entry:thread_post" } else { "entry:session_input" });
    rep.class_if(case.parallel, "parallel_tool_calls");
    let mut ids: Vec<&str> = Vec::new();
    let mut dup_same_turn = false;
    let mut dup_cross_turn = false;
    for turn in &case.turns {
        let mut here: Vec<&str> = Vec::new();
        for it in &turn.items {
            if here.contains(&it.call_id.as_str()) {
                dup_same_turn = true;
            } else if ids.contains(&it.call_id.as_str()) {
                dup_cross_turn = true;
            }
            here.push(&it.call_id);
        }
        ids.extend(here);
    }
    rep.class_if(dup_same_turn, "has_duplicate_call_id:same_turn");
    rep.class_if(dup_cross_turn, "has_duplicate_call_id:across_turns");
    let has_dup_done = case.turns.iter().any(|t| t.items.iter().any(|i| i.dup_done));
    rep.class_if(has_dup_done, "has_duplicate_done:generated");
    rep.class_if(dup_emitted, "has_duplicate_done:emitted");
    for t in &case.turns {
        for i in t.items.iter().filter(|i| i.dup_done) {
            rep.class(match (i.dup_variant, i.item_id.is_some()) {
                (1, true) => "duplicate_done:repeat_without_item_id",
                (1, false) => "duplicate_done:identical",
                (2, _) => "duplicate_done:repeat_with_arguments_flipped",
                _ => "duplicate_done:identical",
            });
        }
    }
    rep.class_if(rendered.iter().any(|r| r.out_of_order), "out_of_order_output_index");
    rep.class_if(case.turns.iter().any(|t| t.items.iter().any(|i| i.item_id.is_none())), "item_without_id");
    rep.class_if(case.turns.iter().any(|t| !t.done_marker && t.http_error.is_none()), "turn_without_DONE");
    rep.class_if(case.turns.iter().any(|t| t.items.iter().any(|i| i.call_id.len() > 64)), "call_id_longer_than_schema_allows");
    let barred_processed = processed.iter().filter(|(t, i)| case.tc.bars(&case.turns[*t].items[*i].name)).count();
    rep.class_if(barred_processed > 0, "barred_call");
    rep.count("barred_calls_processed", barred_processed as u64);
    rep.class_if(bound_hit, "bound_hit");
    rep.class_if(total_calls > MAX_TOOL_CALLS, "more_than_32_calls_scripted");
    rep.class_if(cfg_invalid || midrun_invalid, "invalid_request");
    let executed = started.iter().filter(|s| s.ended || s.failed.as_deref().map(|e| !e.contains("tool_choice")).unwrap_or(false)).count();
    rep.class_if(executed > 0, "tool_executed");
    rep.class_if(started.iter().any(|s| s.ended), "tool_ended_seen");
    rep.count("tool_started_frames", started.len() as u64);
    rep.count("calls_processed_model", processed.len() as u64);
    rep.class(format!("end:{end_reason}"));
    if std::env::var_os("C16_DEBUG").is_some() {
        eprintln!("[c16] classes={:?} counters={:?} fails={:?}", rep.classes, rep.counters, rep.fails.iter().map(|f| f.sig.clone()).collect::<Vec<_>>());
    }
    let multi = max_calls >= 2 || case.turns.iter().filter(|t| !t.items.is_empty()).count() >= 2 || case.turns.len() >= 2;
    rep.nontrivial = multi || barred_processed > 0 || dup_same_turn || dup_cross_turn || has_dup_done;
}

fn main() {
    let mut check = Check::new("C16", "exploration");
    check.assume("schema validity is decided by the vendored Open Responses schema through rip_openresponses::validate_create_response_body / validate_tool_choice_param (trusted base: jsonschema + schemas/openresponses/split_components.json)");
    check.assume("'excluded by the configured tool choice': none = every function; a named function = every other function; allowed_tools = every function not listed, and every function with mode none; auto/required exclude nothing (Open Responses tool_choice semantics, docs/03_contracts/openresponses_coverage.md)");
    check.assume("a function call = one function_call output item that reached response.output_item.done (ADR-0005), counted once per item; all argument sources of one item agree and output_index is unique per turn by construction, so no precedence or tie rule is assumed");
    check.assume("the cap: at most 32 calls are processed in a run; a run whose provider asks for more ends max_tool_calls_exceeded; when exactly 32 have been processed both 'follow-up sent' and 'ended max_tool_calls_exceeded without follow-up' are accepted (the docs do not say which); calls over the cap class use tool choices that bar nothing, so the question whether a rejected call counts is never asked");
    check.assume("followup_user_message is unset (not in the property's quantifier); events after [DONE] are not generated (C15/F18); transport faults are C07/C15");
    if EXCLUDE_KNOWN_DUP_DONE && !no_exclude() {
        check.note("F19 excluded by construction: generated duplicate response.output_item.done events are not emitted (counted in excluded_known_F19_duplicate_output_item_done_not_emitted); reproducer: replays/known/C16/F19_duplicate_output_item_done.json");
    }
    let rule = "case = tool_choice x history mode x entry (session input / thread post) x scripted conversation of 1-6 turns (function_call items: streamed with 0-4 argument deltas / arguments.done / done-only / added+done, with and without item ids, duplicate call ids, duplicate done, output_index permuted against arrival, text between, completed/[DONE]/neither; >32 calls; schema-invalid tool_choice; call ids the follow-up schema rejects). non-trivial = >=2 calls in a turn or >=2 turns, or a barred call, or a duplicate call id / done; distinct by case hash";
    let n = check.cases(640, 12_800);
    check.group("loop", rule, GroupOpts { cases: n, watchdog_s: 900, max_shrink_iters: 120, ..Default::default() }, case_strategy, run);
    check.finish();
}
