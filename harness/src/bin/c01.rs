//! C01 — per-stream total order: seq 0,1,2,… with no gap or duplicate, under any schedule.
//!
//! Group `store_sched`: 2–5 OS-thread actors share one ContinuityStore; the harness owns the
//! schedule (actors park at the event-log / cache / index / artifact hook points and are released
//! following a generated choice vector); optional authority restart between two phases.
//! Group `engine_parallel`: parallel thread posts (tool envelopes, stub prompts), sessions, pipes
//! tasks and compaction calls through the real router, free-running.
//! Oracle at quiescence: validated replay succeeds; an independent scan of the raw log finds, for
//! every (stream kind, stream id), seqs exactly 0..n in file order; every acknowledged append is
//! present exactly once.

use std::sync::{Arc, Mutex};
use std::time::Duration;

use axum::http::Method;
use proptest::prelude::*;
use ripd::{
    CompactionAutoScheduleV1Request, CompactionAutoV1Request, CompactionCheckpointCumulativeV1Request,
    ContinuityRunLink, ContinuityStore, ProviderCursorRotateV1Request, ToolSideEffects,
};
use rv::engine::{pick, CaseReport, Check, GroupOpts};
use rv::sched::{set_thread_handler, Controller};
use rv::store::{check_stream_numbering, Sandbox};
use serde::{Deserialize, Serialize};
use serde_json::{json, Value};

#[derive(Debug, Clone, Serialize, Deserialize)]
enum AOp {
    Msg { t: u16, big: bool },
    Run { t: u16 },
    RunEnd,
    Cursor { t: u16 },
    Rotate { t: u16 },
    Side,
    Ckpt { t: u16, stride: u8 },
    Auto { t: u16, stride: u8 },
    Sched { t: u16, stride: u8, execute: bool },
    Branch { t: u16 },
    Handoff { t: u16 },
    /// list the threads, post to the most recently created one (how a client finds a new child)
    PostNewest,
}

#[derive(Debug, Clone, Serialize, Deserialize)]
struct Case {
    pre_threads: u8,
    pre_msgs: u8,
    phase1: Vec<Vec<AOp>>,
    choices1: Vec<u16>,
    restart: bool,
    phase2: Vec<Vec<AOp>>,
    choices2: Vec<u16>,
}

fn aop() -> BoxedStrategy<AOp> {
    let t = || any::<u16>();
    prop_oneof![
        10 => (t(), prop::bool::weighted(0.15)).prop_map(|(t, big)| AOp::Msg { t, big }),
        3 => t().prop_map(|t| AOp::Run { t }),
        3 => Just(AOp::RunEnd),
        2 => t().prop_map(|t| AOp::Cursor { t }),
        1 => t().prop_map(|t| AOp::Rotate { t }),
        2 => Just(AOp::Side),
        2 => (t(), 1u8..4).prop_map(|(t, stride)| AOp::Ckpt { t, stride }),
        3 => (t(), 1u8..4).prop_map(|(t, stride)| AOp::Auto { t, stride }),
        2 => (t(), 1u8..4, any::<bool>()).prop_map(|(t, stride, execute)| AOp::Sched { t, stride, execute }),
        3 => t().prop_map(|t| AOp::Branch { t }),
        2 => t().prop_map(|t| AOp::Handoff { t }),
        4 => Just(AOp::PostNewest),
    ]
    .boxed()
}

fn phase(max_actors: usize) -> BoxedStrategy<Vec<Vec<AOp>>> {
    proptest::collection::vec(proptest::collection::vec(aop(), 1..9), 2..=max_actors).boxed()
}

fn case_strategy() -> BoxedStrategy<Case> {
    (
        1u8..4,
        0u8..6,
        phase(5),
        proptest::collection::vec(any::<u16>(), 0..160),
        prop::bool::weighted(0.4),
        phase(3),
        proptest::collection::vec(any::<u16>(), 0..60),
    )
        .prop_map(|(pre_threads, pre_msgs, phase1, choices1, restart, phase2, choices2)| Case {
            pre_threads,
            pre_msgs,
            phase1,
            choices1,
            restart,
            phase2,
            choices2,
        })
        .boxed()
}

struct Shared {
    threads: Mutex<Vec<String>>,
    acked: Mutex<Vec<String>>,
}

fn actor_body(store: &ContinuityStore, shared: &Shared, ops: &[AOp], actor: usize) {
    let mut last: Option<(String, String, String)> = None; // (thread, message id, run id)
    let mut run_n = 0u64;
    let tid_of = |t: u16| -> String {
        let g = shared.threads.lock().unwrap();
        g[pick(t, g.len())].clone()
    };
    let ack = |id: String| shared.acked.lock().unwrap().push(id);
    for op in ops {
        match op {
            AOp::Msg { t, big } => {
                let tid = tid_of(*t);
                let content = if *big { "xyz".repeat(3500) } else { format!("hello from {actor}") };
                if let Ok(id) = store.append_message(&tid, "user".into(), "cli".into(), content) {
                    last = Some((tid, id.clone(), String::new()));
                    ack(id);
                }
            }
            AOp::Run { t } => {
                let (tid, mid) = match &last {
                    Some((tid, mid, _)) => (tid.clone(), mid.clone()),
                    None => (tid_of(*t), "no-message".to_string()),
                };
                run_n += 1;
                let rid = format!("00000000-0000-4000-8000-{:04}{:08}", actor, run_n);
                if let Ok(id) = store.append_run_spawned(&tid, &mid, &rid, "user".into(), "cli".into()) {
                    last = Some((tid, mid, rid));
                    ack(id);
                }
            }
            AOp::RunEnd => {
                if let Some((tid, mid, rid)) = &last {
                    if !rid.is_empty() {
                        if let Ok(id) = store.append_run_ended(tid, mid, rid, "completed".into(), "user".into(), "cli".into()) {
                            ack(id);
                        }
                    }
                }
            }
            AOp::Cursor { t } => {
                let tid = tid_of(*t);
                if let Ok(id) = ripd::verif::append_provider_cursor_updated(
                    store, &tid, "openresponses", None, Some("m".into()),
                    Some(json!({"previous_response_id": "r"})), "set", None, None, ("user", "cli"),
                ) {
                    ack(id);
                }
            }
            AOp::Rotate { t } => {
                let tid = tid_of(*t);
                if let Ok(r) = store.provider_cursor_rotate_v1(
                    &tid,
                    ProviderCursorRotateV1Request { provider: None, endpoint: None, model: None, reason: None, actor_id: "user".into(), origin: "cli".into() },
                ) {
                    if let Some(id) = r.cursor_event_id {
                        ack(id);
                    }
                }
            }
            AOp::Side => {
                if let Some((tid, mid, rid)) = &last {
                    let link = ContinuityRunLink { continuity_id: tid.clone(), message_id: mid.clone(), actor_id: "user".into(), origin: "cli".into() };
                    if let Ok(id) = store.append_tool_side_effects(
                        &link,
                        if rid.is_empty() { "run-x" } else { rid },
                        ToolSideEffects { tool_id: "t1".into(), tool_name: "write".into(), affected_paths: Some(vec!["a.txt".into()]), checkpoint_id: None },
                    ) {
                        ack(id);
                    }
                }
            }
            AOp::Ckpt { t, stride } => {
                let tid = tid_of(*t);
                let _ = store.compaction_checkpoint_cumulative_v1(
                    &tid,
                    CompactionCheckpointCumulativeV1Request {
                        summary_markdown: Some("s".into()), summary_artifact_id: None, to_message_id: None, to_seq: None,
                        stride_messages: Some(*stride as u64), actor_id: "user".into(), origin: "cli".into(),
                    },
                );
            }
            AOp::Auto { t, stride } => {
                let tid = tid_of(*t);
                let _ = store.compaction_auto_v1(
                    &tid,
                    CompactionAutoV1Request { stride_messages: Some(*stride as u64), max_new_checkpoints: Some(2), dry_run: None, actor_id: "user".into(), origin: "cli".into() },
                );
            }
            AOp::Sched { t, stride, execute } => {
                let tid = tid_of(*t);
                let _ = store.compaction_auto_schedule_v1(
                    &tid,
                    CompactionAutoScheduleV1Request {
                        stride_messages: Some(*stride as u64), max_new_checkpoints: Some(1), block_on_inflight: Some(false),
                        execute: Some(*execute), dry_run: None, actor_id: "user".into(), origin: "cli".into(),
                    },
                );
            }
            AOp::Branch { t } => {
                let tid = tid_of(*t);
                let _ = store.branch(&tid, None, None, None, "user".into(), "cli".into());
                // the child becomes visible to other clients through the thread list, not here
            }
            AOp::Handoff { t } => {
                let tid = tid_of(*t);
                let _ = store.handoff(&tid, None, (Some("sum".into()), None), None, None, ("user".into(), "cli".into()));
            }
            AOp::PostNewest => {
                let mut metas = store.list();
                metas.sort_by(|a, b| (a.created_at_ms, &a.continuity_id).cmp(&(b.created_at_ms, &b.continuity_id)));
                if let Some(newest) = metas.last() {
                    let tid = newest.continuity_id.clone();
                    {
                        let mut g = shared.threads.lock().unwrap();
                        if !g.contains(&tid) {
                            g.push(tid.clone());
                        }
                    }
                    if let Ok(id) = store.append_message(&tid, "user".into(), "cli".into(), "to the newest".into()) {
                        last = Some((tid, id.clone(), String::new()));
                        ack(id);
                    }
                }
            }
        }
    }
}

/// Run one phase under the controller. Returns (completed, interleaved_same_stream).
fn run_phase(sb: &Sandbox, shared: &Arc<Shared>, actors: &[Vec<AOp>], choices: &[u16]) -> bool {
    let live = Arc::new(sb.open());
    let n = actors.len();
    let ctrl = Controller::new(n);
    ctrl.only_points(&["log.before_write", "log.after_flush", "cache.done", "index.after_tmp", "artifact.after_tmp"]);
    let mut handles = Vec::new();
    for (i, ops) in actors.iter().enumerate() {
        let live = live.clone();
        let shared = shared.clone();
        let ctrl = ctrl.clone();
        let ops = ops.clone();
        handles.push(std::thread::spawn(move || {
            set_thread_handler(Some(ctrl.thread_handler(i)));
            ctrl.arrive(i, "start");
            let _ = rv::engine::runner::catch(|| actor_body(&live.store, &shared, &ops, i));
            set_thread_handler(None);
            ctrl.finish(i);
        }));
    }
    let ok = ctrl.run(choices, Duration::from_secs(60));
    ctrl.release_all();
    for h in handles {
        let _ = h.join();
    }
    ok
}

fn verdict(sb: &Sandbox, shared: &Shared, rep: &mut CaseReport, stage: &str) {
    let log = rip_log::EventLog::new(sb.log_path()).expect("log");
    let validated = log.replay_validated();
    let values = match sb.truth_values() {
        Ok(v) => v,
        Err(e) => {
            rep.fail("log_unreadable", json!({"stage": stage, "error": e}));
            return;
        }
    };
    if let Err(e) = check_stream_numbering(&values) {
        // classify the offender for the signature
        let what = offender_kind(&values);
        rep.fail(format!("numbering|{what}"), json!({"stage": stage, "error": e}));
    } else if let Err(e) = validated {
        rep.fail("replay_validated_fails", json!({"stage": stage, "error": e.to_string()}));
    }
    let acked = shared.acked.lock().unwrap().clone();
    for id in acked {
        let n = values.iter().filter(|v| v["id"] == id.as_str()).count();
        if n != 1 {
            rep.fail("acknowledged_append_count", json!({"stage": stage, "id": id, "count": n}));
        }
    }
}

/// Which frame type carries the first out-of-order seq (for specific signatures).
fn offender_kind(values: &[Value]) -> String {
    let mut next: std::collections::BTreeMap<(String, String), u64> = Default::default();
    for v in values {
        let k = (v["stream_kind"].as_str().unwrap_or("?").to_string(), v["stream_id"].as_str().unwrap_or("?").to_string());
        let seq = v["seq"].as_u64().unwrap_or(u64::MAX);
        let e = next.entry(k.clone()).or_insert(0);
        if seq != *e {
            return format!("{}|{}|expected_{}_got_{}", k.0, v["type"].as_str().unwrap_or("?"), if *e <= 2 { e.to_string() } else { "n".into() }, if seq <= 2 { seq.to_string() } else { "m".into() });
        }
        *e += 1;
    }
    "none".into()
}

fn run(case: &Case) -> CaseReport {
    let mut rep = CaseReport::new();
    rv::sched::install();
    let sb = Sandbox::new("c01");
    let shared = Arc::new(Shared { threads: Mutex::new(Vec::new()), acked: Mutex::new(Vec::new()) });
    // pre-state, single threaded
    {
        let live = sb.open();
        let main = live.store.ensure_default().expect("ensure");
        shared.threads.lock().unwrap().push(main.clone());
        for i in 0..case.pre_msgs {
            let _ = live.store.append_message(&main, "user".into(), "cli".into(), format!("pre {i}"));
        }
        for _ in 1..case.pre_threads {
            if let Ok((child, _, _)) = live.store.branch(&main, None, None, None, "user".into(), "cli".into()) {
                shared.threads.lock().unwrap().push(child);
            }
        }
    }
    let done1 = run_phase(&sb, &shared, &case.phase1, &case.choices1);
    if !done1 {
        rep.inconclusive("phase1_deadline");
        return rep;
    }
    verdict(&sb, &shared, &mut rep, "phase1");
    if !rep.ok() {
        return rep;
    }
    if case.restart {
        let done2 = run_phase(&sb, &shared, &case.phase2, &case.choices2);
        if !done2 {
            rep.inconclusive("phase2_deadline");
            return rep;
        }
        verdict(&sb, &shared, &mut rep, "after_restart");
    }
    // non-trivial: two actors' frames interleave on one stream
    if let Ok(values) = sb.truth_values() {
        let frames = values.len();
        rep.count("frames", frames as u64);
    }
    let appenders = case.phase1.iter().filter(|a| !a.is_empty()).count();
    rep.nontrivial = appenders >= 2;
    rep.class_if(case.restart, "restart_between_phases");
    rep.class(format!("actors:{}", case.phase1.len()));
    rep.class_if(
        case.phase1.iter().flatten().any(|o| matches!(o, AOp::Branch { .. } | AOp::Handoff { .. }))
            && case.phase1.iter().flatten().any(|o| matches!(o, AOp::PostNewest)),
        "branch_races_post_to_newest",
    );
    rep
}

// ---------------------------------------------------------------------------------------------
// engine_parallel: sessions, tasks and thread posts through the real router, free-running
// ---------------------------------------------------------------------------------------------

#[derive(Debug, Clone, Serialize, Deserialize)]
enum EOp {
    PostStub,
    PostTool { which: u8 },
    Session { which: u8 },
    Task { lines: u8 },
    Auto { stride: u8 },
    Branch,
}

#[derive(Debug, Clone, Serialize, Deserialize)]
struct ECase {
    pre_msgs: u8,
    ops: Vec<EOp>,
    /// cross-surface follow-ups: a further `POST /sessions/{id}/input` aimed at the session of a
    /// started thread run or plain session (index into the started list, input kind, `early` = sent
    /// while the first run may still be going, else after it ended). The documented answer is a
    /// refusal; whatever the answer, the session stream must stay 0,1,2,...
    #[serde(default)]
    extra: Vec<(u16, u8, bool)>,
}

fn ecase_strategy() -> BoxedStrategy<ECase> {
    let op = prop_oneof![
        4 => Just(EOp::PostStub),
        4 => (0u8..4).prop_map(|which| EOp::PostTool { which }),
        3 => (0u8..4).prop_map(|which| EOp::Session { which }),
        3 => (1u8..6).prop_map(|lines| EOp::Task { lines }),
        2 => (1u8..3).prop_map(|stride| EOp::Auto { stride }),
        1 => Just(EOp::Branch),
    ];
    (0u8..5, proptest::collection::vec(op, 2..9), proptest::collection::vec((any::<u16>(), 0u8..4, any::<bool>()), 0..4))
        .prop_map(|(pre_msgs, ops, extra)| ECase { pre_msgs, ops, extra })
        .boxed()
}

fn tool_input(which: u8, n: usize) -> String {
    match which % 4 {
        0 => json!({"tool": "write", "args": {"path": format!("f{n}.txt"), "content": "x"}}).to_string(),
        1 => json!({"tool": "ls", "args": {"path": "."}}).to_string(),
        2 => json!({"tool": "bash", "args": {"command": "printf 'a\\nb\\nc\\n'"}}).to_string(),
        _ => format!("plain prompt {n}"),
    }
}

thread_local! {
    static RT: tokio::runtime::Runtime = rv::runs::runtime(4);
}

fn run_engine(case: &ECase) -> CaseReport {
    let mut rep = CaseReport::new();
    RT.with(|rt| {
        rt.block_on(async {
            let auth = rv::runs::Authority::new("c01e", None);
            let Some(thread) = auth.ensure_thread().await else {
                rep.inconclusive("no_thread");
                return;
            };
            for i in 0..case.pre_msgs {
                let _ = auth.post_message(&thread, &format!("pre {i}"), None).await;
            }
            let mut futs = Vec::new();
            for (n, op) in case.ops.iter().enumerate() {
                let auth = &auth;
                let thread = thread.clone();
                let op = op.clone();
                futs.push(async move {
                    match op {
                        EOp::PostStub => {
                            let (_s, v) = auth.post_message(&thread, &format!("prompt {n}"), None).await;
                            v["session_id"].as_str().map(|s| ("run".to_string(), s.to_string()))
                        }
                        EOp::PostTool { which } => {
                            let (_s, v) = auth.post_message(&thread, &tool_input(which, n), None).await;
                            v["session_id"].as_str().map(|s| ("run".to_string(), s.to_string()))
                        }
                        EOp::Session { which } => {
                            let sid = auth.create_session().await?;
                            let _ = auth.send_input(&sid, &tool_input(which, n)).await;
                            Some(("session".to_string(), sid))
                        }
                        EOp::Task { lines } => {
                            let cmd = format!("for i in $(seq 1 {lines}); do echo line $i; done");
                            let (_s, v) = rv::http::call_json(
                                &auth.router,
                                Method::POST,
                                "/tasks",
                                Some(json!({"tool": "bash", "args": {"command": cmd}, "execution_mode": "pipes"})),
                            )
                            .await;
                            v["task_id"].as_str().map(|s| ("task".to_string(), s.to_string()))
                        }
                        EOp::Auto { stride } => {
                            let _ = rv::http::call_json(
                                &auth.router,
                                Method::POST,
                                &format!("/threads/{thread}/compaction-auto"),
                                Some(json!({"stride_messages": stride, "max_new_checkpoints": 2, "actor_id": "user", "origin": "cli"})),
                            )
                            .await;
                            None
                        }
                        EOp::Branch => {
                            let _ = rv::http::call_json(
                                &auth.router,
                                Method::POST,
                                &format!("/threads/{thread}/branch"),
                                Some(json!({"actor_id": "user", "origin": "cli"})),
                            )
                            .await;
                            None
                        }
                    }
                });
            }
            let started: Vec<Option<(String, String)>> = futures_util::future::join_all(futs).await;
            let sessions: Vec<String> =
                started.iter().flatten().filter(|s| s.0 == "run" || s.0 == "session").map(|s| s.1.clone()).collect();
            let mut extra_sent = 0u64;
            let mut extra_accepted = 0u64;
            if !sessions.is_empty() {
                let early = case.extra.iter().filter(|e| e.2).map(|(i, w, _)| {
                    let sid = sessions[pick(*i, sessions.len())].clone();
                    let auth = &auth;
                    async move { auth.send_input(&sid, &tool_input(*w, 900)).await }
                });
                for st in futures_util::future::join_all(early).await {
                    extra_sent += 1;
                    extra_accepted += st.is_success() as u64;
                }
            }
            // quiescence
            for s in started.iter().flatten() {
                let ok = match s.0.as_str() {
                    "run" => auth.wait_run_ended(&s.1, Duration::from_secs(30)).await,
                    "session" => auth.wait_snapshot(&s.1, Duration::from_secs(30)).await,
                    _ => wait_task_terminal(&auth, &s.1, Duration::from_secs(30)).await,
                };
                if !ok {
                    rep.inconclusive("quiescence_timeout");
                    return;
                }
            }
            if !sessions.is_empty() {
                for (i, w, _) in case.extra.iter().filter(|e| !e.2) {
                    let sid = &sessions[pick(*i, sessions.len())];
                    let st = auth.send_input(sid, &tool_input(*w, 901)).await;
                    extra_sent += 1;
                    extra_accepted += st.is_success() as u64;
                }
            }
            rep.count("extra_inputs", extra_sent);
            rep.count("extra_inputs_accepted", extra_accepted);
            rep.class_if(extra_sent > 0, "further_input_to_a_started_session");
            if extra_accepted > 0 {
                // an accepted input starts a run: give it time to write before judging the log
                tokio::time::sleep(Duration::from_millis(400)).await;
            }
            // compaction jobs spawned over HTTP run in the background: wait until the log is stable
            let mut last = auth.sandbox.log_bytes().len();
            for _ in 0..200 {
                tokio::time::sleep(Duration::from_millis(15)).await;
                let now = auth.sandbox.log_bytes().len();
                if now == last && open_jobs(&auth.sandbox) == 0 {
                    break;
                }
                last = now;
            }
            let shared = Shared { threads: Mutex::new(Vec::new()), acked: Mutex::new(Vec::new()) };
            verdict(&auth.sandbox, &shared, &mut rep, "engine");
            let kinds: std::collections::BTreeSet<String> = started.iter().flatten().map(|s| s.0.clone()).collect();
            for k in &kinds {
                rep.class(format!("has_{k}"));
            }
            rep.nontrivial = started.iter().flatten().count() >= 2;
        })
    });
    rep
}

// ---------------------------------------------------------------------------------------------
// task_two_pumps: ONE background task writing stdout and stderr at once (two pump tasks, the main
// future and the control path all emit on the same task stream). The producer side is perturbed at
// the emit hook: an emitter whose seq matches a generated residue class is held for a generated
// time between taking its seq and publishing, so the other pump runs past it if nothing stops it.
// The perturbation only changes which schedule runs; the verdict comes from the log.
// ---------------------------------------------------------------------------------------------

#[derive(Debug, Clone, Serialize, Deserialize)]
struct PumpCase {
    /// lines per stream and bytes per line
    lines: u16,
    width: u16,
    /// 0 alternate line by line, 1 two background writers at once, 2 stdout burst then stderr burst
    shape: u8,
    modulus: u8,
    residue: u8,
    hold_us: u16,
    tasks: u8,
}

fn pump_case_strategy() -> BoxedStrategy<PumpCase> {
    (1u16..40, prop_oneof![3 => 1u16..80, 1 => 2000u16..9000], 0u8..3, 2u8..6, 0u8..6, 100u16..3000, 1u8..4)
        .prop_map(|(lines, width, shape, modulus, residue, hold_us, tasks)| PumpCase { lines, width, shape, modulus, residue: residue % modulus, hold_us, tasks })
        .boxed()
}

struct PumpSlot {
    plan: Mutex<Option<(u64, u64, u64)>>,
    held: std::sync::atomic::AtomicU64,
}

fn pump_handler(slot: Arc<PumpSlot>) -> Arc<dyn Fn(&str, &str) + Send + Sync> {
    Arc::new(move |point: &str, ctx: &str| {
        if point != "emit.before_publish" {
            return;
        }
        let plan = *slot.plan.lock().unwrap_or_else(|e| e.into_inner());
        let Some((modulus, residue, hold_us)) = plan else { return };
        let seq: u64 = ctx.rsplit(':').next().and_then(|s| s.parse().ok()).unwrap_or(0);
        if seq % modulus == residue {
            slot.held.fetch_add(1, std::sync::atomic::Ordering::Relaxed);
            std::thread::sleep(Duration::from_micros(hold_us));
        }
    })
}

thread_local! {
    static PUMP_RT: (tokio::runtime::Runtime, Arc<PumpSlot>) = {
        let slot = Arc::new(PumpSlot { plan: Mutex::new(None), held: std::sync::atomic::AtomicU64::new(0) });
        let s2 = slot.clone();
        let rt = tokio::runtime::Builder::new_multi_thread()
            .worker_threads(4)
            .enable_all()
            .on_thread_start(move || rv::sched::set_thread_handler(Some(pump_handler(s2.clone()))))
            .build()
            .expect("runtime");
        (rt, slot)
    };
}

fn run_pumps(case: &PumpCase) -> CaseReport {
    let mut rep = CaseReport::new();
    PUMP_RT.with(|(rt, slot)| {
        let held0 = slot.held.load(std::sync::atomic::Ordering::Relaxed);
        *slot.plan.lock().unwrap_or_else(|e| e.into_inner()) = Some((case.modulus as u64, case.residue as u64, case.hold_us as u64));
        rt.block_on(async {
            let auth = rv::runs::Authority::new("c01p", None);
            let (l, w) = (case.lines, case.width);
            let cmd = match case.shape {
                0 => format!("x=$(head -c {w} /dev/zero | tr '\\0' a); for i in $(seq 1 {l}); do echo \"o$i $x\"; echo \"e$i $x\" >&2; done"),
                1 => format!("x=$(head -c {w} /dev/zero | tr '\\0' a); (for i in $(seq 1 {l}); do echo \"o$i $x\"; done) & (for i in $(seq 1 {l}); do echo \"e$i $x\" >&2; done); wait"),
                _ => format!("x=$(head -c {w} /dev/zero | tr '\\0' a); for i in $(seq 1 {l}); do echo \"o$i $x\"; done; for i in $(seq 1 {l}); do echo \"e$i $x\" >&2; done"),
            };
            let mut ids = Vec::new();
            for _ in 0..case.tasks {
                let (_s, v) = rv::http::call_json(&auth.router, Method::POST, "/tasks", Some(json!({"tool": "bash", "args": {"command": cmd}, "execution_mode": "pipes"}))).await;
                if let Some(t) = v["task_id"].as_str() {
                    ids.push(t.to_string());
                }
            }
            for t in &ids {
                if !wait_task_terminal(&auth, t, Duration::from_secs(60)).await {
                    rep.inconclusive("quiescence_timeout");
                    return;
                }
            }
            tokio::time::sleep(Duration::from_millis(10)).await;
            let shared = Shared { threads: Mutex::new(Vec::new()), acked: Mutex::new(Vec::new()) };
            verdict(&auth.sandbox, &shared, &mut rep, "task_two_pumps");
            let frames = auth.sandbox.truth_values().unwrap_or_default().iter().filter(|v| v["stream_kind"] == "task").count();
            rep.count("task_frames", frames as u64);
            rep.nontrivial = !ids.is_empty() && frames >= 6;
        });
        *slot.plan.lock().unwrap_or_else(|e| e.into_inner()) = None;
        rep.count("emitters_held", slot.held.load(std::sync::atomic::Ordering::Relaxed) - held0);
        rep.class(match case.shape { 0 => "shape:alternating", 1 => "shape:two_writers_at_once", _ => "shape:bursts" });
    });
    rep
}

fn open_jobs(sb: &Sandbox) -> usize {
    let values = sb.truth_values().unwrap_or_default();
    let spawned: Vec<&str> = values.iter().filter(|v| v["type"] == "continuity_job_spawned").filter_map(|v| v["job_id"].as_str()).collect();
    spawned
        .iter()
        .filter(|j| !values.iter().any(|v| v["type"] == "continuity_job_ended" && v["job_id"] == **j))
        .count()
}

async fn wait_task_terminal(auth: &rv::runs::Authority, task: &str, timeout: Duration) -> bool {
    let t0 = std::time::Instant::now();
    loop {
        let values = auth.sandbox.truth_values().unwrap_or_default();
        if values.iter().any(|v| {
            v["stream_kind"] == "task"
                && v["stream_id"] == task
                && v["type"] == "tool_task_status"
                && matches!(v["status"].as_str(), Some("exited") | Some("failed") | Some("cancelled"))
        }) {
            return true;
        }
        if t0.elapsed() > timeout {
            return false;
        }
        tokio::time::sleep(Duration::from_millis(5)).await;
    }
}

fn main() {
    let mut check = Check::new("C01", "exploration");
    check.assume("schedules are explored at the granularity of the hook points (event-log write, end of cache appends, index and artifact temp files); a released actor that does not reach its next point within a 4 ms quantum is treated as blocked on a lock and another actor is released: this changes which schedule is explored, never the verdict");
    check.assume("every explored schedule is a real execution of the real code; verdicts are computed from the resulting log only");
    let n = check.cases(500, 15_000);
    check.group(
        "store_sched",
        "2-5 OS-thread actors over one ContinuityStore with generated op lists (messages incl. >8 KiB frames, runs, cursors, rotations, side effects, manual/auto/scheduled compaction, branch, handoff, 'list threads then post to the newest') on shared and distinct threads, released at hook points following a generated choice vector; optional authority restart and a second concurrent phase. non-trivial = >=2 actors appending; distinct by case hash",
        GroupOpts { cases: n, max_shrink_iters: 300, watchdog_s: 600, ..Default::default() },
        case_strategy,
        run,
    );
    let n = check.cases(160, 4000);
    check.group(
        "engine_parallel",
        "parallel thread posts (stub prompts, write/ls/bash tool envelopes), plain sessions, pipes tasks, auto-compaction and branch requests issued concurrently through the real router (free-running), followed in half of the cases by further inputs aimed at the sessions those posts and sessions created (cross-surface: thread post, then session input); non-trivial = >=2 concurrent producers",
        GroupOpts { cases: n, max_shrink_iters: 60, watchdog_s: 600, ..Default::default() },
        ecase_strategy,
        run_engine,
    );
    let n = check.cases(200, 5000);
    check.group(
        "task_two_pumps",
        "1-3 pipes tasks whose command writes 1-39 lines (1-80 bytes or 2-9 KB wide) to stdout AND stderr (alternating, two writers at once, or two bursts): the two pump tasks, the main future and the control path emit on one task stream; every emitter whose seq falls in a generated residue class is held 0.1-3 ms at the emit hook (between taking its seq and publishing). Verdict from the log: validated replay + per-stream numbering in file order. non-trivial = >=6 task frames; distinct by case hash",
        GroupOpts { cases: n, max_shrink_iters: 60, watchdog_s: 600, ..Default::default() },
        pump_case_strategy,
        run_pumps,
    );
    check.finish();
}
