//! C05 — a crash at any write boundary leaves a store that restarts gap-free.
//!
//! The history is generated; the crash points inside it are ENUMERATED: at every hook-named
//! file-system boundary (log / sidecar caches / thread index / artifacts) reached by every
//! operation the harness byte-copies `data/` and `<ws>/.rip/` (single actor ⇒ a consistent crash
//! image: process death between two file-system effects, no torn single write, no lost page
//! cache). Each image is reopened by a fresh log + store and checked.

use std::collections::{BTreeMap, BTreeSet};
use std::path::PathBuf;
use std::sync::{Arc, Mutex};

use proptest::prelude::*;
use rv::engine::findings::KnownFindings;
use rv::engine::scratch::{copy_dir, Scratch};
use rv::engine::{pick, CaseReport, Check, GroupOpts};
use rv::model;
use rv::store::{check_stream_numbering, ops_strategy, Interp, Op, OpWeights, Sandbox};
use rv::surface::{model_surface, params_strategy, surface, surface_appending, Outcome, Params};
use serde::{Deserialize, Serialize};
use serde_json::{json, Value};

#[derive(Debug, Clone, Serialize, Deserialize)]
struct Case {
    ops: Vec<Op>,
    cont: Vec<Op>,
    params: Params,
    /// which crash images get the (expensive) full read-surface comparison: every `stride`-th
    surface_stride: u8,
    /// after the restart OTHER streams write first: a session stream of this many KiB is appended
    /// to the log before the continuation touches any thread (0 = none)
    #[serde(default)]
    noise_kb: u16,
    /// instead of `noise_kb`: the other stream writes exactly so much that the start of the last
    /// 1 MiB of the log falls INSIDE the last frame of the crash image (at this fraction of it):
    /// the boundary a bounded backwards scan has to get right when it widens its window
    #[serde(default)]
    noise_boundary: Option<u8>,
    /// another stream wrote this many KiB BEFORE the history starts, so that every crash image is
    /// longer than the 64 KiB chunks of the torn-tail scan
    #[serde(default)]
    pre_noise_kb: u16,
    /// death in the MIDDLE of a cache write: for every pair of neighbouring crash points of one
    /// operation between which a file under continuity_streams/ grew, one more image is judged: the
    /// earlier image with that file extended by this fraction (x/256, at least one byte, never
    /// all) of the bytes the later image added - a write can stop at any byte. `None` = no such images.
    #[serde(default)]
    torn_cache: Option<u8>,
}

fn weights() -> OpWeights {
    OpWeights {
        msg: 12,
        run: 4,
        run_linked: 2,
        cursor: 3,
        side_effects: 2,
        checkpoint: 7,
        auto: 7,
        branch: 4,
        restart: 1,
        ensure: 1,
    }
}

fn case_strategy() -> BoxedStrategy<Case> {
    (
        ops_strategy(weights(), 11),
        proptest::collection::vec(
            rv::store::op_strategy(OpWeights { branch: 1, restart: 0, ensure: 0, auto: 2, ..weights() }),
            2..6,
        ),
        params_strategy(),
        2u8..6,
        noise_strategy(),
        boundary_strategy(),
        prop_oneof![7 => Just(0u16), 1 => 66u16..90],
        proptest::option::weighted(0.6, any::<u8>()),
    )
        .prop_map(|(ops, cont, params, surface_stride, noise_kb, noise_boundary, pre_noise_kb, torn_cache)| Case { ops, cont, params, surface_stride, noise_kb, noise_boundary, pre_noise_kb, torn_cache })
        .boxed()
}

fn noise_strategy() -> BoxedStrategy<u16> {
    prop_oneof![3 => Just(0u16), 2 => 1u16..400, 2 => 1000u16..1400].boxed()
}

fn boundary_strategy() -> BoxedStrategy<Option<u8>> {
    prop_oneof![3 => Just(None), 1 => (1u8..=254).prop_map(Some)].boxed()
}

/// The other stream writes EXACTLY `1 MiB - delta` bytes, delta inside the last frame of the log.
/// Returns false when the log is too small to aim.
fn append_noise_to_boundary(log: &rip_log::EventLog, log_path: &std::path::Path, frac: u8, tag: usize) -> bool {
    const WINDOW: usize = 1024 * 1024;
    let bytes = std::fs::read(log_path).unwrap_or_default();
    if bytes.len() < 3 || *bytes.last().unwrap() != b'\n' {
        return false;
    }
    let a = bytes[..bytes.len() - 1].iter().rposition(|b| *b == b'\n').map(|p| p + 1).unwrap_or(0);
    let frame_len = bytes.len() - a;
    if frame_len < 4 {
        return false;
    }
    let delta = 1 + (frame_len - 2) * frac as usize / 255;
    let target = WINDOW - delta;
    let sid = format!("aim-{tag}");
    let size_of = |seq: u64, text_len: usize| -> usize {
        let ev = rip_kernel::Event { id: format!("{sid}-{seq}"), session_id: sid.clone(), timestamp_ms: 0, seq, kind: rip_kernel::EventKind::OutputTextDelta { delta: "n".repeat(text_len) } };
        serde_json::to_string(&ev).map(|s| s.len() + 1).unwrap_or(0)
    };
    let started = rip_kernel::Event { id: format!("{sid}-0"), session_id: sid.clone(), timestamp_ms: 0, seq: 0, kind: rip_kernel::EventKind::SessionStarted { input: "aim".to_string() } };
    let mut remaining = target.saturating_sub(serde_json::to_string(&started).map(|s| s.len() + 1).unwrap_or(0));
    let _ = log.append(&started);
    let mut seq = 1u64;
    while remaining > 48 * 1024 {
        let n = size_of(seq, 32 * 1024);
        let ev = rip_kernel::Event { id: format!("{sid}-{seq}"), session_id: sid.clone(), timestamp_ms: 0, seq, kind: rip_kernel::EventKind::OutputTextDelta { delta: "n".repeat(32 * 1024) } };
        let _ = log.append(&ev);
        remaining -= n;
        seq += 1;
    }
    let overhead = size_of(seq, 0);
    if remaining < overhead {
        return false;
    }
    let ev = rip_kernel::Event { id: format!("{sid}-{seq}"), session_id: sid.clone(), timestamp_ms: 0, seq, kind: rip_kernel::EventKind::OutputTextDelta { delta: "n".repeat(remaining - overhead) } };
    let _ = log.append(&ev);
    let now = std::fs::metadata(log_path).map(|m| m.len() as usize).unwrap_or(0);
    now == bytes.len() + target
}

/// A session that runs right after the restart, before any thread is touched: `kb` KiB of output
/// frames on a fresh session stream, appended through the recovered log object.
fn append_noise_session(log: &rip_log::EventLog, kb: u16, tag: usize) {
    if kb == 0 {
        return;
    }
    let sid = format!("noise-{tag}");
    let chunk = "n".repeat(32 * 1024);
    let mut seq = 0u64;
    let mut push = |kind: rip_kernel::EventKind| {
        let ev = rip_kernel::Event { id: format!("{sid}-{seq}"), session_id: sid.clone(), timestamp_ms: 0, seq, kind };
        let _ = log.append(&ev);
        seq += 1;
    };
    push(rip_kernel::EventKind::SessionStarted { input: "noise".to_string() });
    let mut left = kb as usize * 1024;
    while left > 0 {
        let n = left.min(chunk.len());
        push(rip_kernel::EventKind::OutputTextDelta { delta: chunk[..n].to_string() });
        left -= n;
    }
    push(rip_kernel::EventKind::SessionEnded { reason: "completed".to_string() });
}

#[derive(Clone)]
struct Snap {
    dir: PathBuf,
    op: usize,
    point: String,
    ctx: String,
    /// index of this point within its op (0 = first point of the op)
    nth_in_op: usize,
    /// image of a death in the middle of a cache write (built after the run, see `torn_images`)
    torn: bool,
}

struct Recorder {
    data: PathBuf,
    rip: PathBuf,
    root: PathBuf,
    cur_op: usize,
    nth_in_op: usize,
    snaps: Vec<Snap>,
    enabled: bool,
    /// run_crash only: thinning of session-frame log points
    session_points: usize,
    session_stride: usize,
}

fn is_boundary(point: &str) -> bool {
    point.starts_with("log.")
        || point.starts_with("cache.")
        || point.starts_with("index.")
        || point.starts_with("artifact.")
        || point.starts_with("snapshot.")
}

/// Ids an acknowledged op promises to have made durable.
fn acked_ids(v: &Value) -> Vec<String> {
    let mut out = Vec::new();
    for key in ["message_id", "event_id", "cursor_event_id"] {
        if let Some(s) = v.get(key).and_then(|x| x.as_str()) {
            out.push(s.to_string());
        }
    }
    out
}

fn count_id(values: &[Value], id: &str) -> usize {
    values.iter().filter(|v| v["id"] == id).count()
}

fn recovered_sandbox(snap: &Snap) -> Sandbox {
    let sb = Sandbox::new("c05r");
    let _ = copy_dir(&snap.dir.join("data"), &sb.data);
    let _ = copy_dir(&snap.dir.join("rip"), &sb.ws.join(".rip"));
    sb
}

fn check_artifacts(sb: &Sandbox, values: &[Value], point: &str, rep: &mut CaseReport) {
    for v in values {
        let ty = v["type"].as_str().unwrap_or("");
        let id = match ty {
            "continuity_compaction_checkpoint_created" => v["summary_artifact_id"].as_str(),
            // only bundles written by the call itself (inline markdown given); ids passed in by the
            // caller are the caller's business
            "continuity_handoff_created" if v.get("summary_markdown").map(|m| !m.is_null()).unwrap_or(false) => {
                v["summary_artifact_id"].as_str()
            }
            _ => None,
        };
        let Some(id) = id else { continue };
        let ok = std::fs::read(sb.blob_path(id))
            .ok()
            .and_then(|b| serde_json::from_slice::<Value>(&b).ok())
            .is_some();
        if !ok {
            rep.fail(
                format!("recovery|{point}|artifact_unresolvable|{ty}"),
                json!({"artifact_id": id, "frame_seq": v["seq"], "thread": v["stream_id"]}),
            );
        }
    }
}

fn surface_compare(it: &Interp, p: &Params, point: &str, stage: &str, rep: &mut CaseReport) {
    let sb = &it.sandbox;
    let b = sb.fork("c05b");
    let _ = std::fs::remove_dir_all(b.streams_dir());
    let b_live = b.open();
    for t in &it.threads {
        let tid = t.id.as_str();
        let Ok(truth) = sb.truth_thread(tid) else { continue };
        if truth.is_empty() {
            continue;
        }
        let msgs = model::messages(&truth);
        let anchor = if msgs.is_empty() { None } else { Some(msgs[pick(p.anchor, msgs.len())].1.clone()) };
        let m = model_surface(tid, &truth, p, it);
        let mut a = surface_appending(sb, false, tid, p, it);
        let mut bs = surface_appending(&b, true, tid, p, it);
        a.extend(surface(&it.live, sb, tid, p, anchor.as_deref()));
        bs.extend(surface(&b_live, &b, tid, p, anchor.as_deref()));
        rep.count("reads_compared", a.len() as u64);
        for (key, av) in &a {
            let read = key.split('#').next().unwrap_or(key);
            let bv = bs.get(key).cloned().unwrap_or(Outcome::Skipped);
            if let Outcome::NonTerm(l) = av {
                rep.fail(format!("recovery|{point}|non_termination|{l}"), json!({"stage": stage, "read": read}));
                continue;
            }
            if let Outcome::Panic(pn) = av {
                rep.fail(format!("recovery|{point}|panic|{read}"), json!({"stage": stage, "panic": pn}));
                continue;
            }
            let expected = m.get(key).cloned().unwrap_or(bv.clone());
            if m.contains_key(key) && bv != expected {
                rep.fail(
                    format!("recovery|{point}|nocache_divergence|{read}"),
                    json!({"stage": stage, "thread": tid, "B": bv.brief(), "M": expected.brief()}),
                );
            } else if *av != expected {
                rep.fail(
                    format!("recovery|{point}|surface|{read}"),
                    json!({"stage": stage, "thread": tid, "A": av.brief(), "expected": expected.brief()}),
                );
            }
        }
    }
}

/// Images of a death in the middle of a cache write, derived from neighbouring hook-point images
/// of one operation: the earlier image plus a strict, non-empty prefix of what the later image
/// added to ONE file of the cache directory.
fn torn_images(snaps: &[Snap], frac: u8, root: &std::path::Path) -> Vec<Snap> {
    let mut out = Vec::new();
    for w in snaps.windows(2) {
        let (a, b) = (&w[0], &w[1]);
        if a.op != b.op || !b.point.starts_with("cache.") || out.len() >= 60 {
            continue;
        }
        let (da, db) = (a.dir.join("data").join("continuity_streams"), b.dir.join("data").join("continuity_streams"));
        let Ok(rd) = std::fs::read_dir(&db) else { continue };
        let mut names: Vec<std::ffi::OsString> = rd.flatten().filter(|e| e.path().is_file()).map(|e| e.file_name()).collect();
        names.sort();
        for name in names {
            let after = std::fs::read(db.join(&name)).unwrap_or_default();
            let before = std::fs::read(da.join(&name)).unwrap_or_default();
            if after.len() < before.len() + 2 || !after.starts_with(&before) {
                continue;
            }
            let delta = after.len() - before.len();
            let take = (1 + (frac as usize * (delta - 1)) / 256).min(delta - 1);
            let dir = root.join(format!("t{}", out.len()));
            if copy_dir(&a.dir, &dir).is_err() {
                continue;
            }
            let streams = dir.join("data").join("continuity_streams");
            let _ = std::fs::create_dir_all(&streams);
            if std::fs::write(streams.join(&name), &after[..before.len() + take]).is_err() {
                continue;
            }
            out.push(Snap {
                dir,
                op: b.op,
                point: format!("torn.{}", b.point),
                ctx: format!("{} +{take}/{delta} bytes of {}", b.ctx, name.to_string_lossy()),
                nth_in_op: b.nth_in_op,
                torn: true,
            });
            break;
        }
    }
    out
}

fn run(case: &Case, _known: &KnownFindings) -> CaseReport {
    let mut rep = CaseReport::new();
    rv::fuel::install();
    let mut it = Interp::new("c05");
    let snaproot = Scratch::new("c05snaps");
    let rec = Arc::new(Mutex::new(Recorder {
        data: it.sandbox.data.clone(),
        rip: it.sandbox.ws.join(".rip"),
        root: snaproot.path().to_path_buf(),
        cur_op: 0,
        nth_in_op: 0,
        snaps: Vec::new(),
        enabled: true,
        session_points: 0,
        session_stride: 1,
    }));
    {
        let rec = rec.clone();
        rv::sched::set_thread_handler(Some(Arc::new(move |point: &str, ctx: &str| {
            if !is_boundary(point) {
                return;
            }
            let mut r = rec.lock().unwrap();
            if !r.enabled || r.snaps.len() >= 400 {
                return;
            }
            let n = r.snaps.len();
            let dir = r.root.join(format!("s{n}"));
            let _ = copy_dir(&r.data, &dir.join("data"));
            if r.rip.exists() {
                let _ = copy_dir(&r.rip, &dir.join("rip"));
            } else {
                let _ = std::fs::create_dir_all(dir.join("rip"));
            }
            let snap = Snap { dir, op: r.cur_op, point: point.to_string(), ctx: ctx.to_string(), nth_in_op: r.nth_in_op, torn: false };
            r.nth_in_op += 1;
            r.snaps.push(snap);
        })));
    }
    // ---- a long log before the history starts (no crash points while it is written)
    if case.pre_noise_kb > 0 {
        rec.lock().unwrap().enabled = false;
        append_noise_session(&it.live.log, case.pre_noise_kb, 9_999);
        rec.lock().unwrap().enabled = true;
        rep.class("log_longer_than_64KiB_before_the_history");
    }
    // ---- the workload, one actor
    let mut results: Vec<Result<Value, String>> = Vec::new();
    for (i, op) in case.ops.iter().enumerate() {
        {
            let mut r = rec.lock().unwrap();
            r.cur_op = i;
            r.nth_in_op = 0;
        }
        let res = rv::engine::runner::catch(|| it.apply(op));
        results.push(match res {
            Ok(r) => r.result,
            Err(p) => Err(format!("panic: {p}")),
        });
    }
    rec.lock().unwrap().enabled = false;
    rv::sched::set_thread_handler(None);
    let mut snaps = rec.lock().unwrap().snaps.clone();
    rep.count("crash_points", snaps.len() as u64);
    if let Some(frac) = case.torn_cache {
        let torn = torn_images(&snaps, frac, snaproot.path());
        rep.count("torn_cache_write_images", torn.len() as u64);
        rep.class_if(!torn.is_empty(), "death_in_the_middle_of_a_cache_write");
        snaps.extend(torn);
    }
    let points_per_op: BTreeMap<usize, usize> = snaps.iter().filter(|s| !s.torn).fold(BTreeMap::new(), |mut m, s| {
        *m.entry(s.op).or_default() += 1;
        m
    });
    let mut seen_points: BTreeSet<String> = BTreeSet::new();
    let mut inside = 0u64;

    // ---- every crash image
    for (si, snap) in snaps.iter().enumerate() {
        seen_points.insert(snap.point.clone());
        let last_in_op = snap.nth_in_op + 1 == *points_per_op.get(&snap.op).unwrap_or(&0);
        if snap.nth_in_op > 0 && !last_in_op && !snap.torn {
            inside += 1;
        }
        let point = snap.point.as_str();
        let sb = recovered_sandbox(snap);
        // a restarted authority: fresh log + store over the image
        let mut rit = match rv::engine::runner::catch(|| Interp::attach(sb)) {
            Ok(i) => i,
            Err(p) => {
                rep.fail(format!("recovery|{point}|restart_panics"), json!({"panic": p, "op": snap.op}));
                continue;
            }
        };
        // 1. the whole store replays, numbering intact
        if let Err(e) = rit.live.log.replay_validated() {
            rep.fail(
                format!("recovery|{point}|replay_fails"),
                json!({"error": e.to_string(), "op": snap.op, "ctx": snap.ctx}),
            );
            continue;
        }
        let values = match rit.sandbox.truth_values() {
            Ok(v) => v,
            Err(e) => {
                // replay_validated accepted it, our stricter reader did not (e.g. torn last line)
                rep.fail(format!("recovery|{point}|log_not_whole_frames"), json!({"error": e, "op": snap.op}));
                continue;
            }
        };
        if let Err(e) = check_stream_numbering(&values) {
            rep.fail(format!("recovery|{point}|numbering"), json!({"error": e, "op": snap.op}));
            continue;
        }
        // 2. acknowledged appends present exactly once; the in-flight op at most once
        for (j, r) in results.iter().enumerate().take(snap.op) {
            if let Ok(v) = r {
                for id in acked_ids(v) {
                    let n = count_id(&values, &id);
                    if n != 1 {
                        rep.fail(
                            format!("recovery|{point}|acknowledged_append_count"),
                            json!({"op": j, "id": id, "count": n, "crashed_in_op": snap.op}),
                        );
                    }
                }
            }
        }
        let mut ids: BTreeSet<&str> = BTreeSet::new();
        for v in &values {
            if let Some(id) = v["id"].as_str() {
                if !ids.insert(id) {
                    rep.fail(format!("recovery|{point}|duplicate_frame_id"), json!({"id": id, "op": snap.op}));
                }
            }
        }
        // 4. artifacts referenced by frames present in the image resolve
        check_artifacts(&rit.sandbox, &values, point, &mut rep);
        // 5. C04 on the recovered store (before any further append)
        // torn images: truth, numbering, acknowledged appends and continuation are judged; reads
        // answered from the half-written cache belong to the listed stale-cache family (C04's subject)
        let do_surface = si % (case.surface_stride.max(1) as usize) == 0 && !snap.torn;
        if do_surface {
            surface_compare(&rit, &case.params, point, "recovered", &mut rep);
        }
        // 3. continuation: further appends continue the numbering
        let mut aimed = false;
        if let Some(frac) = case.noise_boundary {
            aimed = append_noise_to_boundary(&rit.live.log, &rit.sandbox.log_path(), frac, si);
            rep.count(if aimed { "noise_aimed_at_window_boundary" } else { "noise_aim_failed" }, 1);
        } else {
            append_noise_session(&rit.live.log, case.noise_kb, si);
        }
        let before_len = if aimed || case.noise_boundary.is_some() {
            rit.sandbox.truth_values().map(|v| v.len()).unwrap_or(values.len())
        } else {
            values.len() + if case.noise_kb == 0 { 0 } else { 2 + (case.noise_kb as usize).div_ceil(32) }
        };
        let mut cont_acked: Vec<String> = Vec::new();
        for op in &case.cont {
            if let Ok(r) = rv::engine::runner::catch(|| rit.apply(op)) {
                if let Ok(v) = r.result {
                    cont_acked.extend(acked_ids(&v));
                }
            }
        }
        match rit.live.log.replay_validated() {
            Err(e) => {
                rep.fail(
                    format!("recovery|{point}|continuation_breaks_replay"),
                    json!({"error": e.to_string(), "op": snap.op, "ctx": snap.ctx}),
                );
                continue;
            }
            Ok(_) => {}
        }
        match rit.sandbox.truth_values() {
            Ok(v2) => {
                if let Err(e) = check_stream_numbering(&v2) {
                    rep.fail(format!("recovery|{point}|continuation_numbering"), json!({"error": e, "op": snap.op}));
                    continue;
                }
                for id in &cont_acked {
                    let n = count_id(&v2, id);
                    if n != 1 {
                        rep.fail(format!("recovery|{point}|continuation_ack_count"), json!({"id": id, "count": n}));
                    }
                }
                if v2.len() > before_len && do_surface {
                    surface_compare(&rit, &case.params, point, "after_continuation", &mut rep);
                }
            }
            Err(e) => {
                rep.fail(format!("recovery|{point}|continuation_log_not_whole_frames"), json!({"error": e}));
            }
        }
    }
    for p in &seen_points {
        rep.class(format!("point:{p}"));
    }
    rep.count("crash_points_strictly_inside_an_op", inside);
    rep.class(match (case.noise_boundary, case.noise_kb) {
        (Some(_), _) => "noise_before_continuation:aimed_at_1MiB_window_boundary",
        (None, 0) => "noise_before_continuation:none",
        (None, 1..=999) => "noise_before_continuation:<1MiB",
        _ => "noise_before_continuation:>1MiB",
    });
    rep.nontrivial = inside > 0;
    rep
}

include!("c05/runs.rs");

fn main() {
    let mut check = Check::new("C05", "fault_enumeration");
    check.assume("crash model = process death between two file-system effects (the property's wording): no torn single write(2), no lost page cache / power failure; the image is a byte copy taken by the single running actor at a hook point");
    check.assume("crash points are the hook-named boundaries: event log (before write, after body, after flush), every sidecar/index cache effect, thread index tmp/rename, artifact tmp/rename; session-frame appends and session snapshots are crash points in group run_crash; task logs are exercised by C17 histories, not here");
    check.assume("acknowledged = the call returned Ok with an id before the crashing operation started");
    let known = KnownFindings::load("C05");
    let rule = "history = generated continuity operations (incl. frames > 8 KiB, manual and auto compaction, branch, handoff); EVERY hook-named write boundary of EVERY operation is a crash point (enumerated inside the case, up to 400); each image is reopened, replay-validated, checked for acknowledged appends, artifact resolution and the C04 read surface, then continued with generated appends and re-checked. non-trivial = at least one crash point strictly inside an operation; distinct by case hash";
    let n = check.cases(400, 8000);
    check.group(
        "crash_points",
        rule,
        GroupOpts { cases: n, max_shrink_iters: 200, watchdog_s: 900, ..Default::default() },
        case_strategy,
        |c| run(c, &known),
    );
    let n = check.cases(96, 2400);
    check.group(
        "run_crash",
        "history = 1-5 steps through the REAL ROUTER on one thread: prompts answered by the stub or by a scripted provider (1-39 text deltas of up to 40 KB, so a run logs far more session frames than thread frames), write/bash tool envelopes (side-effects frame + automatic checkpoint), plain sessions, manual checkpoints, auto compaction jobs, cursor rotation, branch; every hook-named write boundary reached by any thread of the runtime is a crash point (images taken while another thread wrote are discarded and counted); images at session-frame log points are thinned by a generated stride, all others are evaluated: reopen + replay_validated + numbering over ALL streams + acknowledged messages / run frames / session end frames exactly once + artifacts + the C04 read surface, then a restarted router must accept a message on every thread the image knows, run it to the end and leave a log that replays with correct numbering. non-trivial = at least one evaluated image strictly inside a step; distinct by case hash",
        GroupOpts { cases: n, max_shrink_iters: 60, watchdog_s: 900, ..Default::default() },
        run_case_strategy,
        run_crash,
    );
    check.extra("exhaustive_within_case", json!(true));
    check.finish();
}
