//! C20 group `cli` — the headless renderers of the real `rip` binary (`rip run … --server URL
//! --headless true --view raw|output|metrics`) folded over generated frame sequences.
//!
//! The renderers live in the binary crate `rip-cli` and cannot be linked, so every run is a
//! subprocess of `/verif/target/repo-bins/debug/rip` (override: `C20_RIP_BIN`) talking to a tiny
//! loopback HTTP server kept by the shard thread. The server implements exactly what
//! `rip run --server` needs (crates/rip-cli/src/main.rs `run_remote`):
//!
//!   POST /threads/ensure            -> 200 {"thread_id":"t1"}
//!   POST /threads/t1/messages       -> 202 {"thread_id":"t1","message_id":"m1","session_id":"s-verif"}
//!   GET  /sessions/s-verif/events   -> 200 text/event-stream, one `data: <json>\n\n` per frame,
//!                                      then the body ENDS (terminating chunk + close)
//!
//! Expectations and where they come from:
//!   * the CLI stops at the first `session_ended` frame (`render_message` returns should_stop) or
//!     at the end of the body (`EventSourceError::StreamEnded => break`); both return Ok(()) from
//!     `main`, i.e. exit code 0 (repo tests `stream_events_reads_messages`,
//!     `stream_events_stops_on_stream_end`, `run_headless_remote`);
//!   * raw view: "emits newline-delimited JSON event frames" (docs/04_execution/cli.md,
//!     ADR-0006) — `writeln!(out, "{payload}")` per consumed frame;
//!   * output view: "prints human output: text deltas only (tool stdout/stderr emitted only if no
//!     model output)" (docs/04_execution/cli.md);
//!   * metrics view: "prints a single JSON summary object at `session_ended`"; the summary is
//!     computed from frame timestamps only (crates/rip-cli/src/metrics.rs), no wall clock, so it
//!     is compared byte for byte between runs like the other views.

use std::cell::Cell;
use std::net::SocketAddr;
use std::path::{Path, PathBuf};
use std::process::Stdio;
use std::sync::{Arc, Mutex, OnceLock};
use std::time::Duration;

use proptest::prelude::*;
use rv::engine::scratch::Scratch;
use rv::engine::CaseReport;
use rv::gen::frame::{kinds, wire_frame_of, FrameOpts};
use rv::gen::json::JsonOpts;
use serde::{Deserialize, Serialize};
use serde_json::{json, Value};
use tokio::io::{AsyncReadExt, AsyncWriteExt};
use tokio::net::TcpListener;

use super::{case_strategy, Step};

pub const DEFAULT_RIP_BIN: &str = "/verif/target/repo-bins/debug/rip";
const CLI_TIMEOUT: Duration = Duration::from_secs(10);
const VIEWS: [&str; 3] = ["raw", "output", "metrics"];

static RIP_BIN: OnceLock<PathBuf> = OnceLock::new();

pub fn rip_bin() -> &'static Path {
    RIP_BIN.get_or_init(|| {
        std::env::var_os("C20_RIP_BIN")
            .map(PathBuf::from)
            .unwrap_or_else(|| PathBuf::from(DEFAULT_RIP_BIN))
    })
}

#[derive(Debug, Clone, Serialize, Deserialize)]
pub struct CliCase {
    /// seq plan of the frames (class only; the seqs are already in the frames)
    pub seq_mode: String,
    /// frame generator: "all_kinds" (the fold generator) or "renderer_kinds" (class only)
    #[serde(default)]
    pub gen: String,
    /// how the sequence was made finite: "frame_last" (a session_ended frame appended, earlier
    /// ones removed), "frame_mid" (one session_ended frame at a generated position: the frames
    /// after it are served but must be ignored), "close" (no session_ended frame at all: the
    /// server ends the body), "as_generated" (session_ended wherever the frame generator put it,
    /// possibly several, possibly nowhere)
    pub end: String,
    /// the frames served, in order, as wire objects
    pub frames: Vec<Value>,
    /// cut positions (monotone u16 choices over the body length) of the SSE body for the second
    /// run of every view; the first run sends one chunk per frame
    pub cuts: Vec<u16>,
    /// views exercised
    pub views: Vec<String>,
}

fn is_end(v: &Value) -> bool {
    v.get("type").and_then(|t| t.as_str()) == Some("session_ended")
}

pub fn strategy() -> BoxedStrategy<CliCase> {
    let fo = FrameOpts {
        big_chunks: false,
        json: JsonOpts {
            depth: 2,
            floats: true,
            max_len: 3,
        },
    };
    let end_kind = kinds()
        .into_iter()
        .find(|k| k.tag == "session_ended")
        .expect("session_ended kind");
    let end_frame = wire_frame_of(&end_kind, fo);
    let views = prop_oneof![
        3 => Just(VIEWS.iter().map(|s| s.to_string()).collect::<Vec<String>>()),
        1 => proptest::sample::subsequence(VIEWS.to_vec(), 1..=3)
            .prop_map(|v| v.into_iter().map(|s| s.to_string()).collect::<Vec<String>>()),
    ];
    // "focus" cases: the kinds the output / metrics renderers actually fold (tool output, tool
    // failures, provider events, request timing frames, few text deltas) so that the fallback
    // summary and the metrics breakdown are dense instead of 1-in-40 accidents; the frames keep
    // the seq plan of the base case
    let focus_weights: [(&str, u32); 12] = [
        ("output_text_delta", 1),
        ("tool_stdout", 3),
        ("tool_stderr", 3),
        ("tool_failed", 3),
        ("provider_event", 3),
        ("tool_started", 1),
        ("tool_ended", 1),
        ("session_started", 1),
        ("openresponses_request_started", 2),
        ("openresponses_response_headers", 2),
        ("openresponses_response_first_byte", 1),
        ("openresponses_request", 1),
    ];
    let specs = kinds();
    let focus_frame = proptest::strategy::Union::new_weighted(
        focus_weights
            .iter()
            .map(|(tag, w)| {
                let k = specs.iter().find(|k| k.tag == *tag).expect("focus kind");
                // long chunks (around 4 KiB / 8 KiB, multi-byte units) in 1 of 6 chunk fields
                (*w, wire_frame_of(k, FrameOpts { big_chunks: true, ..fo }))
            })
            .collect::<Vec<_>>(),
    )
    .prop_flat_map(|f| {
        (Just(f), prop_oneof![4 => Just(1usize), 2 => 2usize..6, 1 => 6usize..24])
    })
    .prop_map(|(mut f, times)| {
        // the metrics view only looks at request_index 0
        if let Some(ri) = f.get("request_index").and_then(|v| v.as_u64()) {
            f["request_index"] = Value::from(ri % 2);
        }
        // medium-sized texts (the field generator gives <= 40 chars or ~4/8 KiB): repeat the
        // text so that accumulated previews cross 256 B / 1 KiB / 4 KiB marks at arbitrary
        // offsets inside multi-byte characters
        for key in ["chunk", "delta", "error"] {
            if let Some(t) = f.get(key).and_then(|v| v.as_str()) {
                if times > 1 && t.len() < 1024 {
                    f[key] = Value::String(t.repeat(times));
                }
            }
        }
        f
    });
    let focus = prop_oneof![
        3 => Just(None),
        2 => proptest::collection::vec(focus_frame, 0..60).prop_map(Some),
    ];
    (
        // the existing C20 generator: all frame types, seq plans, streams mixed, multi-byte text;
        // one case in five with long chunks around 4 KiB / 8 KiB
        prop_oneof![4 => case_strategy(60, false), 1 => case_strategy(120, true)],
        focus,
        prop_oneof![
            3 => Just("frame_last"),
            3 => Just("close"),
            2 => Just("frame_mid"),
            1 => Just("as_generated"),
        ],
        (end_frame, any::<u16>()),
        prop_oneof![
            1 => Just(Vec::<u16>::new()),
            3 => proptest::collection::vec(any::<u16>(), 1..6),
            2 => proptest::collection::vec(any::<u16>(), 6..60),
        ],
        views,
    )
        .prop_map(|(base, focus, end, (end_frame, end_pos), cuts, views)| {
            let mut frames: Vec<Value> = base
                .steps
                .into_iter()
                .filter_map(|s| match s {
                    Step::Frame(v) => Some(v),
                    _ => None,
                })
                .collect();
            let mut gen = "all_kinds";
            if let Some(focus) = focus {
                gen = "renderer_kinds";
                frames = frames
                    .into_iter()
                    .zip(focus)
                    .map(|(b, mut f)| {
                        f["seq"] = b["seq"].clone();
                        f
                    })
                    .collect();
            }
            match end {
                "frame_last" => {
                    frames.retain(|f| !is_end(f));
                    frames.push(end_frame);
                }
                "frame_mid" => {
                    frames.retain(|f| !is_end(f));
                    let at = rv::engine::pick(end_pos, frames.len() + 1);
                    frames.insert(at, end_frame);
                }
                "close" => frames.retain(|f| !is_end(f)),
                _ => {}
            }
            CliCase {
                seq_mode: base.seq_mode,
                gen: gen.to_string(),
                end: end.to_string(),
                frames,
                cuts,
                views,
            }
        })
        .boxed()
}

// ---------------------------------------------------------------------------------------------
// per-shard loopback server
// ---------------------------------------------------------------------------------------------

struct Shard {
    rt: tokio::runtime::Runtime,
    addr: SocketAddr,
    /// chunks of the SSE body for the current run
    plan: Arc<Mutex<Arc<Vec<Vec<u8>>>>>,
    /// "METHOD path" of every request of the current run
    log: Arc<Mutex<Vec<String>>>,
}

thread_local! {
    // one runtime + listener per shard thread, leaked on purpose (dropping a tokio runtime from a
    // thread-local destructor is not reliable; the process exits right after the groups)
    static SHARD: Cell<Option<&'static Shard>> = const { Cell::new(None) };
}

fn shard() -> &'static Shard {
    SHARD.with(|c| {
        if let Some(s) = c.get() {
            return s;
        }
        let s: &'static Shard = Box::leak(Box::new(Shard::start()));
        c.set(Some(s));
        s
    })
}

impl Shard {
    fn start() -> Shard {
        let rt = tokio::runtime::Builder::new_current_thread()
            .enable_all()
            .build()
            .expect("tokio runtime");
        let listener = rt
            .block_on(TcpListener::bind("127.0.0.1:0"))
            .expect("bind loopback");
        let addr = listener.local_addr().expect("local addr");
        let plan: Arc<Mutex<Arc<Vec<Vec<u8>>>>> = Arc::new(Mutex::new(Arc::new(Vec::new())));
        let log: Arc<Mutex<Vec<String>>> = Arc::new(Mutex::new(Vec::new()));
        let (p, l) = (plan.clone(), log.clone());
        // the accept loop only makes progress while the shard thread is inside `block_on`, which
        // is exactly while a CLI child is being waited for
        rt.spawn(async move {
            loop {
                let Ok((sock, _)) = listener.accept().await else {
                    break;
                };
                let _ = sock.set_nodelay(true);
                let (p, l) = (p.clone(), l.clone());
                tokio::spawn(async move {
                    serve(sock, p, l).await;
                });
            }
        });
        Shard { rt, addr, plan, log }
    }
}

fn find(hay: &[u8], needle: &[u8]) -> Option<usize> {
    hay.windows(needle.len()).position(|w| w == needle)
}

async fn serve(
    mut sock: tokio::net::TcpStream,
    plan: Arc<Mutex<Arc<Vec<Vec<u8>>>>>,
    log: Arc<Mutex<Vec<String>>>,
) {
    // ---- request head (+ body by content-length)
    let mut buf: Vec<u8> = Vec::new();
    let mut tmp = [0u8; 8192];
    let header_end = loop {
        let n = match tokio::time::timeout(CLI_TIMEOUT, sock.read(&mut tmp)).await {
            Ok(Ok(n)) if n > 0 => n,
            _ => return,
        };
        buf.extend_from_slice(&tmp[..n]);
        if let Some(pos) = find(&buf, b"\r\n\r\n") {
            break pos + 4;
        }
        if buf.len() > 1 << 20 {
            return;
        }
    };
    let head = String::from_utf8_lossy(&buf[..header_end]).to_string();
    let mut lines = head.split("\r\n");
    let mut parts = lines.next().unwrap_or("").split(' ');
    let method = parts.next().unwrap_or("").to_string();
    let path = parts.next().unwrap_or("").to_string();
    let mut content_length = 0usize;
    for l in lines {
        if let Some((k, v)) = l.split_once(':') {
            if k.trim().eq_ignore_ascii_case("content-length") {
                content_length = v.trim().parse().unwrap_or(0);
            }
        }
    }
    let mut got = buf.len() - header_end;
    while got < content_length {
        match tokio::time::timeout(CLI_TIMEOUT, sock.read(&mut tmp)).await {
            Ok(Ok(n)) if n > 0 => got += n,
            _ => break,
        }
    }
    log.lock().unwrap().push(format!("{method} {path}"));

    // ---- route
    let json_reply = |status: &str, body: &str| {
        format!(
            "HTTP/1.1 {status}\r\ncontent-type: application/json\r\ncontent-length: {}\r\nconnection: close\r\n\r\n{body}",
            body.len()
        )
    };
    match (method.as_str(), path.as_str()) {
        ("POST", "/threads/ensure") => {
            let _ = sock
                .write_all(json_reply("200 OK", r#"{"thread_id":"t1"}"#).as_bytes())
                .await;
        }
        ("POST", "/threads/t1/messages") => {
            let _ = sock
                .write_all(
                    json_reply(
                        "202 Accepted",
                        r#"{"thread_id":"t1","message_id":"m1","session_id":"s-verif"}"#,
                    )
                    .as_bytes(),
                )
                .await;
        }
        ("GET", "/sessions/s-verif/events") => {
            let chunks = plan.lock().unwrap().clone();
            let head = "HTTP/1.1 200 OK\r\ncontent-type: text/event-stream\r\ncache-control: no-cache\r\ntransfer-encoding: chunked\r\nconnection: close\r\n\r\n";
            if sock.write_all(head.as_bytes()).await.is_err() {
                return;
            }
            for c in chunks.iter() {
                if c.is_empty() {
                    continue;
                }
                let mut wire = format!("{:x}\r\n", c.len()).into_bytes();
                wire.extend_from_slice(c);
                wire.extend_from_slice(b"\r\n");
                // the CLI leaves at the first session_ended: a write error here is expected
                if sock.write_all(&wire).await.is_err() {
                    return;
                }
                let _ = sock.flush().await;
                tokio::task::yield_now().await;
            }
            // the body ENDS here: terminating chunk, then close
            let _ = sock.write_all(b"0\r\n\r\n").await;
        }
        _ => {
            let _ = sock
                .write_all(json_reply("404 Not Found", r#"{"error":"not found"}"#).as_bytes())
                .await;
        }
    }
    let _ = sock.flush().await;
    let _ = sock.shutdown().await;
}

// ---------------------------------------------------------------------------------------------
// one CLI run
// ---------------------------------------------------------------------------------------------

#[derive(Debug, Default)]
struct RunOut {
    /// harness-side trouble (spawn failed, wait failed): the run says nothing about the property
    harness_error: Option<String>,
    timed_out: bool,
    code: Option<i32>,
    signal: Option<i32>,
    stdout: Vec<u8>,
    stderr: Vec<u8>,
    requests: Vec<String>,
}

fn run_cli(sh: &Shard, dir: &Path, view: &str, chunks: Vec<Vec<u8>>) -> RunOut {
    use std::os::unix::process::ExitStatusExt;
    *sh.plan.lock().unwrap() = Arc::new(chunks);
    sh.log.lock().unwrap().clear();
    let mut out = RunOut::default();
    let out_path = dir.join("stdout");
    let err_path = dir.join("stderr");
    let home = dir.join("home");
    let files = std::fs::create_dir_all(&home)
        .and_then(|_| std::fs::File::create(&out_path))
        .and_then(|o| std::fs::File::create(&err_path).map(|e| (o, e)));
    let (fo, fe) = match files {
        Ok(x) => x,
        Err(e) => {
            out.harness_error = Some(format!("scratch files: {e}"));
            return out;
        }
    };
    let url = format!("http://{}", sh.addr);
    let status = sh.rt.block_on(async {
        let mut cmd = tokio::process::Command::new(rip_bin());
        cmd.args(["run", "hello", "--server", &url, "--headless", "true", "--view", view])
            .env_clear()
            .env("PATH", "/usr/bin:/bin")
            .env("HOME", &home)
            .current_dir(dir)
            .stdin(Stdio::null())
            .stdout(Stdio::from(fo))
            .stderr(Stdio::from(fe))
            .kill_on_drop(true);
        unsafe {
            cmd.pre_exec(|| {
                libc::prctl(libc::PR_SET_PDEATHSIG, libc::SIGKILL);
                Ok(())
            });
        }
        let mut child = match cmd.spawn() {
            Ok(c) => c,
            Err(e) => return Err(format!("spawn: {e}")),
        };
        match tokio::time::timeout(CLI_TIMEOUT, child.wait()).await {
            Ok(Ok(st)) => Ok(Some(st)),
            Ok(Err(e)) => {
                let _ = child.kill().await;
                Err(format!("wait: {e}"))
            }
            Err(_) => {
                let _ = child.kill().await; // SIGKILL + reap
                Ok(None)
            }
        }
    });
    match status {
        Err(e) => out.harness_error = Some(e),
        Ok(None) => out.timed_out = true,
        Ok(Some(st)) => {
            out.code = st.code();
            out.signal = st.signal();
        }
    }
    out.stdout = std::fs::read(&out_path).unwrap_or_default();
    out.stderr = std::fs::read(&err_path).unwrap_or_default();
    out.requests = sh.log.lock().unwrap().clone();
    out
}

fn clip(bytes: &[u8], max: usize) -> String {
    let s = String::from_utf8_lossy(bytes);
    if s.len() <= max {
        s.to_string()
    } else {
        let mut cut = max;
        while !s.is_char_boundary(cut) {
            cut -= 1;
        }
        format!("{}…(+{} bytes)", &s[..cut], s.len() - cut)
    }
}

/// "panicked at crates/rip-cli/src/main.rs:881:5:" -> "crates/rip-cli/src/main.rs:881"
fn panic_location(stderr: &str) -> String {
    let Some(pos) = stderr.find("panicked at ") else {
        return String::new();
    };
    let rest = &stderr[pos + "panicked at ".len()..];
    let tok: &str = rest
        .split(|c: char| c.is_whitespace() || c == ',')
        .next()
        .unwrap_or("")
        .trim_end_matches(':');
    // strip the column
    let mut parts: Vec<&str> = tok.split(':').collect();
    if parts.len() >= 3 {
        parts.pop();
    }
    parts.join(":")
}

/// (1) no crash + the documented exit code. Returns false when the run crashed (no point in
/// judging its output).
fn judge_exit(view: &str, run: &RunOut, which: &str, rep: &mut CaseReport) -> bool {
    let stderr = String::from_utf8_lossy(&run.stderr);
    if let Some(sig) = run.signal {
        rep.fail(
            format!("cli|{view}|killed_by_signal"),
            json!({"run": which, "signal": sig, "stderr": clip(&run.stderr, 600)}),
        );
        return false;
    }
    if stderr.contains("panicked at") {
        rep.fail(
            format!("cli|{view}|panic|{}", panic_location(&stderr)),
            json!({"run": which, "exit_code": run.code, "stderr": clip(&run.stderr, 900)}),
        );
        return false;
    }
    if run.code != Some(0) {
        rep.fail(
            format!("cli|{view}|exit_code"),
            json!({"run": which, "exit_code": run.code, "stderr": clip(&run.stderr, 900),
                   "requests": run.requests}),
        );
        return false;
    }
    true
}

pub fn run(case: &CliCase) -> CaseReport {
    let mut rep = CaseReport::new();

    // ---- what is served, and what the CLI is expected to consume
    let texts: Vec<String> = case.frames.iter().map(|f| f.to_string()).collect();
    let per_frame: Vec<Vec<u8>> = texts
        .iter()
        .map(|t| format!("data: {t}\n\n").into_bytes())
        .collect();
    let body: Vec<u8> = per_frame.concat();
    let stop_at = case.frames.iter().position(is_end);
    let consumed = stop_at.map(|i| i + 1).unwrap_or(case.frames.len());
    let ended_by_frame = stop_at.is_some();

    rep.class(format!("seq:{}", case.seq_mode));
    rep.class(format!("gen:{}", case.gen));
    rep.class(match stop_at {
        Some(i) if i + 1 == case.frames.len() => "end:by_frame_last",
        Some(_) => "end:by_frame_mid",
        None => "end:by_close",
    });
    rep.class(match consumed {
        0 => "frames:0",
        1..=9 => "frames:1-9",
        10..=29 => "frames:10-29",
        _ => "frames:30+",
    });
    let streams: std::collections::BTreeSet<&str> = case.frames[..consumed]
        .iter()
        .filter_map(|f| f.get("stream_id").and_then(|s| s.as_str()))
        .collect();
    let multibyte = texts[..consumed].iter().any(|t| !t.is_ascii());
    let irregular = case.seq_mode != "contiguous" && consumed >= 2;
    rep.class_if(streams.len() >= 2, "streams_mixed");
    rep.class_if(multibyte, "multibyte_text");
    rep.class_if(body.len() > 64 * 1024, "body_over_64k");
    rep.nontrivial = irregular || streams.len() >= 2 || multibyte;

    // second-run partition of the same bytes (may cut inside a multi-byte character)
    let split: Vec<Vec<u8>> = rv::provider::partition(&body, &case.cuts);
    let cuts_midchar = {
        let mut off = 0usize;
        let mut mid = false;
        for c in &split[..split.len().saturating_sub(1)] {
            off += c.len();
            // a cut is inside a character when the next byte is a UTF-8 continuation byte
            if off < body.len() && (body[off] & 0xC0) == 0x80 {
                mid = true;
            }
        }
        mid
    };
    rep.class(match split.len() {
        0 | 1 => "chunks:whole_body",
        2..=6 => "chunks:2-6",
        _ => "chunks:7+",
    });
    rep.class_if(cuts_midchar, "chunks:cut_inside_char");

    let sh = shard();
    let scratch = Scratch::new("c20cli");
    let bound = 4 * body.len() + 64 * 1024;

    for view in &case.views {
        let view = view.as_str();
        if !VIEWS.contains(&view) {
            continue; // hand-written replay with an unknown view: nothing to run
        }
        rep.class(format!("view:{view}"));
        rep.count("cli_runs", 2);

        // ---- run A: one chunk per frame; run B: the generated partition
        let a = run_cli(sh, scratch.path(), view, per_frame.clone());
        if let Some(e) = &a.harness_error {
            eprintln!("c20 cli: harness error: {e}");
            rep.inconclusive("cli_spawn_or_wait_failed");
            continue;
        }
        if a.timed_out {
            rep.inconclusive("cli_timeout");
            continue;
        }
        let b = run_cli(sh, scratch.path(), view, split.clone());
        if let Some(e) = &b.harness_error {
            eprintln!("c20 cli: harness error: {e}");
            rep.inconclusive("cli_spawn_or_wait_failed");
            continue;
        }
        if b.timed_out {
            rep.inconclusive("cli_timeout");
            continue;
        }
        rep.class_if(!a.stderr.is_empty(), "stderr_nonempty");

        // ---- (1) no crash, documented exit code
        let ok_a = judge_exit(view, &a, "per_frame_chunks", &mut rep);
        let ok_b = ok_a && judge_exit(view, &b, "generated_partition", &mut rep);
        if !(ok_a && ok_b) {
            return rep; // first failure decides the case (keeps shrinking affordable)
        }

        // ---- (2) same frames => same output (also across transport chunkings)
        if a.stdout != b.stdout {
            let c = run_cli(sh, scratch.path(), view, per_frame.clone());
            rep.count("cli_runs", 1);
            if c.harness_error.is_some() || c.timed_out {
                rep.inconclusive("cli_timeout");
                continue;
            }
            let what = if c.stdout != a.stdout {
                "nondeterministic_stdout"
            } else {
                "chunking_dependent_stdout"
            };
            rep.fail(
                format!("cli|{view}|{what}"),
                json!({"first": clip(&a.stdout, 600), "second": clip(&b.stdout, 600),
                       "first_len": a.stdout.len(), "second_len": b.stdout.len()}),
            );
            return rep;
        }

        // ---- (4) bounded output
        if a.stdout.len() > bound {
            rep.fail(
                format!("cli|{view}|stdout_unbounded"),
                json!({"stdout_len": a.stdout.len(), "served_bytes": body.len(), "bound": bound}),
            );
        }

        // ---- (3) per view
        match view {
            "raw" => judge_raw(&a.stdout, &texts[..consumed], &mut rep),
            "output" => judge_output(&a.stdout, &case.frames[..consumed], ended_by_frame, &mut rep),
            _ => judge_metrics(&a.stdout, stop_at.map(|i| &case.frames[i]), &mut rep),
        }
        if !rep.ok() {
            return rep;
        }
    }
    rep
}

/// raw view = newline-delimited JSON frames: one line per consumed frame, in order, JSON-equal to
/// the frame served (not necessarily byte-equal: re-serialisation would be legitimate).
fn judge_raw(stdout: &[u8], served: &[String], rep: &mut CaseReport) {
    let mut lines: Vec<&[u8]> = stdout.split(|b| *b == b'\n').collect();
    match lines.pop() {
        Some(last) if last.is_empty() => {}
        _ => {
            if !stdout.is_empty() {
                rep.fail(
                    "cli|raw|last_line_not_terminated",
                    json!({"tail": clip(&stdout[stdout.len().saturating_sub(200)..], 300)}),
                );
                return;
            }
        }
    }
    if stdout.is_empty() {
        lines.clear();
    }
    let mut parsed: Vec<Value> = Vec::with_capacity(lines.len());
    for (i, l) in lines.iter().enumerate() {
        match serde_json::from_slice::<Value>(l) {
            Ok(v) => parsed.push(v),
            Err(e) => {
                rep.fail(
                    "cli|raw|line_not_json",
                    json!({"line": i, "error": e.to_string(), "text": clip(l, 400)}),
                );
                return;
            }
        }
    }
    let expected: Vec<Value> = served
        .iter()
        .map(|t| serde_json::from_str::<Value>(t).unwrap_or(Value::Null))
        .collect();
    if parsed.len() != expected.len() {
        let what = if parsed.len() < expected.len() {
            "frames_missing"
        } else {
            "frames_extra"
        };
        let first_diff = parsed
            .iter()
            .zip(expected.iter())
            .position(|(p, e)| p != e)
            .unwrap_or(parsed.len().min(expected.len()));
        rep.fail(
            format!("cli|raw|{what}"),
            json!({"lines": parsed.len(), "frames_consumed": expected.len(), "first_difference_at": first_diff,
                   "expected_there": expected.get(first_diff), "got_there": parsed.get(first_diff)}),
        );
        return;
    }
    if let Some(i) = parsed.iter().zip(expected.iter()).position(|(p, e)| p != e) {
        rep.fail(
            "cli|raw|frame_differs",
            json!({"index": i, "expected": expected[i], "got": parsed[i]}),
        );
    }
}

/// output view = "text deltas only (tool stdout/stderr emitted only if no model output)".
fn judge_output(stdout: &[u8], consumed: &[Value], ended_by_frame: bool, rep: &mut CaseReport) {
    let mut deltas = String::new();
    let mut has_delta = false;
    for f in consumed {
        if f.get("type").and_then(|t| t.as_str()) == Some("output_text_delta") {
            has_delta = true;
            deltas.push_str(f.get("delta").and_then(|d| d.as_str()).unwrap_or(""));
        }
    }
    if !stdout.starts_with(deltas.as_bytes()) {
        let common = stdout
            .iter()
            .zip(deltas.as_bytes())
            .take_while(|(a, b)| a == b)
            .count();
        rep.fail(
            "cli|output|deltas_not_printed_in_order",
            json!({"expected_prefix_len": deltas.len(), "stdout_len": stdout.len(), "common_prefix": common,
                   "expected_from_there": clip(&deltas.as_bytes()[common..], 200),
                   "got_from_there": clip(&stdout[common..], 200)}),
        );
        return;
    }
    let rest = &stdout[deltas.len()..];
    if has_delta {
        rep.class("output:model_text");
        // model output present: nothing but the deltas; a final newline is supplied at
        // session_ended when the text does not end with one (repo tests
        // renders_trailing_newline_when_missing / trailing_newline_is_preserved) — tolerated
        // either way, not demanded
        let tolerated = rest.is_empty() || (rest == b"\n" && ended_by_frame);
        if !tolerated {
            rep.fail(
                "cli|output|extra_text_after_deltas",
                json!({"extra": clip(rest, 400), "ended_by_frame": ended_by_frame}),
            );
        }
    } else {
        // no model output: the fallback summary (tool output / errors) is printed at
        // session_ended; its exact layout is not documented — only determinism and the bound
        // are checked
        rep.class(if rest.is_empty() {
            "output:no_model_text_empty"
        } else {
            "output:no_model_text_fallback_summary"
        });
    }
}

/// metrics view = "prints a single JSON summary object at session_ended".
fn judge_metrics(stdout: &[u8], end: Option<&Value>, rep: &mut CaseReport) {
    let Some(end) = end else {
        if !stdout.is_empty() {
            rep.fail(
                "cli|metrics|summary_without_session_ended",
                json!({"stdout": clip(stdout, 400)}),
            );
        }
        return;
    };
    let text = String::from_utf8_lossy(stdout);
    let body = text.strip_suffix('\n').unwrap_or(&text);
    let parsed = if body.contains('\n') {
        None
    } else {
        serde_json::from_str::<Value>(body).ok().filter(|v| v.is_object())
    };
    let Some(obj) = parsed else {
        rep.fail(
            "cli|metrics|not_a_single_json_object",
            json!({"stdout": clip(stdout, 600)}),
        );
        return;
    };
    rep.class_if(obj.get("openresponses").map(|v| !v.is_null()).unwrap_or(false), "metrics:openresponses_breakdown");
    // the CLI stops at the first session_ended, so the summary describes that frame
    if obj.get("session_end_reason") != end.get("reason") || obj.get("session_ended_ms") != end.get("timestamp_ms") {
        rep.fail(
            "cli|metrics|summary_not_of_the_ending_frame",
            json!({"summary": obj, "session_ended_frame": end}),
        );
    }
}
