//! C11 — workspace mutations never overlap and are logged in the order they happened.
//!
//! The harness owns the schedule WITHOUT touching the lock implementation: every latchable
//! mutating actor runs the shell command
//!
//!     echo S<i> >> <lat>/log; read -t 90 _ <> <lat>/f<i>; echo E<i> >> <lat>/log
//!
//! where `<lat>/f<i>` is a FIFO created by the harness. The command announces its start, blocks
//! until the harness writes a line into its FIFO, then announces its end. The harness polls
//! `<lat>/log` (waiting only) and decides when each latch is released; every verdict is computed
//! from the CONTENT of `<lat>/log` and of the raw truth log (`events.jsonl`), i.e. from orderings
//! of markers / frames, never from elapsed time.
//!
//! Oracle (property text + docs/03_contracts/event_frames.md + modules/phase-1/01_ripd_core.md):
//!  (i)   markers in `<lat>/log` are nested with depth <= 1; a mutator (write / apply_patch /
//!        checkpoint envelope) whose request was issued AFTER the harness saw `S<a>` shows no effect
//!        (file, tool_* / checkpoint_* frame) while `a` is still held;
//!  (ii)  a read-only probe (read / ls / grep / artifact_fetch) issued while a latch is held
//!        completes while it is still held;
//!  (iii) per run attached to the thread: exactly one `continuity_tool_side_effects` per mutating
//!        tool call, after that tool's `tool_ended|tool_failed` and before the run's
//!        `continuity_run_ended` (file order of the raw log); `affected_paths` = files the tool
//!        changed (null for bash); `checkpoint_id` = the automatic checkpoint taken for the tool;
//!        none for read-only tools;
//!  (iv)  order of side-effects frames across runs == order of the `S` markers (= real order of
//!        the mutations); a thread mutator issued after `S<a>` was seen logs after `a`. To make
//!        this decidable against "release the lock before logging", the hook
//!        `session.before_side_effects` parks a chosen run (routed by session id through a
//!        process-global registry, so cases on other shards are never touched) and competitors
//!        get a settle window to overtake.

use std::collections::{BTreeMap, BTreeSet, HashMap};
use std::io::Write as _;
use std::path::{Path, PathBuf};
use std::sync::{Arc, Condvar, Mutex, OnceLock};
use std::time::{Duration, Instant};

use axum::http::{Method, StatusCode};
use axum::Router;
use proptest::prelude::*;
use rv::engine::{pick, CaseReport, Check, GroupOpts};
use rv::http::call_json;
use rv::provider::{sse_done, sse_json, Provider, Reply};
use rv::runs::Authority;
use serde::{Deserialize, Serialize};
use serde_json::{json, Value};
use sha2::{Digest, Sha256};

// ---------------------------------------------------------------------------------------------
// constants (all of them bound WAITING only; no verdict depends on their value except (ii),
// whose statement is inherently "does not wait for the lock" — see `probe_phase`)
// ---------------------------------------------------------------------------------------------

/// competitors get this long without any new marker / effect to (wrongly) start while a latch is
/// held, and while a run is parked before its side-effects append
const SETTLE: Duration = Duration::from_millis(150);
/// upper bound of one settle phase (new observations re-arm the window)
const SETTLE_MAX: Duration = Duration::from_secs(4);
const POLL: Duration = Duration::from_millis(4);
/// waiting for the next `S` marker when actors are pending
const HOLDER_WAIT: Duration = Duration::from_secs(20);
/// waiting for `E<x>` after the release of x
const END_WAIT: Duration = Duration::from_secs(15);
/// a read-only probe gets this long to complete while the latch is held
const PROBE_BOUND: Duration = Duration::from_secs(5);
/// two further probes of the same tool confirm a suspected block before the latch is released
const CONFIRM_BOUND: Duration = Duration::from_millis(2500);
/// waiting for the released run to arrive at `session.before_side_effects`
const PARK_WAIT: Duration = Duration::from_secs(5);
/// safety net inside the hook handler (a parked run is always released by the case)
const PARK_MAX: Duration = Duration::from_secs(40);
/// on a broken tree: let an overtaking competitor finish before the parked run is released
const OVERTAKE_WAIT: Duration = Duration::from_secs(3);
/// waiting for every run / session / task to reach its terminal frame at the end of the case
const FINISH_WAIT: Duration = Duration::from_secs(25);
/// `read -t`: a latch nobody releases ends by itself (no stray shell survives a crashed case)
const LATCH_READ_TIMEOUT_S: u32 = 90;

/// Defect found by this check and fixed in the repository (commit 95bb67e, reproducer
/// replays/regress/C11/fixed_tool_timeout_leaves_command_running.json): a tool envelope with
/// `timeout_ms` failed the tool at the timeout and released the workspace lock while the shell
/// command kept running. While it was open, envelope timeouts were stripped from generated cases
/// (counter `excluded_known_tool_timeout_overlap`); set this back to `true` to exclude the region
/// again (`allow_known` cases and VERIF_NO_EXCLUDE=1 always keep it).
const EXCLUDE_KNOWN_TIMEOUT_OVERLAP: bool = false;

fn no_exclude() -> bool {
    matches!(std::env::var("VERIF_NO_EXCLUDE").ok().as_deref(), Some(v) if !v.is_empty() && v != "0")
}

const SEED_FILE: &str = "seed.txt";
const PROMPT: &str = "please run the prepared command";

// ---------------------------------------------------------------------------------------------
// case
// ---------------------------------------------------------------------------------------------

#[derive(Debug, Clone, Copy, Serialize, Deserialize, PartialEq, Eq, PartialOrd, Ord)]
#[serde(rename_all = "snake_case")]
enum LatchKind {
    /// thread post whose content is a tool envelope (direct execution site; run attached)
    ThreadRun,
    /// thread post whose content is a prompt; the scripted provider calls the tool (second site)
    ProviderRun,
    /// POST /sessions + /input with the envelope (no thread => no side-effects frame)
    PlainSession,
    /// POST /tasks (pipes)
    Task,
}

impl LatchKind {
    fn tag(self) -> &'static str {
        match self {
            LatchKind::ThreadRun => "thread_run",
            LatchKind::ProviderRun => "provider_run",
            LatchKind::PlainSession => "plain_session",
            LatchKind::Task => "task",
        }
    }
    fn on_thread(self) -> bool {
        matches!(self, LatchKind::ThreadRun | LatchKind::ProviderRun)
    }
}

#[derive(Debug, Clone, Serialize, Deserialize, PartialEq)]
struct Latch {
    kind: LatchKind,
    /// None: issued in the initial concurrent batch. Some(c): issued while the holder of round
    /// pick(c, index of this actor) is held (actor i is always issued by round i-1).
    #[serde(default)]
    late: Option<u16>,
    /// park this run at `session.before_side_effects` when it holds the lock (thread-attached only)
    #[serde(default)]
    park: bool,
    /// use the `shell` alias instead of `bash`
    #[serde(default)]
    alias: bool,
    /// ProviderRun: the scripted turn calls `ls` before the latch
    #[serde(default)]
    pre_ls: bool,
    /// ProviderRun: the scripted turn calls `write` (unique file) after the latch
    #[serde(default)]
    post_write: bool,
    /// envelope actors (ThreadRun / PlainSession): `timeout_ms` of the tool envelope; the tool is
    /// failed with "timeout" while the latch command is still waiting for its release
    #[serde(default)]
    timeout_ms: Option<u16>,
}

#[derive(Debug, Clone, Copy, Serialize, Deserialize, PartialEq, Eq)]
#[serde(rename_all = "snake_case")]
enum MutKind {
    Write,
    /// Add File (unique) + Update File (unique seed)
    Patch,
    CkptCreate,
    /// second input on a plain session that created the checkpoint during setup
    CkptRewind,
}

impl MutKind {
    fn tag(self) -> &'static str {
        match self {
            MutKind::Write => "write",
            MutKind::Patch => "apply_patch",
            MutKind::CkptCreate => "checkpoint_create",
            MutKind::CkptRewind => "checkpoint_rewind",
        }
    }
}

#[derive(Debug, Clone, Copy, Serialize, Deserialize, PartialEq, Eq)]
#[serde(rename_all = "snake_case")]
enum When {
    /// with the initial concurrent batch (no ordering claim, only (iii))
    Start,
    /// while the holder of round pick(c, #latches) is held (after its `S` marker was seen)
    Held(u16),
    /// while a run is parked before its side-effects append, first park at or after round
    /// pick(c, #latches); when no run parks: like Held on the last round
    Parked(u16),
}

#[derive(Debug, Clone, Serialize, Deserialize, PartialEq)]
struct Mutator {
    kind: MutKind,
    #[serde(default)]
    via_thread: bool,
    when: When,
    /// Patch only: the Update hunk does not match, the tool exits non-zero (still a mutating tool
    /// call: lock, one side-effects frame; `affected_paths` is not compared)
    #[serde(default)]
    fail: bool,
}

#[derive(Debug, Clone, Copy, Serialize, Deserialize, PartialEq, Eq)]
#[serde(rename_all = "snake_case")]
enum ProbeTool {
    Read,
    Ls,
    Grep,
    ArtifactFetch,
}

impl ProbeTool {
    fn tag(self) -> &'static str {
        match self {
            ProbeTool::Read => "read",
            ProbeTool::Ls => "ls",
            ProbeTool::Grep => "grep",
            ProbeTool::ArtifactFetch => "artifact_fetch",
        }
    }
}

#[derive(Debug, Clone, Serialize, Deserialize, PartialEq)]
struct Probe {
    tool: ProbeTool,
    #[serde(default)]
    via_thread: bool,
    /// issued while the holder of round pick(round, #latches) is held
    round: u16,
}

#[derive(Debug, Clone, Serialize, Deserialize, PartialEq)]
struct Case {
    latches: Vec<Latch>,
    #[serde(default)]
    muts: Vec<Mutator>,
    #[serde(default)]
    probes: Vec<Probe>,
    /// keep inputs that run into confirmed defects (reproducers under replays/known/C11)
    #[serde(default)]
    allow_known: bool,
}

fn latch_strategy() -> BoxedStrategy<Latch> {
    (
        prop_oneof![
            3 => Just(LatchKind::ThreadRun),
            3 => Just(LatchKind::ProviderRun),
            2 => Just(LatchKind::PlainSession),
            2 => Just(LatchKind::Task),
        ],
        prop_oneof![3 => Just(None), 2 => any::<u16>().prop_map(Some)],
        prop::bool::weighted(0.6),
        prop::bool::weighted(0.2),
        prop::bool::weighted(0.3),
        prop::bool::weighted(0.4),
        prop_oneof![6 => Just(None), 1 => (20u16..120).prop_map(Some)],
    )
        .prop_map(|(kind, late, park, alias, pre_ls, post_write, timeout_ms)| Latch {
            kind,
            late,
            park: park && kind.on_thread(),
            alias,
            pre_ls: pre_ls && kind == LatchKind::ProviderRun,
            post_write: post_write && kind == LatchKind::ProviderRun,
            timeout_ms,
        })
        .boxed()
}

fn mut_strategy() -> BoxedStrategy<Mutator> {
    (
        prop_oneof![
            3 => Just(MutKind::Write),
            3 => Just(MutKind::Patch),
            2 => Just(MutKind::CkptCreate),
            2 => Just(MutKind::CkptRewind),
        ],
        prop::bool::weighted(0.65),
        prop_oneof![
            1 => Just(When::Start),
            4 => any::<u16>().prop_map(When::Held),
            3 => any::<u16>().prop_map(When::Parked),
        ],
        prop::bool::weighted(0.2),
    )
        .prop_map(|(kind, via_thread, when, fail)| Mutator {
            kind,
            via_thread: via_thread && kind != MutKind::CkptRewind,
            when,
            fail: fail && kind == MutKind::Patch,
        })
        .boxed()
}

fn probe_strategy() -> BoxedStrategy<Probe> {
    (
        prop_oneof![
            Just(ProbeTool::Read),
            Just(ProbeTool::Ls),
            Just(ProbeTool::Grep),
            Just(ProbeTool::ArtifactFetch),
        ],
        prop::bool::weighted(0.4),
        any::<u16>(),
    )
        .prop_map(|(tool, via_thread, round)| Probe { tool, via_thread, round })
        .boxed()
}

fn case_strategy() -> BoxedStrategy<Case> {
    (
        prop::collection::vec(latch_strategy(), 1..=4),
        prop::collection::vec(mut_strategy(), 0..=3),
        prop::collection::vec(probe_strategy(), 0..=3),
    )
        .prop_map(|(latches, muts, probes)| normalise(Case { latches, muts, probes, allow_known: false }))
        .boxed()
}

/// 2..=5 mutating actors, first latch actor in the initial batch.
fn normalise(mut c: Case) -> Case {
    if c.latches.is_empty() {
        c.latches.push(Latch {
            kind: LatchKind::ThreadRun,
            late: None,
            park: false,
            alias: false,
            pre_ls: false,
            post_write: false,
            timeout_ms: None,
        });
    }
    c.latches.truncate(4);
    c.latches[0].late = None;
    while c.latches.len() + c.muts.len() > 5 {
        c.muts.pop();
    }
    if c.latches.len() + c.muts.len() < 2 {
        c.muts.push(Mutator { kind: MutKind::Write, via_thread: true, when: When::Held(0), fail: false });
    }
    c.probes.truncate(3);
    for l in &mut c.latches {
        l.park = l.park && l.kind.on_thread();
        l.pre_ls = l.pre_ls && l.kind == LatchKind::ProviderRun;
        l.post_write = l.post_write && l.kind == LatchKind::ProviderRun;
        if !matches!(l.kind, LatchKind::ThreadRun | LatchKind::PlainSession) {
            l.timeout_ms = None;
        }
        if l.timeout_ms.is_some() {
            // the run passes the hook at its timeout, long before the harness could arm a park
            l.park = false;
        }
    }
    for m in &mut c.muts {
        if m.kind == MutKind::CkptRewind {
            m.via_thread = false;
        }
        m.fail = m.fail && m.kind == MutKind::Patch;
    }
    c
}

// ---------------------------------------------------------------------------------------------
// hook: park a registered run at `session.before_side_effects`
// ---------------------------------------------------------------------------------------------

const ARMED: u8 = 0;
const PARKED: u8 = 1;
const RELEASED: u8 = 2;

struct Park {
    st: Mutex<u8>,
    cv: Condvar,
}

impl Park {
    fn arrive(&self) {
        let mut g = self.st.lock().unwrap_or_else(|e| e.into_inner());
        if *g != ARMED {
            return; // one-shot
        }
        *g = PARKED;
        self.cv.notify_all();
        let t0 = Instant::now();
        while *g == PARKED {
            let left = match PARK_MAX.checked_sub(t0.elapsed()) {
                Some(d) => d,
                None => break,
            };
            let (ng, _) = self.cv.wait_timeout(g, left).unwrap_or_else(|e| e.into_inner());
            g = ng;
        }
        *g = RELEASED;
    }
    fn state(&self) -> u8 {
        *self.st.lock().unwrap_or_else(|e| e.into_inner())
    }
    fn release(&self) {
        let mut g = self.st.lock().unwrap_or_else(|e| e.into_inner());
        *g = RELEASED;
        self.cv.notify_all();
    }
}

fn parks() -> &'static Mutex<HashMap<String, Arc<Park>>> {
    static P: OnceLock<Mutex<HashMap<String, Arc<Park>>>> = OnceLock::new();
    P.get_or_init(|| Mutex::new(HashMap::new()))
}

fn install_hook() {
    rv::sched::set_global_handler(Some(Arc::new(|point: &str, ctx: &str| {
        if point != "session.before_side_effects" {
            return;
        }
        let p = parks().lock().unwrap_or_else(|e| e.into_inner()).get(ctx).cloned();
        let Some(p) = p else { return };
        // hand the worker's run queue to another thread while this run is parked: tasks woken by
        // this worker (e.g. the next lock waiter on a broken tree) must be able to run
        let multi = tokio::runtime::Handle::try_current()
            .map(|h| h.runtime_flavor() == tokio::runtime::RuntimeFlavor::MultiThread)
            .unwrap_or(false);
        if multi {
            tokio::task::block_in_place(|| p.arrive());
        } else {
            p.arrive();
        }
    })));
}

fn arm(session: &str) -> Arc<Park> {
    let p = Arc::new(Park { st: Mutex::new(ARMED), cv: Condvar::new() });
    parks().lock().unwrap_or_else(|e| e.into_inner()).insert(session.to_string(), p.clone());
    p
}

fn disarm(session: &str) {
    let p = parks().lock().unwrap_or_else(|e| e.into_inner()).remove(session);
    if let Some(p) = p {
        p.release();
    }
}

// ---------------------------------------------------------------------------------------------
// latch log + raw truth log readers
// ---------------------------------------------------------------------------------------------

#[derive(Debug, Clone, Copy, PartialEq, Eq)]
enum Mk {
    S(usize),
    E(usize),
}

fn read_markers(lat: &Path) -> Vec<Mk> {
    let text = std::fs::read_to_string(lat.join("log")).unwrap_or_default();
    let complete = match text.rfind('\n') {
        Some(i) => &text[..=i],
        None => "",
    };
    let mut out = Vec::new();
    for line in complete.lines() {
        let line = line.trim();
        if let Some(n) = line.strip_prefix('S').and_then(|s| s.parse::<usize>().ok()) {
            out.push(Mk::S(n));
        } else if let Some(n) = line.strip_prefix('E').and_then(|s| s.parse::<usize>().ok()) {
            out.push(Mk::E(n));
        }
    }
    out
}

fn has_s(m: &[Mk], i: usize) -> bool {
    m.contains(&Mk::S(i))
}
fn has_e(m: &[Mk], i: usize) -> bool {
    m.contains(&Mk::E(i))
}
/// started-not-ended, in start order
fn open_latches(m: &[Mk]) -> Vec<usize> {
    let mut open = Vec::new();
    for k in m {
        match k {
            Mk::S(i) => open.push(*i),
            Mk::E(i) => open.retain(|x| x != i),
        }
    }
    open
}
fn markers_text(m: &[Mk]) -> String {
    m.iter()
        .map(|k| match k {
            Mk::S(i) => format!("S{i}"),
            Mk::E(i) => format!("E{i}"),
        })
        .collect::<Vec<_>>()
        .join(" ")
}

/// Tolerant reader for polling while writers are active: a torn last line is skipped.
fn read_frames(auth: &Authority) -> Vec<Value> {
    let bytes = auth.sandbox.log_bytes();
    let mut out = Vec::new();
    for line in bytes.split(|b| *b == b'\n') {
        if line.is_empty() {
            continue;
        }
        if let Ok(v) = serde_json::from_slice::<Value>(line) {
            out.push(v);
        }
    }
    out
}

fn s<'a>(v: &'a Value, k: &str) -> &'a str {
    v.get(k).and_then(|x| x.as_str()).unwrap_or("")
}

const EFFECT_TYPES: &[&str] = &[
    "tool_started",
    "tool_stdout",
    "tool_stderr",
    "tool_ended",
    "tool_failed",
    "checkpoint_created",
    "checkpoint_rewound",
    "checkpoint_failed",
];

/// frames that only exist once the session got past the workspace lock
fn effect_frames(frames: &[Value], sid: &str) -> usize {
    frames
        .iter()
        .filter(|v| {
            (s(v, "stream_id") == sid && EFFECT_TYPES.contains(&s(v, "type")))
                || (s(v, "type") == "continuity_tool_side_effects" && s(v, "run_session_id") == sid)
        })
        .count()
}
fn ended_frames(frames: &[Value], sid: &str) -> usize {
    frames.iter().filter(|v| s(v, "stream_id") == sid && s(v, "type") == "session_ended").count()
}
fn run_ended(frames: &[Value], sid: &str) -> bool {
    frames.iter().any(|v| s(v, "type") == "continuity_run_ended" && s(v, "run_session_id") == sid)
}
fn task_status_frames(frames: &[Value], tid: &str) -> usize {
    frames.iter().filter(|v| s(v, "stream_id") == tid && s(v, "type") == "tool_task_status").count()
}
fn task_terminal(frames: &[Value], tid: &str) -> bool {
    frames.iter().any(|v| {
        s(v, "stream_id") == tid
            && s(v, "type") == "tool_task_status"
            && matches!(s(v, "status"), "exited" | "failed" | "cancelled")
    })
}

fn timed_out(frames: &[Value], sid: &str) -> bool {
    frames.iter().any(|v| s(v, "stream_id") == sid && s(v, "type") == "tool_failed" && s(v, "error") == "timeout")
}

fn mutating_tool(name: &str) -> bool {
    // property statement: "mutating (write, apply_patch, bash, ... shell tasks)"; `shell` is the
    // registered alias of `bash`
    matches!(name, "bash" | "shell" | "write" | "apply_patch")
}
fn readonly_tool(name: &str) -> bool {
    matches!(name, "read" | "ls" | "grep" | "artifact_fetch")
}

// ---------------------------------------------------------------------------------------------
// requests
// ---------------------------------------------------------------------------------------------

#[derive(Debug, Clone)]
enum Req {
    ThreadPost { thread: String, content: String, over: Option<Value> },
    Plain { content: String },
    Input { session: String, content: String },
    Task { tool: String, command: String },
}

/// Returns the session id / task id when the request was accepted.
async fn send(router: Router, req: Req) -> Option<String> {
    match req {
        Req::ThreadPost { thread, content, over } => {
            let mut body = json!({"content": content, "actor_id": "user", "origin": "test"});
            if let Some(o) = over {
                body["openresponses"] = o;
            }
            let (st, v) = call_json(&router, Method::POST, &format!("/threads/{thread}/messages"), Some(body)).await;
            if st != StatusCode::ACCEPTED {
                return None;
            }
            v.get("session_id").and_then(|x| x.as_str()).map(|x| x.to_string())
        }
        Req::Plain { content } => {
            let (_st, v) = call_json(&router, Method::POST, "/sessions", None).await;
            let sid = v.get("session_id").and_then(|x| x.as_str())?.to_string();
            let (st, _) =
                call_json(&router, Method::POST, &format!("/sessions/{sid}/input"), Some(json!({"input": content}))).await;
            if st != StatusCode::ACCEPTED {
                return None;
            }
            Some(sid)
        }
        Req::Input { session, content } => {
            let (st, _) = call_json(
                &router,
                Method::POST,
                &format!("/sessions/{session}/input"),
                Some(json!({"input": content})),
            )
            .await;
            if st != StatusCode::ACCEPTED {
                return None;
            }
            Some(session)
        }
        Req::Task { tool, command } => {
            let (st, v) = call_json(
                &router,
                Method::POST,
                "/tasks",
                Some(json!({"tool": tool, "args": {"command": command}, "title": "c11 latch", "execution_mode": "pipes"})),
            )
            .await;
            if st != StatusCode::CREATED {
                return None;
            }
            v.get("task_id").and_then(|x| x.as_str()).map(|x| x.to_string())
        }
    }
}

/// Issue a batch truly concurrently (one runtime task per request).
async fn send_all(router: &Router, reqs: Vec<Req>) -> Vec<Option<String>> {
    let handles: Vec<_> = reqs.into_iter().map(|r| tokio::spawn(send(router.clone(), r))).collect();
    let mut out = Vec::new();
    for h in handles {
        out.push(h.await.ok().flatten());
    }
    out
}

fn envelope(tool: &str, args: Value) -> String {
    json!({"tool": tool, "args": args}).to_string()
}

// ---------------------------------------------------------------------------------------------
// scripted provider turns (Open Responses event shapes as in c07)
// ---------------------------------------------------------------------------------------------

fn response_obj(id: &str, status: &str) -> Value {
    json!({
        "background": false, "completed_at": null, "created_at": 0, "error": null, "frequency_penalty": 0,
        "id": id, "incomplete_details": null, "instructions": null, "max_output_tokens": null,
        "max_tool_calls": null, "metadata": {}, "model": "fixture-model", "object": "response", "output": [],
        "parallel_tool_calls": false, "presence_penalty": 0, "previous_response_id": null,
        "prompt_cache_key": null, "reasoning": null, "safety_identifier": null, "service_tier": "",
        "status": status, "store": false, "temperature": 0, "text": {"format": {"type": "text"}},
        "tool_choice": "auto", "tools": [], "top_logprobs": 0, "top_p": 0, "truncation": "auto",
        "usage": null, "user": null
    })
}

fn tool_turn(tag: &str, calls: &[(String, String)]) -> Reply {
    let rid = format!("resp_{tag}_1");
    let mut n = 0u64;
    let mut next = || {
        n += 1;
        n
    };
    let mut body = String::new();
    body.push_str(&sse_json(&json!({"type":"response.created","sequence_number":next(),"response":response_obj(&rid, "in_progress")})));
    for (j, (name, args)) in calls.iter().enumerate() {
        body.push_str(&sse_json(&json!({"type":"response.output_item.done","sequence_number":next(),"output_index":j,
            "item":{"type":"function_call","id":format!("fc_{tag}_{j}"),"call_id":format!("call_{tag}_{j}"),
                    "name":name,"arguments":args,"status":"completed"}})));
    }
    body.push_str(&sse_json(&json!({"type":"response.completed","sequence_number":next(),"response":response_obj(&rid, "completed")})));
    body.push_str(&sse_done());
    Reply::sse(vec![body.into_bytes()])
}

fn text_turn(tag: &str) -> Reply {
    let rid = format!("resp_{tag}_2");
    let mut body = String::new();
    body.push_str(&sse_json(&json!({"type":"response.created","sequence_number":1,"response":response_obj(&rid, "in_progress")})));
    body.push_str(&sse_json(&json!({"type":"response.output_text.delta","sequence_number":2,"item_id":"msg_1","output_index":0,"content_index":0,"delta":"done","logprobs":[]})));
    body.push_str(&sse_json(&json!({"type":"response.completed","sequence_number":3,"response":response_obj(&rid, "completed")})));
    body.push_str(&sse_done());
    Reply::sse(vec![body.into_bytes()])
}

// ---------------------------------------------------------------------------------------------
// per-case state
// ---------------------------------------------------------------------------------------------

struct MutRt {
    /// session id (None until issued)
    sid: Option<String>,
    /// latch actors whose `S` marker the harness had seen BEFORE issuing this mutator
    after_s: Vec<usize>,
    base_effects: usize,
    base_ended: usize,
    /// pre-created session + checkpoint id (CkptRewind)
    pre_session: Option<String>,
    pre_checkpoint: Option<String>,
}

/// A contradiction observed while latch `holder` was provably still in progress.
struct LiveFail {
    /// signature when the holder is an ordinary latch
    sig: String,
    /// suffix of `timeout_overlap|...` when the holder's tool had already been failed by its timeout
    what: String,
    holder: usize,
    detail: Value,
}

struct ProbeRt {
    sid: String,
    tool: ProbeTool,
    via_thread: bool,
}

struct Env {
    auth: Authority,
    thread: String,
    ws: PathBuf,
    lat: PathBuf,
    fifos: Vec<std::fs::File>,
    providers: Vec<Option<Provider>>,
    artifact_id: String,
    n: usize,
    // runtime
    lid: Vec<Option<String>>,
    released: Vec<bool>,
    armed: Vec<String>,
    muts: Vec<MutRt>,
    probes: Vec<ProbeRt>,
    /// acquisition trace for evidence
    max_contenders: usize,
    probes_done_while_held: u64,
    parked: Vec<usize>,
    /// set when the case must be wound down without further schedule steps
    abort: Option<String>,
    /// probes suspected to be blocked by the lock: (tool, session ids, holder)
    suspects: Vec<(ProbeTool, Vec<String>, usize)>,
    /// violations observed while a latch was provably still held
    live_fails: Vec<LiveFail>,
    /// timeout latches whose command was killed (no E marker will ever appear)
    killed: Vec<bool>,
}

impl Env {
    fn latch_command(&self, i: usize) -> String {
        let log = self.lat.join("log");
        let fifo = self.lat.join(format!("f{i}"));
        format!(
            "echo S{i} >> '{}'; read -t {LATCH_READ_TIMEOUT_S} _ <> '{}'; echo E{i} >> '{}'",
            log.display(),
            fifo.display(),
            log.display()
        )
    }

    fn latch_req(&self, case: &Case, i: usize) -> Req {
        let l = &case.latches[i];
        let tool = if l.alias { "shell" } else { "bash" };
        let cmd = self.latch_command(i);
        let envelope = |tool: &str, args: Value| -> String {
            let mut v = json!({"tool": tool, "args": args});
            if let Some(t) = l.timeout_ms {
                v["timeout_ms"] = json!(t);
            }
            v.to_string()
        };
        match l.kind {
            LatchKind::ThreadRun => Req::ThreadPost {
                thread: self.thread.clone(),
                content: envelope(tool, json!({"command": cmd})),
                over: None,
            },
            LatchKind::ProviderRun => {
                let ep = self.providers[i].as_ref().map(|p| p.endpoint()).unwrap_or_default();
                Req::ThreadPost {
                    thread: self.thread.clone(),
                    content: format!("{PROMPT} (actor {i})"),
                    over: Some(json!({"endpoint": ep, "model": "test-model"})),
                }
            }
            LatchKind::PlainSession => Req::Plain { content: envelope(tool, json!({"command": cmd})) },
            LatchKind::Task => Req::Task { tool: tool.to_string(), command: cmd },
        }
    }

    fn mut_req(&self, case: &Case, j: usize) -> Req {
        let m = &case.muts[j];
        let content = match m.kind {
            MutKind::Write => envelope("write", json!({"path": format!("w_{j}.txt"), "content": format!("written by {j}\n")})),
            MutKind::Patch => envelope(
                "apply_patch",
                json!({"patch": format!(
                    "*** Begin Patch\n*** Add File: p_{j}.txt\n+patched {j}\n*** Update File: ps_{j}.txt\n@@\n-{}\n+ALPHA {j}\n beta\n*** End Patch\n",
                    if m.fail { "gamma" } else { "alpha" }
                )}),
            ),
            MutKind::CkptCreate => {
                json!({"checkpoint": {"action": "create", "label": format!("manual {j}"), "files": [format!("ck_{j}.txt")]}}).to_string()
            }
            MutKind::CkptRewind => json!({"checkpoint": {"action": "rewind",
                "id": self.muts[j].pre_checkpoint.clone().unwrap_or_default()}})
            .to_string(),
        };
        if m.kind == MutKind::CkptRewind {
            Req::Input { session: self.muts[j].pre_session.clone().unwrap_or_default(), content }
        } else if m.via_thread {
            Req::ThreadPost { thread: self.thread.clone(), content, over: None }
        } else {
            Req::Plain { content }
        }
    }

    fn probe_req(&self, tool: ProbeTool, via_thread: bool) -> Req {
        let content = match tool {
            ProbeTool::Read => envelope("read", json!({"path": SEED_FILE})),
            ProbeTool::Ls => envelope("ls", json!({})),
            ProbeTool::Grep => envelope("grep", json!({"pattern": "seed"})),
            ProbeTool::ArtifactFetch => envelope("artifact_fetch", json!({"id": self.artifact_id})),
        };
        if via_thread {
            Req::ThreadPost { thread: self.thread.clone(), content, over: None }
        } else {
            Req::Plain { content }
        }
    }

    /// Is the latch command of actor `i` still a live process? (scan of /proc command lines for
    /// the actor's FIFO path; only used for latches with an envelope timeout)
    fn process_alive(&self, i: usize) -> bool {
        let needle = self.lat.join(format!("f{i}")).to_string_lossy().into_owned().into_bytes();
        let Ok(rd) = std::fs::read_dir("/proc") else { return true };
        for e in rd.flatten() {
            let name = e.file_name();
            if !name.to_string_lossy().bytes().all(|b| b.is_ascii_digit()) {
                continue;
            }
            if let Ok(cmd) = std::fs::read(e.path().join("cmdline")) {
                if cmd.windows(needle.len()).any(|w| w == needle.as_slice()) {
                    // a process that has been sent SIGKILL is no longer "in progress" even if it
                    // has not been descheduled yet (pending-signal masks, bit 8 = signal 9)
                    let status = std::fs::read_to_string(e.path().join("status")).unwrap_or_default();
                    let kill_pending = status.lines().any(|l| {
                        (l.starts_with("SigPnd:") || l.starts_with("ShdPnd:"))
                            && l.split(':').nth(1).and_then(|h| u64::from_str_radix(h.trim(), 16).ok()).map(|m| m & (1 << 8) != 0).unwrap_or(false)
                    });
                    let zombie = status.lines().any(|l| l.starts_with("State:") && (l.contains("Z (") || l.contains("X (")));
                    if !kill_pending && !zombie {
                        return true;
                    }
                }
            }
        }
        false
    }

    fn ended(&self, markers: &[Mk], i: usize) -> bool {
        has_e(markers, i) || self.killed[i]
    }

    /// A timeout latch whose tool was failed and whose command is gone has ended without a marker.
    fn refresh_killed(&mut self, case: &Case, markers: &[Mk], frames: &[Value]) {
        for i in 0..self.n {
            if case.latches[i].timeout_ms.is_none() || self.killed[i] || !has_s(markers, i) || has_e(markers, i) {
                continue;
            }
            let failed = self.lid[i].as_deref().map(|sid| timed_out(frames, sid)).unwrap_or(false);
            // the command writes E before it exits: a dead process and STILL no E (read after the
            // scan) means it was killed
            if failed && !self.process_alive(i) && !has_e(&read_markers(&self.lat), i) {
                self.killed[i] = true;
            }
        }
    }

    fn release_fifo(&mut self, i: usize) {
        let _ = self.fifos[i].write_all(b"go\n");
        self.released[i] = true;
    }

    /// file-level effect of a mutator (true = the mutation is visible in the workspace)
    fn file_effect(&self, case: &Case, j: usize) -> bool {
        match case.muts[j].kind {
            MutKind::Write => self.ws.join(format!("w_{j}.txt")).exists(),
            MutKind::Patch => {
                self.ws.join(format!("p_{j}.txt")).exists()
                    || std::fs::read(self.ws.join(format!("ps_{j}.txt"))).map(|b| b != b"alpha\nbeta\n").unwrap_or(false)
            }
            MutKind::CkptCreate => false,
            MutKind::CkptRewind => {
                std::fs::read(self.ws.join(format!("rw_{j}.txt"))).map(|b| b == b"v1\n").unwrap_or(false)
            }
        }
    }

    fn mut_done(&self, case: &Case, j: usize, frames: &[Value]) -> bool {
        let Some(sid) = self.muts[j].sid.as_deref() else { return true };
        if case.muts[j].via_thread {
            run_ended(frames, sid)
        } else {
            ended_frames(frames, sid) > self.muts[j].base_ended
        }
    }

    fn latch_done(&self, case: &Case, i: usize, frames: &[Value]) -> bool {
        let Some(id) = self.lid[i].as_deref() else { return true };
        match case.latches[i].kind {
            LatchKind::ThreadRun | LatchKind::ProviderRun => run_ended(frames, id),
            LatchKind::PlainSession => {
                ended_frames(frames, id) > 0
                    && self.auth.sandbox.data.join("snapshots").join(format!("{id}.json")).exists()
            }
            LatchKind::Task => {
                task_terminal(frames, id)
                    && self.auth.sandbox.data.join("task_snapshots").join(format!("{id}.json")).exists()
            }
        }
    }

    fn probe_done(&self, p: &ProbeRt, frames: &[Value]) -> bool {
        ended_frames(frames, &p.sid) > 0
    }

    /// number of mutating actors issued and not finished, other than latch `x`
    fn pending_contenders(&self, case: &Case, x: usize, frames: &[Value], markers: &[Mk]) -> usize {
        let mut k = 0;
        for i in 0..self.n {
            if i != x && self.lid[i].is_some() && !self.ended(markers, i) {
                k += 1;
            }
        }
        for j in 0..case.muts.len() {
            if self.muts[j].sid.is_some() && !self.mut_done(case, j, frames) {
                k += 1;
            }
        }
        k
    }
}

fn latch_round(case: &Case, i: usize) -> Option<usize> {
    case.latches[i].late.map(|c| pick(c, i.max(1)).min(i.saturating_sub(1)))
}

// ---------------------------------------------------------------------------------------------
// the case
// ---------------------------------------------------------------------------------------------

thread_local! {
    static RT: tokio::runtime::Runtime = rv::runs::runtime(4);
}

fn run(case: &Case) -> CaseReport {
    let mut case = case.clone();
    let mut excluded = 0u64;
    if EXCLUDE_KNOWN_TIMEOUT_OVERLAP && !case.allow_known && !no_exclude() {
        for l in &mut case.latches {
            if l.timeout_ms.take().is_some() {
                excluded += 1;
            }
        }
    }
    // Since the repository refuses a second input on a session (409, fix for the duplicate-stream
    // defect), a checkpoint rewind is no longer reachable through the router: checkpoints are keyed
    // by session id and a session takes exactly one input. Rewind mutators are therefore run as
    // checkpoint-create mutators (rewind itself is covered at the workspace level by C14).
    let mut rewinds_as_create = 0u64;
    for m in &mut case.muts {
        if m.kind == MutKind::CkptRewind {
            m.kind = MutKind::CkptCreate;
            rewinds_as_create += 1;
        }
    }
    let case = normalise(case);
    let mut rep = RT.with(|rt| rt.block_on(run_async(&case)));
    if rewinds_as_create > 0 {
        rep.count("rewind_mutators_run_as_checkpoint_create", rewinds_as_create);
    }
    if excluded > 0 {
        rep.count("excluded_known_tool_timeout_overlap", excluded);
        rep.class("excluded:tool_envelope_timeout_stripped");
    }
    rep
}

async fn run_async(case: &Case) -> CaseReport {
    let mut rep = CaseReport::new();
    let mut env = match setup(case, &mut rep).await {
        Ok(e) => e,
        Err(why) => {
            rep.inconclusive(&why);
            return rep;
        }
    };
    drive(case, &mut env, &mut rep).await;
    let finished = finish(case, &mut env).await;
    // ---- clean: every FIFO gets a line, every park is released, before anything is judged
    for i in 0..env.n {
        let _ = env.fifos[i].write_all(b"go\n");
    }
    for sid in std::mem::take(&mut env.armed) {
        disarm(&sid);
    }
    judge(case, &mut env, finished, &mut rep);
    classes(case, &env, &mut rep);
    rep
}

async fn setup(case: &Case, rep: &mut CaseReport) -> Result<Env, String> {
    let n = case.latches.len();
    let auth = Authority::new("c11", None);
    let ws = auth.sandbox.ws.clone();
    let lat = auth.sandbox.root.join(".lat");
    std::fs::create_dir_all(&lat).map_err(|e| format!("lat_dir:{e}"))?;
    std::fs::write(lat.join("log"), b"").map_err(|e| format!("lat_log:{e}"))?;
    let mut fifos = Vec::new();
    for i in 0..n {
        let p = lat.join(format!("f{i}"));
        let c = std::ffi::CString::new(p.to_string_lossy().as_bytes()).map_err(|_| "fifo_path".to_string())?;
        // SAFETY: plain libc call with a valid NUL-terminated path
        let rc = unsafe { libc::mkfifo(c.as_ptr(), 0o600) };
        if rc != 0 {
            return Err("mkfifo_failed".to_string());
        }
        // O_RDWR on a FIFO never blocks (Linux) and keeps a writer present for the whole case:
        // a line written before the command reads stays buffered
        let f = std::fs::OpenOptions::new().read(true).write(true).open(&p).map_err(|e| format!("fifo_open:{e}"))?;
        fifos.push(f);
    }
    // seeds
    let _ = std::fs::write(ws.join(SEED_FILE), b"seed line one\nseed line two\n");
    for (j, m) in case.muts.iter().enumerate() {
        match m.kind {
            MutKind::Patch => {
                let _ = std::fs::write(ws.join(format!("ps_{j}.txt")), b"alpha\nbeta\n");
            }
            MutKind::CkptCreate => {
                let _ = std::fs::write(ws.join(format!("ck_{j}.txt")), format!("checkpoint me {j}\n"));
            }
            MutKind::CkptRewind => {
                let _ = std::fs::write(ws.join(format!("rw_{j}.txt")), b"v1\n");
            }
            MutKind::Write => {}
        }
    }
    let blob = b"artifact body for c11\n";
    let artifact_id = hex::encode(Sha256::digest(blob));
    if case.probes.iter().any(|p| p.tool == ProbeTool::ArtifactFetch) {
        let dir = ws.join(".rip").join("artifacts").join("blobs");
        let _ = std::fs::create_dir_all(&dir);
        let _ = std::fs::write(dir.join(&artifact_id), blob);
    }
    let thread = auth.ensure_thread().await.ok_or("no_thread")?;

    let mut env = Env {
        auth,
        thread,
        ws,
        lat,
        fifos,
        providers: (0..n).map(|_| None).collect(),
        artifact_id,
        n,
        lid: vec![None; n],
        released: vec![false; n],
        armed: Vec::new(),
        muts: case
            .muts
            .iter()
            .map(|_| MutRt { sid: None, after_s: Vec::new(), base_effects: 0, base_ended: 0, pre_session: None, pre_checkpoint: None })
            .collect(),
        probes: Vec::new(),
        max_contenders: 0,
        probes_done_while_held: 0,
        parked: Vec::new(),
        abort: None,
        suspects: Vec::new(),
        live_fails: Vec::new(),
        killed: vec![false; n],
    };

    // providers: one per provider-run actor (selected per message through the endpoint override),
    // so that concurrent runs never share a script
    for (i, l) in case.latches.iter().enumerate() {
        if l.kind != LatchKind::ProviderRun {
            continue;
        }
        let tool = if l.alias { "shell" } else { "bash" };
        let mut calls: Vec<(String, String)> = Vec::new();
        if l.pre_ls {
            calls.push(("ls".into(), json!({}).to_string()));
        }
        calls.push((tool.into(), json!({"command": env.latch_command(i)}).to_string()));
        if l.post_write {
            calls.push(("write".into(), json!({"path": format!("pw_{i}.txt"), "content": format!("after latch {i}\n")}).to_string()));
        }
        let tag = format!("a{i}");
        let p = Provider::start(vec![tool_turn(&tag, &calls), text_turn(&tag)], text_turn(&format!("{tag}f"))).await;
        env.providers[i] = Some(p);
    }

    // rewind actors: a plain session creates the checkpoint now; the rewind is its second input
    for j in 0..case.muts.len() {
        if case.muts[j].kind != MutKind::CkptRewind {
            continue;
        }
        let content = json!({"checkpoint": {"action": "create", "label": format!("pre {j}"), "files": [format!("rw_{j}.txt")]}}).to_string();
        let sid = send(env.auth.router.clone(), Req::Plain { content }).await.ok_or("pre_checkpoint_rejected")?;
        let t0 = Instant::now();
        let ckpt = loop {
            let frames = read_frames(&env.auth);
            let snap = env.auth.sandbox.data.join("snapshots").join(format!("{sid}.json")).exists();
            if ended_frames(&frames, &sid) > 0 && snap {
                break frames
                    .iter()
                    .find(|v| s(v, "stream_id") == sid && s(v, "type") == "checkpoint_created")
                    .map(|v| s(v, "checkpoint_id").to_string());
            }
            if t0.elapsed() > Duration::from_secs(10) {
                return Err("pre_checkpoint_timeout".to_string());
            }
            tokio::time::sleep(POLL).await;
        };
        let Some(ckpt) = ckpt else {
            rep.class("pre_checkpoint_failed");
            return Err("pre_checkpoint_failed".to_string());
        };
        let _ = std::fs::write(env.ws.join(format!("rw_{j}.txt")), b"v2\n");
        let frames = read_frames(&env.auth);
        env.muts[j].base_effects = effect_frames(&frames, &sid);
        env.muts[j].base_ended = ended_frames(&frames, &sid);
        env.muts[j].pre_session = Some(sid);
        env.muts[j].pre_checkpoint = Some(ckpt);
    }
    Ok(env)
}

/// Issue latch actors `ls` and mutators `ms` concurrently. `seen_s`: latch actors whose `S` marker
/// the harness has already observed (recorded as ordering facts for the mutators).
async fn issue(case: &Case, env: &mut Env, ls: &[usize], ms: &[usize], seen_s: &[usize]) {
    let mut reqs = Vec::new();
    for &i in ls {
        reqs.push(env.latch_req(case, i));
    }
    for &j in ms {
        reqs.push(env.mut_req(case, j));
    }
    if reqs.is_empty() {
        return;
    }
    let ids = send_all(&env.auth.router, reqs).await;
    for (k, &i) in ls.iter().enumerate() {
        match &ids[k] {
            Some(id) => env.lid[i] = Some(id.clone()),
            None => env.abort = Some("latch_request_rejected".to_string()),
        }
    }
    for (k, &j) in ms.iter().enumerate() {
        match &ids[ls.len() + k] {
            Some(id) => {
                env.muts[j].sid = Some(id.clone());
                env.muts[j].after_s = seen_s.to_vec();
            }
            None => env.abort = Some("mutator_request_rejected".to_string()),
        }
    }
}

fn push_live(env: &mut Env, lf: LiveFail) {
    if !env.live_fails.iter().any(|o| o.sig == lf.sig && o.holder == lf.holder) {
        env.live_fails.push(lf);
    }
}

/// One observation while latch `x` is (claimed to be) held. Everything that could contradict the
/// property is read FIRST, the latch log LAST: if `E<x>` is still absent then, `x` was held during
/// all the reads above (soundness rests on this order, not on time).
fn observe_held(case: &Case, env: &mut Env, x: usize, watched: &[usize]) -> (usize, usize) {
    let frames = read_frames(&env.auth);
    let mut effects: Vec<(usize, usize, bool)> = Vec::new();
    for &j in watched {
        if let Some(sid) = env.muts[j].sid.as_deref() {
            let e = effect_frames(&frames, sid).saturating_sub(env.muts[j].base_effects);
            let f = env.file_effect(case, j);
            effects.push((j, e, f));
        }
    }
    let mut early_tasks: Vec<usize> = Vec::new();
    let markers = read_markers(&env.lat);
    // a latch with an envelope timeout may be killed by a (fixed) implementation: it is in
    // progress only while its process exists (checked after everything else, like the markers)
    let x_timeout = case.latches[x].timeout_ms.is_some();
    let held = has_s(&markers, x) && !has_e(&markers, x) && (!x_timeout || env.process_alive(x));
    if held && x_timeout {
        // overlap with a timeout holder is judged live (its end may leave no marker)
        let sx = markers.iter().position(|k| *k == Mk::S(x)).unwrap_or(0);
        for k in markers.iter().skip(sx + 1) {
            if let Mk::S(y) = k {
                push_live(env, LiveFail {
                    sig: format!("overlap|{}|{}", case.latches[x].kind.tag(), case.latches[*y].kind.tag()),
                    what: format!("latch|{}", case.latches[*y].kind.tag()),
                    holder: x,
                    detail: json!({"holder": x, "intruder": y, "latch_log": markers_text(&markers), "holder_process_alive": true,
                           "expected": "no other workspace-mutating execution starts while the holder's command is still running"}),
                });
            }
        }
    }
    if held {
        // a task that has not started its command (no S marker) must not have passed the lock
        for i in 0..env.n {
            if i != x && case.latches[i].kind == LatchKind::Task && !has_s(&markers, i) {
                if let Some(tid) = env.lid[i].as_deref() {
                    if task_status_frames(&frames, tid) > 0 {
                        early_tasks.push(i);
                    }
                }
            }
        }
        for (j, e, f) in &effects {
            if *e > 0 || *f {
                let m = &case.muts[*j];
                push_live(env, LiveFail {
                    sig: format!("mutation_while_held|{}", m.kind.tag()),
                    what: format!("mutation|{}", m.kind.tag()),
                    holder: x,
                    detail: json!({"holder": x, "holder_kind": case.latches[x].kind.tag(), "mutator": j, "via_thread": m.via_thread,
                           "effect_frames": e, "file_effect": f, "latch_log": markers_text(&markers),
                           "expected": "a workspace mutation requested after S<holder> was seen has no effect before E<holder>"}),
                });
            }
        }
        for i in early_tasks {
            push_live(env, LiveFail {
                sig: format!("overlap|{}|task_running", case.latches[x].kind.tag()),
                what: "task_running".to_string(),
                holder: x,
                detail: json!({"holder": x, "task": i, "latch_log": markers_text(&markers),
                       "expected": "a task emits no status frame (running) while another execution holds the workspace"}),
            });
        }
    }
    let total_effects: usize = effects.iter().map(|(_, e, f)| e + *f as usize).sum();
    (markers.len(), total_effects)
}

/// Give competitors time to (wrongly) start while `x` is held.
async fn settle_held(case: &Case, env: &mut Env, x: usize, watched: &[usize]) {
    let t0 = Instant::now();
    let mut last = observe_held(case, env, x, watched);
    let mut last_change = Instant::now();
    loop {
        tokio::time::sleep(POLL).await;
        let now = observe_held(case, env, x, watched);
        if now != last {
            last = now;
            last_change = Instant::now();
        }
        if last_change.elapsed() >= SETTLE || t0.elapsed() >= SETTLE_MAX {
            break;
        }
    }
}

async fn wait_until(timeout: Duration, mut cond: impl FnMut() -> bool) -> bool {
    let t0 = Instant::now();
    loop {
        if cond() {
            return true;
        }
        if t0.elapsed() > timeout {
            return false;
        }
        tokio::time::sleep(POLL).await;
    }
}

/// (ii): probes of this round, one after the other, while `x` is held.
async fn probe_phase(case: &Case, env: &mut Env, x: usize, round: usize) {
    let n = env.n;
    let todo: Vec<Probe> = case.probes.iter().filter(|p| pick(p.round, n) == round).cloned().collect();
    for p in todo {
        let Some(sid) = send(env.auth.router.clone(), env.probe_req(p.tool, p.via_thread)).await else {
            env.abort = Some("probe_request_rejected".to_string());
            return;
        };
        env.probes.push(ProbeRt { sid: sid.clone(), tool: p.tool, via_thread: p.via_thread });
        let mut sids = vec![sid];
        let mut completed_held = false;
        for attempt in 0..3 {
            let bound = if attempt == 0 { PROBE_BOUND } else { CONFIRM_BOUND };
            let auth = &env.auth;
            let done = wait_until(bound, || {
                let frames = read_frames(auth);
                sids.iter().any(|sid| ended_frames(&frames, sid) > 0)
            })
            .await;
            if done {
                // completion was read first, the latch log after it
                let markers = read_markers(&env.lat);
                if !has_e(&markers, x) {
                    completed_held = true;
                }
                break;
            }
            if attempt < 2 {
                // confirmation: another probe of the same tool, still while x is held
                if let Some(sid) = send(env.auth.router.clone(), env.probe_req(p.tool, p.via_thread)).await {
                    env.probes.push(ProbeRt { sid: sid.clone(), tool: p.tool, via_thread: p.via_thread });
                    sids.push(sid);
                }
            }
        }
        if completed_held {
            env.probes_done_while_held += 1;
        } else {
            let markers = read_markers(&env.lat);
            if has_e(&markers, x) {
                // the latch ended by itself (read -t): nothing can be concluded
                env.abort = Some("latch_timed_out".to_string());
            } else {
                env.suspects.push((p.tool, sids, x));
                env.abort = Some(String::new()); // wind down; judged in `judge`
            }
            return;
        }
    }
}

async fn drive(case: &Case, env: &mut Env, rep: &mut CaseReport) {
    let n = env.n;
    // ---- initial batch: all of it concurrently
    let ls0: Vec<usize> = (0..n).filter(|&i| case.latches[i].late.is_none()).collect();
    let ms0: Vec<usize> = (0..case.muts.len()).filter(|&j| case.muts[j].when == When::Start).collect();
    issue(case, env, &ls0, &ms0, &[]).await;

    let mut round = 0usize;
    let mut handled: BTreeSet<usize> = BTreeSet::new();
    let mut parked_pool_from: BTreeMap<usize, usize> = BTreeMap::new(); // mutator -> earliest round
    for (j, m) in case.muts.iter().enumerate() {
        if let When::Parked(c) = m.when {
            parked_pool_from.insert(j, pick(c, n));
        }
    }

    loop {
        if env.abort.is_some() {
            break;
        }
        let markers = read_markers(&env.lat);
        if case.latches.iter().any(|l| l.timeout_ms.is_some()) {
            let frames = read_frames(&env.auth);
            env.refresh_killed(case, &markers, &frames);
        }
        if (0..n).all(|i| env.ended(&markers, i)) {
            break;
        }
        let open: Vec<usize> = open_latches(&markers).into_iter().filter(|i| !handled.contains(i)).collect();
        let Some(&x) = open.first() else {
            // nobody new holds: wait for the next S marker
            let unissued: Vec<usize> = (0..n).filter(|&i| env.lid[i].is_none()).collect();
            let all_issued_ended = (0..n).all(|i| env.lid[i].is_none() || env.ended(&markers, i));
            if all_issued_ended && !unissued.is_empty() {
                // cannot happen by construction (actor i is issued by round i-1); keep the case alive
                rep.class("late_forced");
                let seen: Vec<usize> = (0..n).filter(|&i| has_s(&markers, i)).collect();
                issue(case, env, &unissued, &[], &seen).await;
                continue;
            }
            let t0 = Instant::now();
            loop {
                let m = read_markers(&env.lat);
                if case.latches.iter().any(|l| l.timeout_ms.is_some()) {
                    let frames = read_frames(&env.auth);
                    env.refresh_killed(case, &m, &frames);
                }
                if open_latches(&m).iter().any(|i| !handled.contains(i)) || (0..n).all(|i| env.ended(&m, i)) {
                    break;
                }
                if t0.elapsed() > HOLDER_WAIT {
                    env.abort = Some("no_holder".to_string());
                    break;
                }
                tokio::time::sleep(POLL).await;
            }
            continue;
        };
        handled.insert(x);
        let last_round = round + 1 >= n;
        let will_park = case.latches[x].park && case.latches[x].kind.on_thread();

        // ---- while x is held: late actors, mutators, probes
        let seen: Vec<usize> = (0..n).filter(|&i| has_s(&markers, i)).collect();
        let ls: Vec<usize> = (0..n)
            .filter(|&i| env.lid[i].is_none() && (latch_round(case, i).map(|r| r <= round).unwrap_or(true)))
            .collect();
        let mut ms: Vec<usize> = (0..case.muts.len())
            .filter(|&j| env.muts[j].sid.is_none())
            .filter(|&j| match case.muts[j].when {
                When::Held(c) => pick(c, n) <= round,
                When::Parked(_) => last_round && !will_park,
                When::Start => true,
            })
            .collect();
        ms.sort_unstable();
        issue(case, env, &ls, &ms, &seen).await;
        if env.abort.is_some() {
            break;
        }
        let watched = ms.clone();
        if !ls.is_empty() {
            rep.class("late_latch_issued_while_held");
        }
        if !ms.is_empty() {
            rep.class("mutator_issued_while_held");
        }
        probe_phase(case, env, x, round).await;
        if env.abort.is_some() {
            break;
        }
        settle_held(case, env, x, &watched).await;
        {
            let frames = read_frames(&env.auth);
            let m = read_markers(&env.lat);
            let k = env.pending_contenders(case, x, &frames, &m);
            env.max_contenders = env.max_contenders.max(k);
            if has_e(&m, x) {
                env.abort = Some("latch_timed_out".to_string());
                break;
            }
        }
        if case.latches[x].timeout_ms.is_some() {
            rep.class("holder_with_tool_timeout");
        }

        // ---- release x (optionally parking it before its side-effects append)
        let park = if will_park {
            env.lid[x].clone().map(|sid| {
                env.armed.push(sid.clone());
                (arm(&sid), sid)
            })
        } else {
            None
        };
        env.release_fifo(x);
        {
            let t0 = Instant::now();
            loop {
                let m = read_markers(&env.lat);
                if case.latches[x].timeout_ms.is_some() {
                    let frames = read_frames(&env.auth);
                    env.refresh_killed(case, &m, &frames);
                }
                if env.ended(&m, x) {
                    break;
                }
                if t0.elapsed() > END_WAIT {
                    env.abort = Some("no_end_marker".to_string());
                    break;
                }
                tokio::time::sleep(POLL).await;
            }
            if env.abort.is_some() {
                break;
            }
        }
        if let Some((p, sid)) = park {
            let arrived = {
                let p = p.clone();
                wait_until(PARK_WAIT, move || p.state() != ARMED).await
            };
            if arrived && p.state() == PARKED {
                env.parked.push(x);
                // mutators that wait for a parked run: issued after E<x> was seen, while x has not
                // logged its side effects yet
                let m_now = read_markers(&env.lat);
                let seen: Vec<usize> = (0..n).filter(|&i| has_s(&m_now, i)).collect();
                let pm: Vec<usize> = parked_pool_from
                    .iter()
                    .filter(|(j, from)| env.muts[**j].sid.is_none() && **from <= round)
                    .map(|(j, _)| *j)
                    .collect();
                if !pm.is_empty() {
                    rep.class("mutator_issued_while_parked");
                }
                issue(case, env, &[], &pm, &seen).await;
                // settle: may a competitor start although x has not logged yet? (decided from the
                // final logs; here we only give it the chance and, if it starts, let it finish)
                let t0 = Instant::now();
                let mut last_len = m_now.len();
                let mut last_change = Instant::now();
                loop {
                    tokio::time::sleep(POLL).await;
                    let m = read_markers(&env.lat);
                    if m.len() != last_len {
                        last_len = m.len();
                        last_change = Instant::now();
                    }
                    for y in open_latches(&m) {
                        if y != x && !env.released[y] {
                            rep.class("competitor_started_while_parked");
                            handled.insert(y);
                            env.release_fifo(y);
                            round += 1;
                        }
                    }
                    if last_change.elapsed() >= SETTLE || t0.elapsed() >= SETTLE_MAX {
                        break;
                    }
                }
                // overtakers (only on a broken tree): let them finish before x is released
                let overtakers: Vec<usize> = (0..n).filter(|&y| y != x && env.released[y] && handled.contains(&y)).collect();
                let pending_over: Vec<usize> = {
                    let frames = read_frames(&env.auth);
                    overtakers.into_iter().filter(|&y| !env.latch_done(case, y, &frames)).collect()
                };
                if !pending_over.is_empty() {
                    let t0 = Instant::now();
                    loop {
                        let frames = read_frames(&env.auth);
                        if pending_over.iter().all(|&y| env.latch_done(case, y, &frames)) || t0.elapsed() > OVERTAKE_WAIT {
                            break;
                        }
                        tokio::time::sleep(POLL).await;
                    }
                }
            } else {
                rep.class("park_not_reached");
            }
            disarm(&sid);
        }
        round += 1;
    }

    if env.abort.is_some() {
        // wind down: everything still unissued is dropped, every latch is released
        for i in 0..n {
            env.release_fifo(i);
        }
        for sid in env.armed.clone() {
            disarm(&sid);
        }
    }
}

/// Wait until everything the case started has reached its terminal frame. Returns false when the
/// bound was hit (=> inconclusive, and the per-run checks are skipped).
async fn finish(case: &Case, env: &mut Env) -> bool {
    let t0 = Instant::now();
    loop {
        let frames = read_frames(&env.auth);
        let markers = read_markers(&env.lat);
        env.refresh_killed(case, &markers, &frames);
        let latches_ok = (0..env.n).all(|i| env.lid[i].is_none() || (env.ended(&markers, i) && env.latch_done(case, i, &frames)));
        let muts_ok = (0..case.muts.len()).all(|j| env.mut_done(case, j, &frames));
        let probes_ok = env.probes.iter().all(|p| env.probe_done(p, &frames));
        if latches_ok && muts_ok && probes_ok {
            // thread probes: the run must have ended too (side-effect placement is judged)
            let thread_probes_ok = env.probes.iter().all(|p| !p.via_thread || run_ended(&frames, &p.sid));
            let plain_snaps_ok = (0..case.muts.len()).all(|j| {
                case.muts[j].via_thread
                    || env.muts[j].sid.as_deref().map_or(true, |sid| {
                        env.auth.sandbox.data.join("snapshots").join(format!("{sid}.json")).exists()
                    })
            }) && env.probes.iter().all(|p| {
                p.via_thread || env.auth.sandbox.data.join("snapshots").join(format!("{}.json", p.sid)).exists()
            });
            if thread_probes_ok && plain_snaps_ok {
                return true;
            }
        }
        if t0.elapsed() > FINISH_WAIT {
            return false;
        }
        // a latch that was never released (aborted schedule) must not keep the case waiting
        if env.abort.is_some() {
            for i in 0..env.n {
                let _ = env.fifos[i].write_all(b"go\n");
            }
        }
        tokio::time::sleep(Duration::from_millis(10)).await;
    }
}

// ---------------------------------------------------------------------------------------------
// verdicts (final logs only)
// ---------------------------------------------------------------------------------------------

fn judge(case: &Case, env: &mut Env, finished: bool, rep: &mut CaseReport) {
    let n = env.n;
    let markers = read_markers(&env.lat);
    if std::env::var_os("C11_DEBUG").is_some() {
        eprintln!("latch log: {}", markers_text(&markers));
        eprintln!("killed: {:?} abort: {:?} parked: {:?}", env.killed, env.abort, env.parked);
        for (i, v) in read_frames(&env.auth).iter().enumerate() {
            eprintln!(
                "{i:3} {:10} {:.8} {:34} {} {}",
                s(v, "stream_kind"), s(v, "stream_id"), s(v, "type"),
                s(v, "name").to_string() + s(v, "tool_name") + s(v, "error") + s(v, "status") + s(v, "reason"),
                v.get("run_session_id").and_then(|x| x.as_str()).map(|x| &x[..8]).unwrap_or("")
            );
        }
    }

    // ---- (i) mutual exclusion, from the content of the latch log
    let frames_now = read_frames(&env.auth);
    let is_timeout = |i: usize| case.latches.get(i).map(|l| l.timeout_ms.is_some()).unwrap_or(false);
    let mut open: Vec<usize> = Vec::new();
    for k in &markers {
        match k {
            Mk::S(b) => {
                // holders with an envelope timeout are judged live (observe_held): a fixed
                // implementation kills their command, which leaves no E marker
                if let Some(a) = open.iter().find(|a| !is_timeout(**a)) {
                    let (ka, kb) = (
                        case.latches.get(*a).map(|l| l.kind.tag()).unwrap_or("?"),
                        case.latches.get(*b).map(|l| l.kind.tag()).unwrap_or("?"),
                    );
                    rep.fail(
                        format!("overlap|{ka}|{kb}"),
                        json!({"latch_log": markers_text(&markers), "holder": a, "intruder": b,
                               "expected": "after S<a> no other S<b> before E<a>: two workspace-mutating executions were in progress at once"}),
                    );
                }
                open.push(*b);
            }
            Mk::E(a) => open.retain(|x| x != a),
        }
    }
    for lf in std::mem::take(&mut env.live_fails) {
        let holder_timed_out = is_timeout(lf.holder)
            && env.lid[lf.holder].as_deref().map(|sid| timed_out(&frames_now, sid)).unwrap_or(false);
        if holder_timed_out {
            let mut d = lf.detail;
            d["holder_tool_failed_with_timeout"] = json!(true);
            d["note"] = json!("the tool was failed at its timeout and the lock released, but the shell command it started is still running");
            rep.fail(format!("timeout_overlap|{}", lf.what), d);
        } else {
            rep.fail(lf.sig, lf.detail);
        }
    }
    rep.count("latch_markers", markers.len() as u64);

    // ---- (ii) suspected blocked probes: released the latch; did they complete then?
    for (tool, sids, holder) in std::mem::take(&mut env.suspects) {
        let all_done = sids.iter().all(|sid| ended_frames(&frames_now, sid) > 0);
        if all_done && finished {
            rep.fail(
                format!("readonly_blocked|{}", tool.tag()),
                json!({"holder": holder, "holder_kind": case.latches[holder].kind.tag(), "probes": sids.len(),
                       "bound_ms": PROBE_BOUND.as_millis() as u64 + 2 * CONFIRM_BOUND.as_millis() as u64,
                       "expected": "read-only tools may overlap freely: a read-only tool issued while a mutation is in progress completes without waiting for it; here none of the probes completed while the latch was held and all completed once it was released"}),
            );
        } else {
            rep.inconclusive("probe_never_completed");
        }
    }
    match env.abort.as_deref() {
        Some("") | None => {}
        Some(why) => rep.inconclusive(why),
    }
    if !finished {
        rep.inconclusive("not_quiescent");
        return;
    }
    for i in 0..n {
        if env.lid[i].is_some() && !(has_s(&markers, i) && env.ended(&markers, i)) {
            rep.inconclusive("latch_never_ran");
            return;
        }
    }

    // ---- (iii) + (iv) need the complete raw log
    let frames = match env.auth.sandbox.truth_values() {
        Ok(f) => f,
        Err(_) => {
            rep.inconclusive("raw_log_unreadable");
            return;
        }
    };
    let thread = env.thread.clone();
    let is_se = |v: &Value| s(v, "type") == "continuity_tool_side_effects" && s(v, "stream_id") == thread;
    let runs: Vec<String> = frames
        .iter()
        .filter(|v| s(v, "type") == "continuity_run_spawned" && s(v, "stream_id") == thread)
        .map(|v| s(v, "run_session_id").to_string())
        .collect();
    let mut known_pairs: BTreeSet<(String, String)> = BTreeSet::new();
    let mut mutating_calls = 0u64;
    let mut readonly_calls = 0u64;
    // (run, tool name) -> position of its side-effects frame among all frames
    let mut se_pos: BTreeMap<(String, String), usize> = BTreeMap::new();
    for sid in &runs {
        let run_end = frames.iter().position(|v| s(v, "type") == "continuity_run_ended" && s(v, "run_session_id") == sid);
        let started: Vec<(usize, &Value)> = frames
            .iter()
            .enumerate()
            .filter(|(_, v)| s(v, "stream_kind") == "session" && s(v, "stream_id") == sid && s(v, "type") == "tool_started")
            .collect();
        for (_, st) in &started {
            let tool_id = s(st, "tool_id");
            let name = s(st, "name");
            known_pairs.insert((sid.clone(), tool_id.to_string()));
            let end = frames.iter().position(|v| {
                s(v, "stream_id") == sid && matches!(s(v, "type"), "tool_ended" | "tool_failed") && s(v, "tool_id") == tool_id
            });
            let se: Vec<usize> = frames
                .iter()
                .enumerate()
                .filter(|(_, v)| is_se(v) && s(v, "run_session_id") == sid && s(v, "tool_id") == tool_id)
                .map(|(i, _)| i)
                .collect();
            if readonly_tool(name) {
                readonly_calls += 1;
                if !se.is_empty() {
                    rep.fail(
                        format!("side_effects|for_readonly|{name}"),
                        json!({"run": sid, "tool": name, "frames": se.len(),
                               "expected": "read-only tools produce no continuity_tool_side_effects"}),
                    );
                }
                continue;
            }
            if !mutating_tool(name) {
                continue;
            }
            mutating_calls += 1;
            if se.is_empty() {
                rep.fail(
                    format!("side_effects|missing|{name}"),
                    json!({"run": sid, "tool": name, "expected": "exactly one continuity_tool_side_effects per mutating tool call of a run attached to a thread"}),
                );
                continue;
            }
            if se.len() > 1 {
                rep.fail(
                    format!("side_effects|duplicate|{name}"),
                    json!({"run": sid, "tool": name, "frames": se.len(), "expected": "exactly one"}),
                );
            }
            let at = se[0];
            se_pos.insert((sid.clone(), name.to_string()), at);
            let fr = &frames[at];
            match end {
                Some(e) if at < e => rep.fail(
                    format!("side_effects|before_tool_end|{name}"),
                    json!({"run": sid, "tool": name, "side_effects_line": at, "tool_end_line": e,
                           "expected": "continuity_tool_side_effects after the tool's tool_ended/tool_failed (event_frames.md)"}),
                ),
                Some(_) => {}
                None => rep.class("tool_without_end_frame"),
            }
            match run_end {
                Some(r) if at > r => rep.fail(
                    format!("side_effects|after_run_ended|{name}"),
                    json!({"run": sid, "tool": name, "side_effects_line": at, "run_ended_line": r,
                           "expected": "continuity_tool_side_effects before continuity_run_ended of the same run"}),
                ),
                _ => {}
            }
            if s(fr, "tool_name") != name {
                rep.fail(
                    "side_effects|tool_name".to_string(),
                    json!({"run": sid, "tool": name, "frame_tool_name": fr.get("tool_name")}),
                );
            }
            // affected_paths / checkpoint_id
            let ok_exit = end.map(|e| s(&frames[e], "type") == "tool_ended" && frames[e]["exit_code"] == 0).unwrap_or(false);
            let auto_ckpt = frames
                .iter()
                .find(|v| {
                    s(v, "stream_id") == sid && s(v, "type") == "checkpoint_created" && v["auto"] == true && s(v, "tool_name") == name
                })
                .map(|v| s(v, "checkpoint_id").to_string());
            let paths = fr.get("affected_paths").cloned().unwrap_or(Value::Null);
            let ckpt = fr.get("checkpoint_id").cloned().unwrap_or(Value::Null);
            match name {
                "bash" | "shell" => {
                    if !paths.is_null() {
                        rep.fail(
                            format!("side_effects|affected_paths|{name}"),
                            json!({"run": sid, "affected_paths": paths, "expected": "null when unknown/unbounded, e.g. bash"}),
                        );
                    }
                    if !ckpt.is_null() {
                        rep.fail(format!("side_effects|checkpoint_id|{name}"), json!({"run": sid, "checkpoint_id": ckpt, "expected": null}));
                    }
                }
                "write" | "apply_patch" if ok_exit => {
                    let expected: Vec<String> = if name == "write" {
                        vec![s(&st["args"], "path").to_string()]
                    } else {
                        let mut v: Vec<String> = s(&st["args"], "patch")
                            .lines()
                            .filter_map(|l| l.strip_prefix("*** Add File: ").or_else(|| l.strip_prefix("*** Update File: ")))
                            .map(|p| p.trim().to_string())
                            .collect();
                        v.sort();
                        v.dedup();
                        v
                    };
                    let changed_on_disk = expected.iter().all(|p| env.ws.join(p).exists());
                    if paths != json!(expected) {
                        rep.fail(
                            format!("side_effects|affected_paths|{name}"),
                            json!({"run": sid, "affected_paths": paths, "expected": expected, "files_exist": changed_on_disk}),
                        );
                    }
                    let want = auto_ckpt.map(Value::String).unwrap_or(Value::Null);
                    if ckpt != want {
                        rep.fail(
                            format!("side_effects|checkpoint_id|{name}"),
                            json!({"run": sid, "checkpoint_id": ckpt, "expected": want,
                                   "rule": "auto-checkpoint id created immediately before the tool, if any"}),
                        );
                    }
                }
                _ => {
                    rep.class("failed_mutating_tool");
                    if paths.as_array().map(|a| !a.is_empty()).unwrap_or(false) {
                        // evidence only: the docs call the field "affected" paths and leave the
                        // failed-tool case open; the property says "files it changed"
                        rep.count("failed_tool_frame_lists_paths", 1);
                    }
                }
            }
        }
    }
    for (i, v) in frames.iter().enumerate() {
        if is_se(v) && !known_pairs.contains(&(s(v, "run_session_id").to_string(), s(v, "tool_id").to_string())) {
            rep.fail(
                "side_effects|orphan".to_string(),
                json!({"line": i, "frame": v, "expected": "every side-effects frame names a tool call of a run of this thread"}),
            );
        }
    }
    rep.count("mutating_tool_calls_on_thread", mutating_calls);
    rep.count("readonly_tool_calls_on_thread", readonly_calls);

    // the runs did what the case intended (else the evidence would be hollow)
    for i in 0..n {
        let l = &case.latches[i];
        if !l.kind.on_thread() {
            continue;
        }
        let Some(sid) = env.lid[i].as_deref() else { continue };
        let names: Vec<&str> = frames
            .iter()
            .filter(|v| s(v, "stream_id") == sid && s(v, "type") == "tool_started")
            .map(|v| s(v, "name"))
            .collect();
        let mut want: Vec<&str> = Vec::new();
        if l.pre_ls {
            want.push("ls");
        }
        want.push(if l.alias { "shell" } else { "bash" });
        if l.post_write {
            want.push("write");
        }
        if names != want {
            rep.class("run_shape_unexpected");
            rep.inconclusive("run_shape_unexpected");
        }
    }

    // ---- (iv) order
    let latch_name = |i: usize| if case.latches[i].alias { "shell" } else { "bash" };
    let s_order: Vec<usize> = markers.iter().filter_map(|k| if let Mk::S(i) = k { Some(*i) } else { None }).collect();
    let pos_of_latch = |i: usize| -> Option<usize> {
        let sid = env.lid[i].as_deref()?;
        se_pos.get(&(sid.to_string(), latch_name(i).to_string())).copied()
    };
    let mut pairs = 0u64;
    for (ia, &a) in s_order.iter().enumerate() {
        for &b in s_order.iter().skip(ia + 1) {
            if a == b || !case.latches[a].kind.on_thread() || !case.latches[b].kind.on_thread() {
                continue;
            }
            if let (Some(pa), Some(pb)) = (pos_of_latch(a), pos_of_latch(b)) {
                pairs += 1;
                if pa > pb {
                    rep.fail(
                        format!("side_effects_order|{}|{}", case.latches[a].kind.tag(), case.latches[b].kind.tag()),
                        json!({"latch_log": markers_text(&markers), "first_mutation": a, "second_mutation": b,
                               "side_effects_line_first": pa, "side_effects_line_second": pb,
                               "parked": env.parked,
                               "expected": "order of continuity_tool_side_effects across runs == real order of the mutations (S markers)"}),
                    );
                }
            }
        }
    }
    for (j, m) in case.muts.iter().enumerate() {
        if !m.via_thread || !matches!(m.kind, MutKind::Write | MutKind::Patch) {
            continue;
        }
        let Some(sid) = env.muts[j].sid.as_deref() else { continue };
        let Some(pw) = se_pos.get(&(sid.to_string(), m.kind.tag().to_string())).copied() else { continue };
        for &a in &env.muts[j].after_s {
            if !case.latches[a].kind.on_thread() {
                continue;
            }
            if let Some(pa) = pos_of_latch(a) {
                pairs += 1;
                if pa > pw {
                    rep.fail(
                        format!("side_effects_order|{}|{}", case.latches[a].kind.tag(), m.kind.tag()),
                        json!({"latch_log": markers_text(&markers), "first_mutation": a, "later_mutator": j,
                               "side_effects_line_first": pa, "side_effects_line_later": pw, "parked": env.parked,
                               "expected": "a mutation requested after S<a> was seen happened after a's mutation, so its side-effects frame follows a's"}),
                    );
                }
            }
        }
    }
    // same run: latch before the write that follows it
    for i in 0..n {
        if case.latches[i].post_write {
            if let Some(sid) = env.lid[i].as_deref() {
                if let (Some(pa), Some(pw)) = (pos_of_latch(i), se_pos.get(&(sid.to_string(), "write".to_string()))) {
                    pairs += 1;
                    if pa > *pw {
                        rep.fail(
                            "side_effects_order|same_run".to_string(),
                            json!({"run": sid, "latch_line": pa, "write_line": pw}),
                        );
                    }
                }
            }
        }
    }
    rep.count("ordered_pairs_checked", pairs);
}

fn classes(case: &Case, env: &Env, rep: &mut CaseReport) {
    for l in &case.latches {
        rep.class(format!("actor:{}", l.kind.tag()));
        if l.alias {
            rep.class("actor:shell_alias");
        }
        if l.pre_ls || l.post_write {
            rep.class("actor:provider_run_multi_call");
        }
        if l.timeout_ms.is_some() {
            rep.class("actor:tool_envelope_timeout");
        }
    }
    for m in &case.muts {
        rep.class(format!("actor:{}{}", m.kind.tag(), if m.via_thread { ":thread" } else { ":plain" }));
        if m.fail {
            rep.class("actor:apply_patch_failing");
        }
    }
    for p in &env.probes {
        rep.class(format!("probe:{}{}", p.tool.tag(), if p.via_thread { ":thread" } else { ":plain" }));
    }
    rep.class(format!("contenders:{}", env.max_contenders.min(4)));
    rep.class(format!("probes_while_held:{}", env.probes_done_while_held.min(3)));
    rep.class(format!("latches:{}", env.n));
    if !env.parked.is_empty() {
        rep.class("parked_before_side_effects");
        for &x in &env.parked {
            rep.class(format!("parked:{}", case.latches[x].kind.tag()));
        }
    }
    let markers = read_markers(&env.lat);
    let s_order: Vec<usize> = markers.iter().filter_map(|k| if let Mk::S(i) = k { Some(*i) } else { None }).collect();
    let mut sorted = s_order.clone();
    sorted.sort_unstable();
    rep.class(if s_order == sorted { "release_order:issue_order" } else { "release_order:permuted" });
    rep.count("probes_completed_while_held", env.probes_done_while_held);
    rep.count("runs_parked_before_side_effects", env.parked.len() as u64);
    // contention by construction (a pure function of the case): a latch actor holds until the
    // harness releases it, so a second latch actor, or a mutator issued while a holder is held /
    // parked, is necessarily pending during a hold
    let contention = case.latches.len() >= 2 || case.muts.iter().any(|m| m.when != When::Start);
    rep.nontrivial = contention && env.abort.is_none();
}

include!("c11/queued.rs");

fn main() {
    let mut check = Check::new("C11", "exploration");
    install_hook();
    check.assume("mutating = bash/shell, write, apply_patch tool calls, checkpoint create/rewind envelopes and shell tasks; read-only = read, ls, grep, artifact_fetch (property statement; workspace-lock paragraphs of docs/03_contracts/modules/phase-1/01_ripd_core.md and 03_tool_runtime.md)");
    check.assume("a latch command is in progress from its S marker to its E marker in <lat>/log (O_APPEND writes of one short line by the command itself); the harness only chooses WHEN to write into the command's FIFO");
    check.assume("read-only non-blocking is judged with a bound: a probe that does not complete within 5 s + 2 confirmation probes (2.5 s each) while the latch is held, and completes once it is released, waited for the lock; a probe that never completes is inconclusive");
    check.assume("side-effects frame rules from docs/03_contracts/event_frames.md: after tool_ended/tool_failed, before continuity_run_ended, affected_paths null for bash, checkpoint_id = automatic checkpoint taken for the tool; affected_paths is only compared for tools that exited 0");
    check.assume("parking a run at session.before_side_effects (hook H6) for one settle window (150 ms) is a real execution: the run is merely slow between emitting its tool frames and logging the side effects");
    let rule = "case = 1-4 latch actors (thread tool-envelope run / scripted-provider run / plain session / pipes task; bash or shell alias; initial concurrent batch or issued while an earlier holder is held) + 0-3 non-latchable mutators (write, apply_patch, checkpoint create, checkpoint rewind; thread or plain; issued at start / while a holder is held / while a run is parked before its side-effects append) + 0-3 read-only probes (read, ls, grep, artifact_fetch; thread or plain) issued while a holder is held; 2-5 mutating actors in total. non-trivial = >=2 mutating actors contend while a latch is held: >=2 latch actors, or a mutator issued while a holder is held/parked (a latch actor holds until the harness releases it, so the competitor is necessarily pending during the hold); distinct by case hash";
    let n = check.cases(320, 4800);
    check.group("latch", rule, GroupOpts { cases: n, max_shrink_iters: 60, ..Default::default() }, case_strategy, run);
    let n = check.cases(160, 4_000);
    check.group(
        "queued_task_cancel",
        "a holder (a bash task, or the bash tool of a thread run) is in progress until the harness creates a release file; 1-3 tasks (bash / shell alias) are spawned behind it and queue; 75 % of them receive POST /tasks/{id}/cancel after 0-39 ms; the holder is released 60-199 ms later. Verdict from the markers every command appends to one file: nothing between A_start and A_end, no two queued tasks interleaved. non-trivial = at least one queued task was cancelled; distinct by case hash",
        GroupOpts { cases: n, max_shrink_iters: 20, watchdog_s: 600, ..Default::default() },
        q_case_strategy,
        run_queued,
    );
    check.finish();
}
