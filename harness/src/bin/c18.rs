//! C18 — a store never has two authorities; a live authority's lock is never taken.
//!
//! Domain: one store directory with a generated *leftover state* of `authority/lock.json` /
//! `authority/meta.json` (what a crashed or still-living previous authority left behind), 2..4
//! contenders (OS threads of this one process) each running the real server acquire loop
//! (`ripd::verif::acquire_authority_lock_with_recovery` → `write_meta` → hold → `Drop`), the client
//! attach/recover loop (re-created call by call from rip-cli/src/local_authority.rs, which lives in a
//! binary crate) or a plain `AuthorityLockGuard::try_acquire`, and a generated schedule over the
//! `auth.*` hook points plus harness-side yield points (`h.*`). Two groups share case shape and
//! oracle: `sched` (all leftover states; the invalid-lock ones cost 1..2.3 s each because of
//! the code's own grace period / deadline) and `races` (the classes that need no waiting, ~25 ms a
//! case, so 25x more schedules of the acquire / stale-cleanup / write_meta / drop steps).
//!
//! Hook points used: the twelve `auth.*` points of the guide plus two this check needed and added
//! in crates/ripd/src/server.rs (`#[cfg(rip_verif)]`, one line each): `auth.loop.after_read_lock`
//! (between the loop's read of the lock record and its liveness check / cleanup call — without it
//! the server loop cannot be descheduled between "read" and "act") and `auth.loop.before_sleep`
//! (announces the loop's 20 ms sleep so the driver knows the contender is not touching files).
//!
//! Execution model: *serialised*. Every file-system step of every contender happens between two
//! park points; the driver (the case's own thread) releases exactly one parked contender at a time
//! and waits until it is parked again, asleep (the loop's own 20 ms / back-off sleeps, announced by
//! `auth.loop.before_sleep`) or finished. So the history of guard lifetimes is a total order, the
//! authority directory is stable whenever the driver looks at it, and a schedule is reproduced by
//! its choice vector (the only timing dependence left: whether a *sleeping* contender has already
//! come back when the next choice is made — that changes which schedule is explored, never a
//! verdict). A choice either lets the contender that ran last go on (`sticky` % of the range: long
//! uninterrupted runs next to a parked contender are what these races need) or picks among the
//! releasable contenders (+ "wait for a sleeper"); while every parked contender is merely polling
//! (loop head → sleep → loop head) no choice is consumed.
//!
//! Real-time discipline (the code has a 1 s "invalid lock" grace and a 2 s deadline): no contender
//! is kept parked longer than `PARK_BUDGET_MS` (150 ms) while it is releasable — the longest-parked
//! one is then released regardless of the choice vector —, waits for sleepers are 25 ms at most and
//! only while nobody has been parked for 100 ms, and a case in which a contender nevertheless sat
//! more than 400 ms between creating the lock file and writing its record (machine stall) is
//! inconclusive, never a violation.
//!
//! Oracle (computed from the harness-side log of guard lifetimes and from the files as seen at
//! quiescent instants; nothing is derived from elapsed time):
//!  (a) `acquired(actor)` is logged when an acquire returns `Ok(guard)`, `released(actor)` right
//!      before the harness drops the guard; two guards alive at once ⇒ `two_authorities|…`.
//!  (b) a contender owns lock.json from the moment its `create_new` succeeded
//!      (`auth.acquire.after_create`) until `released`: the file exists while it sits between create
//!      and write, and holds its record (pid, started_at_ms) afterwards ⇒ otherwise
//!      `live_lock_taken|<operation of the step that did it>|<cause>`; once its `write_meta` returned
//!      Ok, `meta.json` holds its record ⇒ otherwise `live_meta_taken|…`
//!      (runtime_and_control_plane.md: "cleanup requires pid death", "cannot remove a newly-created
//!      lock").
//!  (c) leftover files that name a LIVE pid are byte-identical at every quiescent instant and at the
//!      end, and nobody acquires over them ⇒ `live_files_touched|…`, `acquired_over_live_lock|…`.
//!  (d) "becomes usable again": for the leftover classes whose recovery the docs promise (dead-pid
//!      lock with/without meta, invalid lock JSON without meta, nothing / meta only), once every
//!      contender has finished a fresh uncontended server start acquires ⇒ otherwise
//!      `no_recovery|…`; and when the contenders are servers / plain acquirers only (no client
//!      cleaner that may clean without starting anything) and the leftover lock is valid JSON of a
//!      dead pid, at least one of them acquired ⇒ otherwise `no_progress|…`.

use std::io::{Read, Write};
use std::path::{Path, PathBuf};
use std::sync::{Arc, Condvar, Mutex, OnceLock};
use std::time::{Duration, Instant};

use proptest::prelude::*;
use ripd::{AuthorityLockGuard, AuthorityLockRecord, AuthorityMeta, PidLiveness};
use rv::engine::runner::catch;
use rv::engine::scratch::Scratch;
use rv::engine::{pick, CaseReport, Check, GroupOpts};
use rv::sched::{set_thread_handler, Controller};
use serde::{Deserialize, Serialize};
use serde_json::{json, Value};

// ---------------------------------------------------------------------------------------------
// Confirmed defects on the unchanged tree, excluded *by construction* so the search continues.
// A pinned reproducer sets `no_exclusions` in its case and is therefore not affected.
// ---------------------------------------------------------------------------------------------

/// F17a: `try_cleanup_stale_authority_files` re-reads the lock, then renames `lock.json` by NAME.
/// A contender parked between the two (`auth.stale.after_reread`) renames away whatever is there
/// by then — also the valid lock of a contender that cleaned up and acquired in the meantime.
/// Exclusion: while some contender is between its re-read and its rename and lock.json is ABSENT
/// (somebody else has completed a cleanup), no OTHER contender is released from a point that leads
/// straight into `create_new` (`auth.loop.iter`, `h.try`). (With lock.json present such a release
/// is harmless — `create_new` fails — and wanted: that contender may enter the window as well.)
const EXCLUDE_KNOWN_F17A_STALE_REREAD_RENAME_WINDOW: bool = true;
/// F17d: same shape in `try_cleanup_corrupt_lock_file` (exists / no-meta checks, then rename by
/// name; window = `auth.corrupt.after_checks`). Same exclusion rule.
const EXCLUDE_KNOWN_F17D_CORRUPT_CHECKS_RENAME_WINDOW: bool = true;
/// F17e: the "invalid lock JSON for more than 1 s" timer of the acquire / attach loops belongs to
/// the observer, not to the lock file: it keeps running after the corrupt leftover has been cleaned
/// up, so an observer whose timer has expired removes the NEXT lock it sees empty — the one a live
/// contender has just created and not yet written (F17c window) — at once, without any grace.
/// Exclusion: once some contender may carry a running timer (the leftover lock is invalid JSON, or a
/// loop-head contender was released earlier while a creator sat between create and write), no
/// loop-head contender (`auth.loop.iter`, `h.c.iter`) is released while a creator is parked at
/// `auth.acquire.after_create`.
const EXCLUDE_KNOWN_F17E_STALE_GRACE_TIMER: bool = true;
// F17b (`Drop` removes whatever is at lock.json / meta.json) is only reachable after F17a/d/e
// has already replaced a live guard's lock, so the exclusions above cover it.

const PARK_BUDGET_MS: u64 = 150;
const WAIT_OK_MS: u64 = 100;
const WAIT_SLICE_MS: u64 = 25;
const STALL_LIMIT_AFTER_CREATE_MS: u64 = 400;
const MAX_STEPS: u64 = 1500;
const SCHEDULE_WALL_CAP: Duration = Duration::from_secs(9);
const DEAD_STARTED_AT_MS: u64 = 1_700_000_000_000;
const UNREACHABLE: &str = "http://127.0.0.1:9";

// ---------------------------------------------------------------------------------------------
// Case
// ---------------------------------------------------------------------------------------------

#[derive(Debug, Clone, Serialize, Deserialize, PartialEq)]
enum Leftover {
    /// fresh store
    None,
    /// valid lock of a dead pid, no meta (crash before write_meta, or after Drop removed meta)
    LockOnlyDead { newline: bool },
    /// valid lock + meta of a dead pid, endpoint unreachable
    LockMetaDead,
    /// same, but meta.started_at_ms differs from lock.started_at_ms (older RIP versions)
    LockMetaDeadDrift { drift_ms: u64 },
    /// created, not yet written: the creator died between `create_new` and `write_all`
    EmptyLock,
    /// 0..=4 record cut at a byte; 5 `{"pid":`; 6 `null`; 7 bytes that are not UTF-8
    GarbageLock { kind: u8, cut: u16 },
    /// a cleaner died between renaming the lock and handling the meta
    MetaOnlyDead,
    /// lock of a LIVE pid (init_pid: pid 1, else the harness pid); meta: 0 none ("starting"),
    /// 1 unreachable endpoint, 2 endpoint that answers
    LiveLock { init_pid: bool, meta: u8 },
    /// valid lock of a dead pid whose workspace_root is another directory
    WsMismatchDead { with_meta: bool },
    /// invalid lock JSON next to the meta of a LIVE pid
    GarbageLockLiveMeta { cut: u16 },
}

impl Leftover {
    fn tag(&self) -> &'static str {
        match self {
            Leftover::None => "none",
            Leftover::LockOnlyDead { .. } => "lock_only_dead",
            Leftover::LockMetaDead => "lock_meta_dead",
            Leftover::LockMetaDeadDrift { .. } => "lock_meta_dead_started_at_drift",
            Leftover::EmptyLock => "empty_lock",
            Leftover::GarbageLock { kind: 7, .. } => "garbage_lock_not_utf8",
            Leftover::GarbageLock { .. } => "garbage_lock",
            Leftover::MetaOnlyDead => "meta_only_dead",
            Leftover::LiveLock { .. } => "live_pid_lock",
            Leftover::WsMismatchDead { .. } => "ws_mismatch_dead",
            Leftover::GarbageLockLiveMeta { .. } => "garbage_lock_live_meta",
        }
    }
    /// the nine leftover states of the evidence histogram (`tag` distinguishes their variants)
    fn class(&self) -> &'static str {
        match self {
            Leftover::GarbageLock { .. } => "garbage_lock",
            Leftover::LiveLock { .. } | Leftover::GarbageLockLiveMeta { .. } => "files_of_a_live_pid",
            other => other.tag(),
        }
    }
    /// the docs promise that a fresh start succeeds from here
    fn recovery_documented(&self) -> bool {
        matches!(
            self,
            Leftover::None
                | Leftover::LockOnlyDead { .. }
                | Leftover::LockMetaDead
                | Leftover::LockMetaDeadDrift { .. }
                | Leftover::EmptyLock
                | Leftover::MetaOnlyDead
        ) || matches!(self, Leftover::GarbageLock { kind, .. } if *kind != 7)
    }
    fn dead_pid_valid_lock(&self) -> bool {
        matches!(
            self,
            Leftover::LockOnlyDead { .. } | Leftover::LockMetaDead | Leftover::LockMetaDeadDrift { .. }
        )
    }
    /// files that belong to a live pid: nobody may touch them, nobody may acquire
    fn live_owner(&self) -> bool {
        matches!(self, Leftover::LiveLock { .. } | Leftover::GarbageLockLiveMeta { .. })
    }
}

#[derive(Debug, Clone, Serialize, Deserialize, PartialEq)]
enum Kind {
    /// the real server loop, then (as `serve()` does after binding) write_meta, hold, drop
    Server { write_meta: bool, hold: u8 },
    /// the client attach/recover loop of rip-cli; `spawn`: on "no lock" it starts an authority
    /// (modelled inline: the same thread then runs the server sequence), else it stops there
    Client { spawn: bool, max_iters: u8, hold: u8 },
    /// plain try_acquire (up to `attempts` times), optional write_meta, hold, drop
    Plain { attempts: u8, write_meta: bool, hold: u8 },
}

impl Kind {
    fn letter(&self) -> &'static str {
        match self {
            Kind::Server { .. } => "S",
            Kind::Client { .. } => "C",
            Kind::Plain { .. } => "P",
        }
    }
}

#[derive(Debug, Clone, Serialize, Deserialize)]
struct Case {
    leftover: Leftover,
    contenders: Vec<Kind>,
    /// endpoint advertised by the contenders' own write_meta: answers pings or not
    endpoint_reachable: bool,
    /// one element per real scheduling decision (monotone index into the releasable contenders,
    /// last index = "wait for a sleeper" when there is one)
    choices: Vec<u16>,
    /// percentage of the choice range that means "the contender that ran last goes on"
    #[serde(default)]
    sticky: u8,
    /// explicit prefix (hand-written replay files; see `ScriptOp`), consumed before `choices`
    #[serde(default)]
    script: Vec<String>,
    /// pinned reproducers of known findings run without the EXCLUDE_KNOWN_* rules
    #[serde(default)]
    no_exclusions: bool,
}

fn leftover_strategy() -> BoxedStrategy<Leftover> {
    prop_oneof![
        10 => Just(Leftover::None),
        10 => any::<bool>().prop_map(|newline| Leftover::LockOnlyDead { newline }),
        10 => Just(Leftover::LockMetaDead),
        10 => (1u64..5000).prop_map(|drift_ms| Leftover::LockMetaDeadDrift { drift_ms }),
        10 => Just(Leftover::EmptyLock),
        10 => (0u8..8, any::<u16>()).prop_map(|(kind, cut)| Leftover::GarbageLock { kind, cut }),
        10 => Just(Leftover::MetaOnlyDead),
        // "files of a live pid": a valid lock (6) or an invalid one next to a live pid's meta (4)
        6 => (any::<bool>(), 0u8..3).prop_map(|(init_pid, meta)| Leftover::LiveLock { init_pid, meta }),
        4 => any::<u16>().prop_map(|cut| Leftover::GarbageLockLiveMeta { cut }),
        10 => any::<bool>().prop_map(|with_meta| Leftover::WsMismatchDead { with_meta }),
    ]
    .boxed()
}

fn kind_strategy() -> BoxedStrategy<Kind> {
    prop_oneof![
        5 => (prop::bool::weighted(0.75), 0u8..4).prop_map(|(write_meta, hold)| Kind::Server { write_meta, hold }),
        3 => (prop::bool::weighted(0.66), 1u8..=10, 0u8..3).prop_map(|(spawn, max_iters, hold)| Kind::Client { spawn, max_iters, hold }),
        2 => (1u8..=3, any::<bool>(), 0u8..4).prop_map(|(attempts, write_meta, hold)| Kind::Plain { attempts, write_meta, hold }),
    ]
    .boxed()
}

/// the leftover classes that need no waiting (no 1 s grace, no 2 s deadline)
fn fast_leftover_strategy() -> BoxedStrategy<Leftover> {
    prop_oneof![
        2 => Just(Leftover::None),
        3 => any::<bool>().prop_map(|newline| Leftover::LockOnlyDead { newline }),
        3 => Just(Leftover::LockMetaDead),
        2 => (1u64..5000).prop_map(|drift_ms| Leftover::LockMetaDeadDrift { drift_ms }),
        2 => Just(Leftover::MetaOnlyDead),
        2 => (any::<bool>(), 0u8..3).prop_map(|(init_pid, meta)| Leftover::LiveLock { init_pid, meta }),
    ]
    .boxed()
}

fn fast_kind_strategy() -> BoxedStrategy<Kind> {
    prop_oneof![
        5 => (prop::bool::weighted(0.75), 0u8..4).prop_map(|(write_meta, hold)| Kind::Server { write_meta, hold }),
        3 => (prop::bool::weighted(0.66), 1u8..=3, 0u8..3).prop_map(|(spawn, max_iters, hold)| Kind::Client { spawn, max_iters, hold }),
        2 => (1u8..=3, any::<bool>(), 0u8..4).prop_map(|(attempts, write_meta, hold)| Kind::Plain { attempts, write_meta, hold }),
    ]
    .boxed()
}

fn races_case_strategy() -> BoxedStrategy<Case> {
    (
        fast_leftover_strategy(),
        proptest::collection::vec(fast_kind_strategy(), 2..=4),
        any::<bool>(),
        proptest::collection::vec(any::<u16>(), 0..64),
        prop_oneof![Just(0u8), Just(40u8), Just(70u8), Just(85u8), Just(95u8)],
    )
        .prop_map(|(leftover, contenders, endpoint_reachable, choices, sticky)| Case {
            leftover,
            contenders,
            endpoint_reachable,
            choices,
            sticky,
            script: Vec::new(),
            no_exclusions: std::env::var_os("C18_NO_EXCLUSIONS").is_some(),
        })
        .boxed()
}

fn case_strategy() -> BoxedStrategy<Case> {
    (
        leftover_strategy(),
        proptest::collection::vec(kind_strategy(), 2..=4),
        any::<bool>(),
        proptest::collection::vec(any::<u16>(), 0..64),
        prop_oneof![Just(0u8), Just(40u8), Just(70u8), Just(85u8)],
    )
        .prop_map(|(leftover, contenders, endpoint_reachable, choices, sticky)| Case {
            leftover,
            contenders,
            endpoint_reachable,
            choices,
            sticky,
            script: Vec::new(),
            // development aid: C18_NO_EXCLUSIONS=1 searches without the EXCLUDE_KNOWN_* rules
            no_exclusions: std::env::var_os("C18_NO_EXCLUSIONS").is_some(),
        })
        .boxed()
}

// ---------------------------------------------------------------------------------------------
// Environment helpers: a dead pid, a live pid, an endpoint that answers
// ---------------------------------------------------------------------------------------------

/// pid of a child that has exited and has been reaped. Linux hands pids out cyclically
/// (pid_max ≥ 32768), so the number is not reused within the seconds a case lasts; the caller
/// checks `pid_liveness == Dead` before and after the case and discards the case otherwise.
fn dead_pid() -> Option<u32> {
    for _ in 0..4 {
        let child = std::process::Command::new("true")
            .stdin(std::process::Stdio::null())
            .stdout(std::process::Stdio::null())
            .stderr(std::process::Stdio::null())
            .spawn();
        if let Ok(mut child) = child {
            let pid = child.id();
            let _ = child.wait();
            if pid != std::process::id() && matches!(ripd::pid_liveness(pid), PidLiveness::Dead) {
                return Some(pid);
            }
        }
    }
    None
}

/// A tiny HTTP responder (any request → 200 `{}`), one per process, shared by all cases.
fn responder_endpoint() -> &'static str {
    static EP: OnceLock<String> = OnceLock::new();
    EP.get_or_init(|| {
        let listener = std::net::TcpListener::bind("127.0.0.1:0").expect("responder bind");
        let port = listener.local_addr().expect("responder addr").port();
        let _ = std::thread::Builder::new().name("c18-responder".into()).spawn(move || {
            for stream in listener.incoming() {
                let Ok(mut s) = stream else { continue };
                let _ = std::thread::Builder::new().name("c18-resp-conn".into()).spawn(move || {
                    let _ = s.set_read_timeout(Some(Duration::from_millis(500)));
                    let mut buf = [0u8; 2048];
                    let mut seen: Vec<u8> = Vec::new();
                    while !seen.windows(4).any(|w| w == b"\r\n\r\n") && seen.len() < 16_384 {
                        match s.read(&mut buf) {
                            Ok(0) | Err(_) => break,
                            Ok(n) => seen.extend_from_slice(&buf[..n]),
                        }
                    }
                    let _ = s.write_all(
                        b"HTTP/1.1 200 OK\r\ncontent-type: application/json\r\ncontent-length: 2\r\nconnection: close\r\n\r\n{}",
                    );
                    let _ = s.flush();
                });
            }
        });
        format!("http://127.0.0.1:{port}")
    })
}

// ---------------------------------------------------------------------------------------------
// Shared per-case state: contender phases (for the driver) and the guard-lifetime log (oracle)
// ---------------------------------------------------------------------------------------------

#[derive(Debug, Clone, Copy, PartialEq)]
enum Phase {
    /// executing code (between two park points)
    Active,
    /// parked at `point`
    Parked,
    /// inside one of the loops' own sleeps; will park at the loop head when it wakes
    Sleeping,
    Finished,
}

struct ActorSt {
    phase: Phase,
    point: String,
    prev_point: String,
    parked_since: Option<Instant>,
    /// Some("stale"|"corrupt") from the arrival at the check→rename window point until the next
    /// arrival / return of the cleanup call
    window: Option<&'static str>,
    /// the corrupt-cleanup window was entered while another contender owned the lock file
    /// (had created it): the observer's grace timer cannot refer to that file (F17e)
    window_on_live_owner: bool,
    /// the guard this contender dropped last had already lost its lock.json to somebody else
    /// (only then can the unconditional removals in `Drop` hit another owner's files: F17b)
    released_after_lock_lost: bool,
    max_park_ms: u64,
    max_park_after_create_ms: u64,
}

/// A contender that owns lock.json: from `create_new` succeeding (`auth.acquire.after_create`)
/// until `released` is logged.
#[derive(Debug, Clone)]
struct GuardSt {
    /// None while between create and write; provisional (read from the file while the owner is
    /// parked at `auth.acquire.after_write`) until the acquire returns; then `guard.record()`
    record: Option<(u32, u64)>,
    /// the acquire returned Ok(guard): counts for invariant (a)
    returned: bool,
    meta_written: bool,
    lock_lost: bool,
    meta_lost: bool,
}

struct St {
    actors: Vec<ActorSt>,
    alive: Vec<Option<GuardSt>>,
    history: Vec<String>,
    fails: Vec<(String, Value)>,
    outcomes: Vec<Vec<String>>,
    acquired_order: Vec<usize>,
    /// (operation, cause) of the most recent step that took a live owner's lock
    last_taken: Option<(&'static str, String)>,
    two_auth_seen: bool,
    trace: Vec<String>,
}

struct Shared {
    ctrl: Arc<Controller>,
    st: Mutex<St>,
    cv: Condvar,
    data: PathBuf,
    ws: PathBuf,
    endpoint: String,
}

/// the next thing the contender does is `create_new(lock.json)`
fn is_pre_acquire(point: &str) -> bool {
    point == "auth.loop.iter" || point == "h.try"
}

/// the next thing the contender does is look at lock.json / meta.json afresh
fn is_loop_head(point: &str) -> bool {
    point == "auth.loop.iter" || point == "h.c.iter"
}

impl Shared {
    fn lock(&self) -> std::sync::MutexGuard<'_, St> {
        self.st.lock().unwrap_or_else(|e| e.into_inner())
    }

    /// Every hook point of the code under test (via the thread-local handler) and every harness
    /// yield point of contender `i` comes through here.
    fn arrive(&self, i: usize, point: &str) {
        if point == "auth.loop.before_sleep" {
            let mut g = self.lock();
            g.actors[i].phase = Phase::Sleeping;
            g.actors[i].window = None;
            self.cv.notify_all();
            return;
        }
        {
            let mut g = self.lock();
            if point == "auth.acquire.after_create" {
                // create_new succeeded: this contender owns lock.json from here on
                g.alive[i] = Some(GuardSt {
                    record: None,
                    returned: false,
                    meta_written: false,
                    lock_lost: false,
                    meta_lost: false,
                });
                g.history.push(format!("{i}:created_lock"));
            }
            // another contender owns lock.json right now (created it, has not lost it, has not
            // released it)
            let someone_else_owns =
                g.alive.iter().enumerate().any(|(k, a)| k != i && matches!(a, Some(a) if !a.lock_lost));
            let a = &mut g.actors[i];
            a.window = match point {
                "auth.stale.after_reread" => Some("stale"),
                "auth.corrupt.after_checks" => Some("corrupt"),
                _ => None,
            };
            if point == "auth.corrupt.after_checks" || point == "auth.stale.after_reread" {
                // sticky until this contender's next cleanup (it is read after its rename)
                a.window_on_live_owner = someone_else_owns;
            }
            a.prev_point = std::mem::replace(&mut a.point, point.to_string());
            a.phase = Phase::Parked;
            a.parked_since = Some(Instant::now());
            self.cv.notify_all();
        }
        self.ctrl.arrive(i, point);
        {
            let mut g = self.lock();
            let a = &mut g.actors[i];
            if let Some(t) = a.parked_since.take() {
                let ms = t.elapsed().as_millis() as u64;
                // parks at a loop head / harness yield point only make the contender poll later;
                // the ones that matter sit inside an operation of the code under test
                if point.starts_with("auth.") && point != "auth.loop.iter" {
                    a.max_park_ms = a.max_park_ms.max(ms);
                }
                if point == "auth.acquire.after_create" {
                    a.max_park_after_create_ms = a.max_park_after_create_ms.max(ms);
                }
            }
            a.phase = Phase::Active;
            self.cv.notify_all();
        }
    }

    /// a cleanup / acquire call of the code under test returned (closes a check→rename window)
    fn op_returned(&self, i: usize) {
        let mut g = self.lock();
        g.actors[i].window = None;
    }

    /// an acquire returned Err: if it had created the lock file (write failure) it owns nothing
    fn acquire_failed(&self, i: usize) {
        let mut g = self.lock();
        if matches!(&g.alive[i], Some(a) if !a.returned) {
            g.alive[i] = None;
        }
    }

    fn sleeping(&self, i: usize) {
        let mut g = self.lock();
        g.actors[i].phase = Phase::Sleeping;
        g.actors[i].window = None;
        self.cv.notify_all();
    }

    fn finish(&self, i: usize) {
        {
            let mut g = self.lock();
            g.actors[i].phase = Phase::Finished;
            g.actors[i].window = None;
            self.cv.notify_all();
        }
        self.ctrl.finish(i);
    }

    fn outcome(&self, i: usize, what: impl Into<String>) {
        let what = what.into();
        let mut g = self.lock();
        g.history.push(format!("{i}:{what}"));
        g.outcomes[i].push(what);
    }

    /// (a): logged when an acquire returned Ok(guard)
    fn acquired(&self, i: usize, rec: &AuthorityLockRecord) {
        let mut g = self.lock();
        let others: Vec<usize> = g
            .alive
            .iter()
            .enumerate()
            .filter(|(k, a)| *k != i && matches!(a, Some(a) if a.returned))
            .map(|(k, _)| k)
            .collect();
        g.history.push(format!("{i}:acquired(started_at_ms={})", rec.started_at_ms));
        g.acquired_order.push(i);
        let lock_lost = g.alive[i].as_ref().map(|a| a.lock_lost).unwrap_or(false);
        g.alive[i] = Some(GuardSt {
            record: Some((rec.pid, rec.started_at_ms)),
            returned: true,
            meta_written: false,
            lock_lost,
            meta_lost: false,
        });
        if !others.is_empty() {
            let sig = match &g.last_taken {
                Some(("stale_cleanup", c)) if c == "reread_accepts_lock_of_live_owner" => {
                    "two_authorities|stale_cleanup|reread_accepts_lock_of_live_owner".to_string()
                }
                Some(("stale_cleanup", _)) => {
                    "two_authorities|stale_cleanup|reread_then_rename_races_reacquire".to_string()
                }
                Some(("corrupt_cleanup", c)) if c == "grace_timer_not_reset_takes_fresh_lock" => {
                    "two_authorities|corrupt_cleanup|grace_timer_not_reset_takes_fresh_lock".to_string()
                }
                Some(("corrupt_cleanup", _)) => {
                    "two_authorities|corrupt_cleanup|checks_then_rename_races_reacquire".to_string()
                }
                Some(("drop", _)) => "two_authorities|drop|unconditional_remove_of_replaced_lock".to_string(),
                Some((op, _)) => format!("two_authorities|{op}|live_lock_removed"),
                None => "two_authorities|acquire|lock_held_by_live_guard".to_string(),
            };
            let detail = json!({
                "second_acquirer": i,
                "guards_already_alive": others,
                "history": g.history.clone(),
                "schedule_trace": g.trace.clone(),
            });
            g.two_auth_seen = true;
            g.fails.push((sig, detail));
        }
    }

    fn meta_written(&self, i: usize) {
        let mut g = self.lock();
        g.history.push(format!("{i}:meta_written"));
        if let Some(a) = g.alive[i].as_mut() {
            a.meta_written = true;
        }
    }

    /// (a): logged right BEFORE the guard is dropped
    fn released(&self, i: usize) {
        let mut g = self.lock();
        if let Some(a) = g.alive[i].take() {
            g.history.push(format!("{i}:released"));
            g.actors[i].released_after_lock_lost = a.lock_lost;
        }
    }
}

/// A held guard: `released` is logged before the guard's own Drop runs, also on unwinding.
struct Held {
    sh: Arc<Shared>,
    i: usize,
    guard: Option<AuthorityLockGuard>,
}

impl Drop for Held {
    fn drop(&mut self) {
        self.sh.released(self.i);
        self.guard.take(); // AuthorityLockGuard::drop: auth.drop.before / after_meta / after_lock
    }
}

// ---------------------------------------------------------------------------------------------
// Contenders
// ---------------------------------------------------------------------------------------------

fn hold_and_release(sh: &Arc<Shared>, i: usize, guard: AuthorityLockGuard, write_meta: bool, hold: u8) {
    sh.acquired(i, guard.record());
    let held = Held { sh: sh.clone(), i, guard: Some(guard) };
    sh.arrive(i, "h.acquired");
    if write_meta {
        // serve(): lock.write_meta(endpoint) after binding (server.rs:224)
        let r = held.guard.as_ref().map(|g| g.write_meta(sh.endpoint.clone()));
        if matches!(r, Some(Ok(()))) {
            sh.meta_written(i);
        } else {
            sh.outcome(i, "write_meta_failed");
        }
        sh.arrive(i, "h.meta_written");
    }
    for _ in 0..hold {
        sh.arrive(i, "h.hold");
    }
    drop(held);
}

/// server.rs `serve()`: acquire_authority_lock_with_recovery → (bind) → write_meta → … → drop
fn run_server(sh: &Arc<Shared>, i: usize, write_meta: bool, hold: u8) {
    let rt = match tokio::runtime::Builder::new_current_thread().enable_all().build() {
        Ok(rt) => rt,
        Err(_) => {
            sh.outcome(i, "harness:no_runtime");
            return;
        }
    };
    let data = sh.data.clone();
    let ws = sh.ws.clone();
    let res = catch(|| rt.block_on(ripd::verif::acquire_authority_lock_with_recovery(&data, &ws)));
    sh.op_returned(i);
    match res {
        Ok(Ok(guard)) => {
            sh.outcome(i, "server:acquired");
            hold_and_release(sh, i, guard, write_meta, hold);
        }
        Ok(Err(e)) => {
            sh.acquire_failed(i);
            let why = if e.contains("workspace mismatch") {
                "workspace_mismatch"
            } else if e.contains("endpoint=") {
                "authority_reachable"
            } else if e.contains("read_err=") {
                "deadline_invalid_lock"
            } else {
                "lock_exists"
            };
            sh.outcome(i, format!("server:err:{why}"));
        }
        Err(p) => {
            sh.acquire_failed(i);
            sh.outcome(i, format!("server:panic:{p}"));
        }
    }
}

fn run_plain(sh: &Arc<Shared>, i: usize, attempts: u8, write_meta: bool, hold: u8) {
    for _ in 0..attempts.max(1) {
        sh.arrive(i, "h.try");
        let res = catch(|| AuthorityLockGuard::try_acquire(&sh.data, &sh.ws));
        sh.op_returned(i);
        match res {
            Ok(Ok(guard)) => {
                sh.outcome(i, "plain:acquired");
                hold_and_release(sh, i, guard, write_meta, hold);
                return;
            }
            Ok(Err(_)) => {
                sh.acquire_failed(i);
                sh.outcome(i, "plain:err");
            }
            Err(p) => {
                sh.acquire_failed(i);
                sh.outcome(i, format!("plain:panic:{p}"));
            }
        }
    }
}

fn std_ping(endpoint: &str) -> bool {
    use std::net::ToSocketAddrs;
    let budget = Duration::from_millis(250);
    let Some(hostport) = endpoint.strip_prefix("http://") else { return false };
    let Some(addr) = hostport.to_socket_addrs().ok().and_then(|mut a| a.next()) else { return false };
    let Ok(mut s) = std::net::TcpStream::connect_timeout(&addr, budget) else { return false };
    let _ = s.set_read_timeout(Some(budget));
    let _ = s.set_write_timeout(Some(budget));
    let req = format!("GET /openapi.json HTTP/1.1\r\nhost: {hostport}\r\naccept: */*\r\nconnection: close\r\n\r\n");
    if s.write_all(req.as_bytes()).is_err() {
        return false;
    }
    let mut head = [0u8; 16];
    let mut got = 0;
    while got < 12 {
        match s.read(&mut head[got..]) {
            Ok(0) | Err(_) => break,
            Ok(n) => got += n,
        }
    }
    // "HTTP/1.1 200"
    got >= 12 && head.starts_with(b"HTTP/1.") && head[9] == b'2'
}

/// rip-cli/src/local_authority.rs:7-12
fn update_last_state(last_state: &mut Option<String>, backoff_ms: &mut u64, next: String) {
    if last_state.as_deref() != Some(next.as_str()) {
        *last_state = Some(next);
        *backoff_ms = 20;
    }
}

/// The client attach/recover loop, `ensure_local_authority_with_paths`
/// (rip-cli/src/local_authority.rs:34-199), re-created with ripd's public functions only; line
/// numbers refer to that file. Differences, all harness-side: (1) yield points `h.c.iter` /
/// `h.c.after_read` where the thread may be descheduled; (2) the loop stops after `max_iters`
/// iterations instead of its 8 s deadline; (3) `spawn_local_authority` (a child `rip serve`) is
/// modelled by running the server sequence on this thread (or by stopping, `spawn == false`).
fn run_client(sh: &Arc<Shared>, i: usize, spawn: bool, max_iters: u8, hold: u8) {
    let data_dir = sh.data.clone();
    let workspace_root = sh.ws.clone();
    let _ = std::fs::create_dir_all(&data_dir); // :38
    // :40-42 and :201-207 — a reqwest client with a 250 ms timeout, `GET {endpoint}/openapi.json`,
    // success = 2xx. Building a reqwest client costs ~70 ms of CPU (CA store); the same request is
    // made here over a plain TcpStream with the same 250 ms budget.
    let ping = |endpoint: &str| -> bool { std_ping(endpoint) };
    let mut lock_invalid_since: Option<Instant> = None; // :45
    let mut backoff_ms: u64 = 20; // :46
    let mut last_state: Option<String> = None; // :47
    let deadline = Instant::now() + Duration::from_secs(8); // :49
    let mut iters = 0u32;
    loop {
        if iters >= max_iters as u32 {
            sh.outcome(i, "client:gave_up");
            return;
        }
        iters += 1;
        sh.arrive(i, "h.c.iter");
        let workspace_root_str = workspace_root.to_string_lossy().to_string(); // :51
        let meta = match ripd::read_authority_meta(&data_dir) {
            // :52
            Ok(m) => m,
            Err(_) => {
                sh.outcome(i, "client:bail:meta_invalid");
                return;
            }
        };
        if let Some(meta) = meta {
            lock_invalid_since = None; // :54
            if meta.workspace_root != workspace_root_str {
                // :55-61
                sh.outcome(i, "client:bail:workspace_mismatch");
                return;
            }
            sh.arrive(i, "h.c.after_read");
            if ping(&meta.endpoint) {
                // :62-64
                sh.outcome(i, "client:attached");
                return;
            }
            let pid_liveness = ripd::pid_liveness(meta.pid); // :66
            update_last_state(
                &mut last_state,
                &mut backoff_ms,
                format!(
                    "authority unavailable: endpoint={} pid={} pid_liveness={pid_liveness:?}",
                    meta.endpoint, meta.pid
                ),
            ); // :67-74
            if matches!(pid_liveness, PidLiveness::Dead) {
                // :76-87
                let cleaned = catch(|| {
                    ripd::try_cleanup_stale_authority_files(&data_dir, meta.pid, meta.started_at_ms)
                });
                sh.op_returned(i);
                match cleaned {
                    Ok(Ok(true)) => {
                        sh.outcome(i, "client:cleaned_stale_via_meta");
                        backoff_ms = 20;
                        continue;
                    }
                    Ok(Ok(false)) => {}
                    Ok(Err(_)) => {
                        sh.outcome(i, "client:bail:cleanup_error");
                        return;
                    }
                    Err(p) => {
                        sh.outcome(i, format!("client:panic:{p}"));
                        return;
                    }
                }
            }
        } else {
            let lock_path = ripd::authority_lock_path(&data_dir); // :89
            if lock_path.exists() {
                // :90
                match ripd::read_authority_lock_record(&data_dir) {
                    // :91
                    Ok(Some(lock)) => {
                        if lock.workspace_root != workspace_root_str {
                            // :93-99
                            sh.outcome(i, "client:bail:workspace_mismatch");
                            return;
                        }
                        sh.arrive(i, "h.c.after_read");
                        let pid_liveness = ripd::pid_liveness(lock.pid); // :101
                        update_last_state(
                            &mut last_state,
                            &mut backoff_ms,
                            format!(
                                "authority starting (meta.json missing): pid={} pid_liveness={pid_liveness:?}",
                                lock.pid
                            ),
                        ); // :102-109
                        lock_invalid_since = None; // :111
                        if matches!(pid_liveness, PidLiveness::Dead) {
                            // :112-123
                            let cleaned = catch(|| {
                                ripd::try_cleanup_stale_authority_files(&data_dir, lock.pid, lock.started_at_ms)
                            });
                            sh.op_returned(i);
                            match cleaned {
                                Ok(Ok(true)) => {
                                    sh.outcome(i, "client:cleaned_stale_via_lock");
                                    backoff_ms = 20;
                                    continue;
                                }
                                Ok(Ok(false)) => {}
                                Ok(Err(_)) => {
                                    sh.outcome(i, "client:bail:cleanup_error");
                                    return;
                                }
                                Err(p) => {
                                    sh.outcome(i, format!("client:panic:{p}"));
                                    return;
                                }
                            }
                        }
                    }
                    Ok(None) => {
                        // :125-134
                        update_last_state(
                            &mut last_state,
                            &mut backoff_ms,
                            format!("authority lock exists but cannot be read: {}", lock_path.display()),
                        );
                    }
                    Err(err) => {
                        lock_invalid_since.get_or_insert(Instant::now()); // :136
                        update_last_state(
                            &mut last_state,
                            &mut backoff_ms,
                            format!(
                                "authority lock exists but is invalid json (waiting): {} ({err})",
                                lock_path.display()
                            ),
                        ); // :137-144
                        if err.contains("lock json invalid")
                            && lock_invalid_since
                                .map(|since| since.elapsed() > Duration::from_secs(1))
                                .unwrap_or(false)
                        {
                            // :146-158
                            let cleaned = catch(|| ripd::try_cleanup_corrupt_lock_file(&data_dir));
                            sh.op_returned(i);
                            match cleaned {
                                Ok(Ok(true)) => {
                                    sh.outcome(i, "client:cleaned_corrupt");
                                    lock_invalid_since = None;
                                    backoff_ms = 20;
                                    continue;
                                }
                                Ok(Ok(false)) => {}
                                Ok(Err(_)) => {
                                    sh.outcome(i, "client:bail:cleanup_error");
                                    return;
                                }
                                Err(p) => {
                                    sh.outcome(i, format!("client:panic:{p}"));
                                    return;
                                }
                            }
                        }
                    }
                }
            } else {
                // :161-178 — "spawning local authority": the first pass always spawns (no
                // previous spawn ⇒ the 500 ms cool-down does not apply)
                if spawn {
                    sh.outcome(i, "client:spawned_authority");
                    run_server(sh, i, true, hold);
                } else {
                    sh.outcome(i, "client:would_spawn");
                }
                return;
            }
        }
        if Instant::now() >= deadline {
            // :182-194
            sh.outcome(i, "client:timed_out");
            return;
        }
        // :196-197
        sh.sleeping(i);
        std::thread::sleep(Duration::from_millis(backoff_ms));
        backoff_ms = backoff_ms.saturating_mul(2).min(200);
    }
}

fn run_actor(sh: &Arc<Shared>, i: usize, kind: &Kind) {
    // no park before the first real point (`auth.loop.iter` / `h.c.iter` / `h.try`): all contenders
    // do their set-up (runtime, HTTP client: ~70 ms each) concurrently; nothing touches the
    // authority directory before those points
    match kind {
        Kind::Server { write_meta, hold } => run_server(sh, i, *write_meta, *hold),
        Kind::Client { spawn, max_iters, hold } => run_client(sh, i, *spawn, *max_iters, *hold),
        Kind::Plain { attempts, write_meta, hold } => run_plain(sh, i, *attempts, *write_meta, *hold),
    }
}

// ---------------------------------------------------------------------------------------------
// Leftover state
// ---------------------------------------------------------------------------------------------

struct Setup {
    dead: u32,
    /// (lock bytes, meta bytes) that belong to a live pid and must stay untouched
    live_files: Option<(Vec<u8>, Option<Vec<u8>>)>,
}

fn write_leftover(case: &Case, data: &Path, ws: &Path, dead: u32) -> Setup {
    let dir = ripd::authority_dir(data);
    let _ = std::fs::create_dir_all(&dir);
    let lock_path = ripd::authority_lock_path(data);
    let meta_path = ripd::authority_meta_path(data);
    let ws_str = ws.to_string_lossy().to_string();
    let rec = |pid: u32, root: &str| -> Vec<u8> {
        serde_json::to_vec(&AuthorityLockRecord {
            pid,
            started_at_ms: DEAD_STARTED_AT_MS,
            workspace_root: root.to_string(),
        })
        .unwrap_or_default()
    };
    let meta = |pid: u32, started: u64, endpoint: &str, root: &str| -> Vec<u8> {
        serde_json::to_vec(&AuthorityMeta {
            endpoint: endpoint.to_string(),
            pid,
            started_at_ms: started,
            workspace_root: root.to_string(),
        })
        .unwrap_or_default()
    };
    let with_nl = |mut v: Vec<u8>| {
        v.push(b'\n');
        v
    };
    let cut_prefix = |full: &[u8], cut: u16| -> Vec<u8> {
        // 1..=len-2 bytes: at least the closing brace is missing ⇒ never valid JSON
        let n = 1 + pick(cut, full.len().saturating_sub(2).max(1));
        full[..n.min(full.len().saturating_sub(1))].to_vec()
    };
    let mut live_files = None;
    match &case.leftover {
        Leftover::None => {}
        Leftover::LockOnlyDead { newline } => {
            let r = rec(dead, &ws_str);
            let _ = std::fs::write(&lock_path, if *newline { with_nl(r) } else { r });
        }
        Leftover::LockMetaDead => {
            let _ = std::fs::write(&lock_path, with_nl(rec(dead, &ws_str)));
            let _ = std::fs::write(&meta_path, meta(dead, DEAD_STARTED_AT_MS, UNREACHABLE, &ws_str));
        }
        Leftover::LockMetaDeadDrift { drift_ms } => {
            let _ = std::fs::write(&lock_path, with_nl(rec(dead, &ws_str)));
            let _ = std::fs::write(&meta_path, meta(dead, DEAD_STARTED_AT_MS + drift_ms, UNREACHABLE, &ws_str));
        }
        Leftover::EmptyLock => {
            let _ = std::fs::write(&lock_path, b"");
        }
        Leftover::GarbageLock { kind, cut } => {
            let full = rec(dead, &ws_str);
            let bytes: Vec<u8> = match kind {
                0..=4 => cut_prefix(&full, *cut),
                5 => b"{\"pid\":".to_vec(),
                6 => b"null\n".to_vec(),
                _ => {
                    // a record cut inside a multi-byte character of the workspace path
                    let mut v = b"{\"pid\":1,\"started_at_ms\":2,\"workspace_root\":\"/home/z".to_vec();
                    v.extend_from_slice(&[0xC3]);
                    v
                }
            };
            let _ = std::fs::write(&lock_path, bytes);
        }
        Leftover::MetaOnlyDead => {
            let _ = std::fs::write(&meta_path, meta(dead, DEAD_STARTED_AT_MS, UNREACHABLE, &ws_str));
        }
        Leftover::LiveLock { init_pid, meta: m } => {
            let pid = if *init_pid { 1 } else { std::process::id() };
            let l = with_nl(rec(pid, &ws_str));
            let _ = std::fs::write(&lock_path, &l);
            let mb = match m {
                0 => None,
                1 => Some(meta(pid, DEAD_STARTED_AT_MS, UNREACHABLE, &ws_str)),
                _ => Some(meta(pid, DEAD_STARTED_AT_MS, responder_endpoint(), &ws_str)),
            };
            if let Some(mb) = &mb {
                let _ = std::fs::write(&meta_path, mb);
            }
            live_files = Some((l, mb));
        }
        Leftover::WsMismatchDead { with_meta } => {
            let other = format!("{ws_str}-other");
            let _ = std::fs::write(&lock_path, with_nl(rec(dead, &other)));
            if *with_meta {
                let _ = std::fs::write(&meta_path, meta(dead, DEAD_STARTED_AT_MS, UNREACHABLE, &other));
            }
        }
        Leftover::GarbageLockLiveMeta { cut } => {
            let pid = std::process::id();
            let l = cut_prefix(&rec(pid, &ws_str), *cut);
            let mb = meta(pid, DEAD_STARTED_AT_MS, UNREACHABLE, &ws_str);
            let _ = std::fs::write(&lock_path, &l);
            let _ = std::fs::write(&meta_path, &mb);
            live_files = Some((l, Some(mb)));
        }
    }
    Setup { dead, live_files }
}

// ---------------------------------------------------------------------------------------------
// Driver
// ---------------------------------------------------------------------------------------------

fn cause_of(point: &str) -> (&'static str, String) {
    match point {
        "auth.stale.after_reread" => ("stale_cleanup", "rename_after_reread".into()),
        "auth.stale.after_rename" | "auth.stale.after_meta" => ("stale_cleanup", "meta_or_tombstone_removal".into()),
        "auth.corrupt.after_checks" => ("corrupt_cleanup", "rename_after_checks".into()),
        "auth.drop.before" | "auth.drop.after_meta" | "auth.drop.after_lock" => ("drop", "unconditional_remove".into()),
        "auth.meta.after_tmp" | "auth.meta.after_remove" | "h.acquired" => ("write_meta", "replaces_meta".into()),
        "auth.loop.iter" | "h.try" | "auth.acquire.after_create" | "auth.acquire.after_write" => {
            ("acquire", "create_over_existing_lock".into())
        }
        other => ("other", other.replace('|', "/")),
    }
}

fn parse_lock(bytes: &Option<Vec<u8>>) -> Option<(u32, u64)> {
    let b = bytes.as_ref()?;
    let s = std::str::from_utf8(b).ok()?;
    let r: AuthorityLockRecord = serde_json::from_str(s).ok()?;
    Some((r.pid, r.started_at_ms))
}

fn parse_meta(bytes: &Option<Vec<u8>>) -> Option<(u32, u64)> {
    let b = bytes.as_ref()?;
    let s = std::str::from_utf8(b).ok()?;
    let r: AuthorityMeta = serde_json::from_str(s).ok()?;
    Some((r.pid, r.started_at_ms))
}

fn dir_listing(data: &Path) -> Vec<String> {
    let mut v: Vec<String> = std::fs::read_dir(ripd::authority_dir(data))
        .map(|rd| {
            rd.filter_map(|e| e.ok())
                .map(|e| {
                    let len = e.metadata().map(|m| m.len()).unwrap_or(0);
                    format!("{} ({len} B)", e.file_name().to_string_lossy())
                })
                .collect()
        })
        .unwrap_or_default();
    v.sort();
    v
}

/// Invariants (b) and (c), evaluated while every contender is parked, asleep or finished.
fn check_files(sh: &Shared, last_step: &Option<(usize, String)>, setup: &Setup, live_touched: &mut bool) -> bool {
    let lock_bytes = std::fs::read(ripd::authority_lock_path(&sh.data)).ok();
    let meta_bytes = std::fs::read(ripd::authority_meta_path(&sh.data)).ok();
    let lock_rec = parse_lock(&lock_bytes);
    let meta_rec = parse_meta(&meta_bytes);
    let mut g = sh.lock();
    let (op, cause) = match last_step {
        Some((who, p)) => {
            let (op, cause) = cause_of(p);
            if op == "corrupt_cleanup" && g.actors[*who].window_on_live_owner {
                (op, "grace_timer_not_reset_takes_fresh_lock".to_string())
            } else if op == "drop" && !g.actors[*who].released_after_lock_lost {
                // a guard in good standing is being dropped and hits a successor's files: the
                // release sequence itself lets a successor in too early (not F17b)
                (op, "release_sequence_removes_successors_file".to_string())
            } else if op == "stale_cleanup" && p == "auth.stale.after_reread" && g.actors[*who].window_on_live_owner {
                // the re-read itself saw the lock of a live owner and went on: not the known
                // re-read→rename window but a broken check
                (op, "reread_accepts_lock_of_live_owner".to_string())
            } else {
                (op, cause)
            }
        }
        None => ("none", "initial".to_string()),
    };
    let mut new_fails: Vec<(String, Value)> = Vec::new();
    let cascade = g.two_auth_seen;
    let mut taken = false;
    for k in 0..g.alive.len() {
        let Some(a) = g.alive[k].clone() else { continue };
        if !a.lock_lost {
            let between_create_and_write = g.actors[k].phase == Phase::Parked && g.actors[k].point == "auth.acquire.after_create";
            let lost = match a.record {
                // created, record not known yet
                None if between_create_and_write => lock_bytes.is_none(),
                None => {
                    // parked at after_write (or just returned): what the file holds now is the
                    // owner's record unless the lock was taken in between; `acquired` overrides
                    match lock_rec {
                        Some(r) => {
                            if let Some(slot) = g.alive[k].as_mut() {
                                slot.record = Some(r);
                            }
                            false
                        }
                        None => true,
                    }
                }
                Some(r) => lock_rec != Some(r),
            };
            if lost {
                if let Some(slot) = g.alive[k].as_mut() {
                    slot.lock_lost = true;
                }
                taken = true;
                // after two authorities exist everything else is a consequence, except what Drop does
                if !cascade || op == "drop" {
                    new_fails.push((
                        format!("live_lock_taken|{op}|{cause}"),
                        json!({"owner": k, "owner_record": a.record, "owner_acquire_returned": a.returned,
                               "lock_json_now": lock_bytes.as_ref().map(|b| String::from_utf8_lossy(b).to_string()),
                               "by_step": last_step, "history": g.history.clone(), "schedule_trace": g.trace.clone()}),
                    ));
                }
            }
        }
        if a.meta_written && !a.meta_lost && a.record.is_some() && meta_rec != a.record {
            if let Some(slot) = g.alive[k].as_mut() {
                slot.meta_lost = true;
            }
            if !cascade || op == "drop" {
                new_fails.push((
                    format!("live_meta_taken|{op}|{cause}"),
                    json!({"owner": k, "owner_record": a.record,
                           "meta_json_now": meta_bytes.as_ref().map(|b| String::from_utf8_lossy(b).to_string()),
                           "by_step": last_step, "history": g.history.clone(), "schedule_trace": g.trace.clone()}),
                ));
            }
        }
    }
    if taken {
        g.last_taken = Some((op, cause.clone()));
    }
    if let Some((l0, m0)) = &setup.live_files {
        if !*live_touched && (lock_bytes.as_ref() != Some(l0) || &meta_bytes != m0) {
            *live_touched = true;
            new_fails.push((
                format!("live_files_touched|{op}|{cause}"),
                json!({"lock_json_now": lock_bytes.as_ref().map(|b| String::from_utf8_lossy(b).to_string()),
                       "meta_json_now": meta_bytes.as_ref().map(|b| String::from_utf8_lossy(b).to_string()),
                       "by_step": last_step, "history": g.history.clone(), "schedule_trace": g.trace.clone()}),
            ));
        }
    }
    g.fails.extend(new_fails);
    lock_bytes.is_some()
}

struct Snapshot {
    phases: Vec<Phase>,
    points: Vec<String>,
    repeaters: Vec<bool>,
    parked_ms: Vec<u64>,
    windows: Vec<Option<&'static str>>,
}

impl Shared {
    fn snapshot(&self) -> Snapshot {
        let g = self.lock();
        Snapshot {
            phases: g.actors.iter().map(|a| a.phase).collect(),
            points: g.actors.iter().map(|a| a.point.clone()).collect(),
            repeaters: g
                .actors
                .iter()
                .map(|a| a.point == a.prev_point && (a.point == "auth.loop.iter" || a.point == "h.c.iter"))
                .collect(),
            parked_ms: g
                .actors
                .iter()
                .map(|a| a.parked_since.map(|t| t.elapsed().as_millis() as u64).unwrap_or(0))
                .collect(),
            windows: g.actors.iter().map(|a| a.window).collect(),
        }
    }

    fn reset_park_clocks(&self) {
        let mut g = self.lock();
        let now = Instant::now();
        for a in g.actors.iter_mut() {
            if a.parked_since.is_some() {
                a.parked_since = Some(now);
            }
        }
    }

    /// wait until no contender is Active; false on timeout
    fn settle(&self, timeout: Duration) -> bool {
        let t0 = Instant::now();
        let mut g = self.lock();
        loop {
            if !g.actors.iter().any(|a| a.phase == Phase::Active) {
                return true;
            }
            let Some(left) = timeout.checked_sub(t0.elapsed()) else { return false };
            let (ng, _) = self.cv.wait_timeout(g, left).unwrap_or_else(|e| e.into_inner());
            g = ng;
        }
    }

    /// wait (at most `d`) until some contender that is asleep has parked or finished
    fn wait_for_sleeper(&self, d: Duration) {
        let t0 = Instant::now();
        let mut g = self.lock();
        let asleep = |g: &St| g.actors.iter().filter(|a| a.phase == Phase::Sleeping).count();
        let n0 = asleep(&g);
        loop {
            if asleep(&g) != n0 {
                return;
            }
            let Some(left) = d.checked_sub(t0.elapsed()) else { return };
            let (ng, _) = self.cv.wait_timeout(g, left).unwrap_or_else(|e| e.into_inner());
            g = ng;
        }
    }

    fn step(&self, a: usize, point: &str) {
        {
            let mut g = self.lock();
            g.actors[a].phase = Phase::Active;
            g.trace.push(format!("{a}:{point}"));
        }
        self.ctrl.step(a);
    }

    fn all_finished(&self, timeout: Duration) -> bool {
        let t0 = Instant::now();
        let mut g = self.lock();
        loop {
            if g.actors.iter().all(|a| a.phase == Phase::Finished) {
                return true;
            }
            let Some(left) = timeout.checked_sub(t0.elapsed()) else { return false };
            let (ng, _) = self.cv.wait_timeout(g, left).unwrap_or_else(|e| e.into_inner());
            g = ng;
        }
    }
}

/// Replay scripts: `"2"` release contender 2 once; `"2>auth.stale.after_reread"` release
/// contender 2 (waiting through its sleeps) until it is parked at that point; `"w"` wait one slice
/// for a sleeping contender.
enum ScriptOp {
    Release(usize),
    Until(usize, String),
    Wait,
}

impl ScriptOp {
    fn parse(s: &str) -> Option<ScriptOp> {
        if s == "w" {
            return Some(ScriptOp::Wait);
        }
        match s.split_once('>') {
            Some((a, p)) => Some(ScriptOp::Until(a.trim().parse().ok()?, p.trim().to_string())),
            None => Some(ScriptOp::Release(s.trim().parse().ok()?)),
        }
    }
}

#[derive(Default)]
struct DriveStats {
    steps: u64,
    choices_used: usize,
    waits: u64,
    forced: u64,
    excluded_stale: u64,
    excluded_corrupt: u64,
    excluded_grace: u64,
    inside_cleanup: bool,
    inside_corrupt_cleanup: bool,
    inside_acquire: bool,
    free_run_tail: bool,
    inconclusive: Option<&'static str>,
    wall: Duration,
}

fn drive(sh: &Arc<Shared>, case: &Case, setup: &Setup) -> DriveStats {
    let mut ds = DriveStats::default();
    let t0 = Instant::now();
    let mut last_step: Option<(usize, String)> = None;
    let mut live_touched = false;
    let mut ci = 0usize;
    let mut si = 0usize;
    let mut script_wait = Duration::ZERO;
    let mut script_releases = 0u32;
    let mut clocks_reset = false;
    let script: Vec<ScriptOp> = case.script.iter().filter_map(|s| ScriptOp::parse(s)).collect();
    let mut rr = 0usize;
    let excl_stale = EXCLUDE_KNOWN_F17A_STALE_REREAD_RENAME_WINDOW && !case.no_exclusions;
    let excl_corrupt = EXCLUDE_KNOWN_F17D_CORRUPT_CHECKS_RENAME_WINDOW && !case.no_exclusions;
    let excl_grace = EXCLUDE_KNOWN_F17E_STALE_GRACE_TIMER && !case.no_exclusions;
    // some contender may carry a running "lock invalid since" timer
    let mut stale_timer_possible = matches!(
        case.leftover,
        Leftover::EmptyLock | Leftover::GarbageLock { .. } | Leftover::GarbageLockLiveMeta { .. }
    );
    loop {
        // the first settle covers the contenders' set-up (HTTP client construction under load)
        if !sh.settle(Duration::from_secs(if ds.steps == 0 { 20 } else { 5 })) {
            ds.inconclusive = Some("contender_did_not_reach_a_point");
            break;
        }
        let lock_present = check_files(sh, &last_step, setup, &mut live_touched);
        if ds.steps == 0 && !clocks_reset {
            // park time counts from the moment every contender is ready (set-up takes 70+ ms and
            // a contender parked before its first step simply has not started yet)
            sh.reset_park_clocks();
            clocks_reset = true;
        }
        let snap = sh.snapshot();
        if snap.phases.iter().all(|p| *p == Phase::Finished) {
            break;
        }
        if ds.steps >= MAX_STEPS || t0.elapsed() > SCHEDULE_WALL_CAP {
            ds.free_run_tail = true;
            break;
        }
        let parked: Vec<usize> = (0..snap.phases.len()).filter(|&a| snap.phases[a] == Phase::Parked).collect();
        let sleepers = snap.phases.iter().any(|p| *p == Phase::Sleeping);
        if parked.is_empty() {
            sh.wait_for_sleeper(Duration::from_millis(WAIT_SLICE_MS));
            continue;
        }

        // everybody is polling (loop head → sleep → loop head): no decision to make, neither
        // the script nor the choice vector is consumed
        let boring = parked.iter().all(|&a| snap.repeaters[a]);

        // explicit script prefix (replay files)
        let mut chosen: Option<usize> = None;
        if boring {
            rr += 1;
            chosen = Some(parked[rr % parked.len()]);
        } else if si < script.len() {
            let (want, until) = match &script[si] {
                ScriptOp::Wait => {
                    si += 1;
                    if sleepers {
                        sh.wait_for_sleeper(Duration::from_millis(WAIT_SLICE_MS));
                    }
                    continue;
                }
                ScriptOp::Release(a) => (*a, None),
                ScriptOp::Until(a, p) => (*a, Some(p.as_str())),
            };
            let done = want >= snap.phases.len()
                || snap.phases[want] == Phase::Finished
                || (until.is_some() && snap.phases[want] == Phase::Parked && Some(snap.points[want].as_str()) == until)
                || script_releases >= 200;
            if done {
                si += 1;
                script_wait = Duration::ZERO;
                script_releases = 0;
                continue;
            }
            if snap.phases[want] == Phase::Parked {
                if until.is_none() {
                    si += 1;
                } else {
                    script_releases += 1;
                }
                script_wait = Duration::ZERO;
                chosen = Some(want);
            } else if script_wait < Duration::from_millis(400) {
                // asleep: give it time to come back
                let w0 = Instant::now();
                sh.wait_for_sleeper(Duration::from_millis(WAIT_SLICE_MS));
                script_wait += w0.elapsed();
                continue;
            } else {
                si += 1;
                script_wait = Duration::ZERO;
                script_releases = 0;
                continue;
            }
        }

        let a = match chosen {
            Some(a) => a,
            None => {
                // exclusion by construction of the known defects (see EXCLUDE_KNOWN_*)
                let creator_parked = |not: usize| {
                    parked.iter().any(|&p| p != not && snap.points[p] == "auth.acquire.after_create")
                };
                let mut options: Vec<usize> = Vec::new();
                for &a in &parked {
                    let mut blocked = false;
                    // a pre-acquire contender can only take the lock if lock.json is absent right
                    // now (nobody else runs during its step); if it is present the contender just
                    // observes it and may enter a cleanup window itself, which is wanted
                    if is_pre_acquire(&snap.points[a]) && !lock_present {
                        for (w, win) in snap.windows.iter().enumerate() {
                            if w == a {
                                continue;
                            }
                            match win {
                                Some("stale") if excl_stale => {
                                    blocked = true;
                                    ds.excluded_stale += 1;
                                }
                                Some("corrupt") if excl_corrupt => {
                                    blocked = true;
                                    ds.excluded_corrupt += 1;
                                }
                                _ => {}
                            }
                        }
                    }
                    if !blocked && excl_grace && stale_timer_possible && is_loop_head(&snap.points[a]) && creator_parked(a) {
                        blocked = true;
                        ds.excluded_grace += 1;
                    }
                    if !blocked {
                        options.push(a);
                    }
                }
                if options.is_empty() {
                    // cannot happen (a contender inside a window / between create and write is
                    // itself always releasable)
                    options = parked.clone();
                }
                let over = options
                    .iter()
                    .copied()
                    .filter(|&a| snap.parked_ms[a] > PARK_BUDGET_MS)
                    .max_by_key(|&a| snap.parked_ms[a]);
                if let Some(a) = over {
                    ds.forced += 1;
                    a
                } else if options.len() == 1 && !sleepers {
                    options[0]
                } else {
                    let can_wait = sleepers && options.iter().all(|&a| snap.parked_ms[a] < WAIT_OK_MS);
                    let n = options.len() + usize::from(can_wait);
                    let idx = if ci < case.choices.len() {
                        let c = case.choices[ci];
                        ci += 1;
                        // `sticky` % of the choice range means "let the contender that ran last
                        // go on" (long uninterrupted runs of one contender next to a parked one
                        // are what the races need; uniform picks almost never produce them)
                        let same = last_step.as_ref().and_then(|(l, _)| options.iter().position(|o| o == l));
                        match same {
                            Some(pos) if (c as u32) < (case.sticky.min(100) as u32) * 655 => pos,
                            _ => pick(c, n),
                        }
                    } else {
                        rr += 1;
                        rr % options.len()
                    };
                    if idx >= options.len() {
                        ds.waits += 1;
                        sh.wait_for_sleeper(Duration::from_millis(WAIT_SLICE_MS));
                        continue;
                    }
                    options[idx]
                }
            }
        };

        for (w, win) in snap.windows.iter().enumerate() {
            if w != a && snap.phases[w] == Phase::Parked {
                match win {
                    Some("stale") => ds.inside_cleanup = true,
                    Some("corrupt") => ds.inside_corrupt_cleanup = true,
                    _ => {}
                }
            }
        }
        for &p in &parked {
            if p != a && snap.points[p] == "auth.acquire.after_create" {
                ds.inside_acquire = true;
            }
        }
        let point = snap.points[a].clone();
        if is_loop_head(&point) && parked.iter().any(|&p| p != a && snap.points[p] == "auth.acquire.after_create") {
            // it is about to see an empty lock file and start its timer
            stale_timer_possible = true;
        }
        sh.step(a, &point);
        last_step = Some((a, point));
        ds.steps += 1;
    }
    ds.choices_used = ci;
    // drain: whatever is left runs freely (verdict (a) stays valid: the log is totally ordered
    // by its mutex, `released` precedes the guard's Drop, `acquired` follows the acquire)
    sh.ctrl.release_all();
    if !sh.all_finished(Duration::from_secs(20)) && ds.inconclusive.is_none() {
        ds.inconclusive = Some("contenders_did_not_finish");
    }
    if ds.inconclusive.is_none() && !ds.free_run_tail {
        check_files(sh, &last_step, setup, &mut live_touched);
    }
    ds.wall = t0.elapsed();
    ds
}

// ---------------------------------------------------------------------------------------------
// One case
// ---------------------------------------------------------------------------------------------

fn run(case: &Case) -> CaseReport {
    let mut rep = CaseReport::new();
    let n = case.contenders.len();
    if !(1..=6).contains(&n) {
        rep.inconclusive("bad_case_shape");
        return rep;
    }
    let Some(dead) = dead_pid() else {
        rep.inconclusive("no_dead_pid");
        return rep;
    };
    let scratch = Scratch::new("c18");
    let data = scratch.join("data");
    let ws = scratch.join("ws");
    let _ = std::fs::create_dir_all(&data);
    let _ = std::fs::create_dir_all(&ws);
    let setup = write_leftover(case, &data, &ws, dead);

    let ctrl = Controller::new(n);
    let sh = Arc::new(Shared {
        ctrl,
        st: Mutex::new(St {
            actors: (0..n)
                .map(|_| ActorSt {
                    phase: Phase::Active,
                    point: String::new(),
                    prev_point: String::new(),
                    parked_since: None,
                    window: None,
                    window_on_live_owner: false,
                    released_after_lock_lost: false,
                    max_park_ms: 0,
                    max_park_after_create_ms: 0,
                })
                .collect(),
            alive: vec![None; n],
            history: Vec::new(),
            fails: Vec::new(),
            outcomes: vec![Vec::new(); n],
            acquired_order: Vec::new(),
            last_taken: None,
            two_auth_seen: false,
            trace: Vec::new(),
        }),
        cv: Condvar::new(),
        data: data.clone(),
        ws: ws.clone(),
        endpoint: if case.endpoint_reachable { responder_endpoint().to_string() } else { UNREACHABLE.to_string() },
    });

    let mut handles = Vec::new();
    for (i, kind) in case.contenders.iter().cloned().enumerate() {
        let sh_t = sh.clone();
        let spawned = std::thread::Builder::new().name(format!("c18-actor{i}")).spawn(move || {
            // contenders are OS threads: the thread-local handler identifies the actor; it is the
            // Controller's own thread handler (`ctrl.arrive(i, point)`) plus phase bookkeeping
            let sh_h = sh_t.clone();
            set_thread_handler(Some(Arc::new(move |p: &str, _c: &str| sh_h.arrive(i, p))));
            if let Err(p) = catch(|| run_actor(&sh_t, i, &kind)) {
                sh_t.outcome(i, format!("harness_panic:{p}"));
            }
            set_thread_handler(None);
            sh_t.finish(i);
        });
        match spawned {
            Ok(h) => handles.push(h),
            Err(_) => sh.finish(i),
        }
    }

    let ds = drive(&sh, case, &setup);

    if ds.inconclusive.is_none() {
        for h in handles {
            let _ = h.join();
        }
    }

    // ---- collect
    let (mut fails, outcomes, acquired_order, history, trace, max_after_create, max_park) = {
        let g = sh.lock();
        (
            g.fails.clone(),
            g.outcomes.clone(),
            g.acquired_order.clone(),
            g.history.clone(),
            g.trace.clone(),
            g.actors.iter().map(|a| a.max_park_after_create_ms).max().unwrap_or(0),
            g.actors.iter().map(|a| a.max_park_ms).max().unwrap_or(0),
        )
    };

    // ---- classes / counters
    rep.class(format!("leftover:{}", case.leftover.class()));
    if case.leftover.class() != case.leftover.tag() {
        rep.class(format!("leftover_variant:{}", case.leftover.tag()));
    }
    let mut letters: Vec<&str> = case.contenders.iter().map(|k| k.letter()).collect();
    letters.sort_unstable();
    rep.class(format!("mix:{}", letters.join("")));
    rep.class(format!("contenders:{n}"));
    rep.class_if(ds.inside_cleanup, "interleaved_inside_cleanup");
    rep.class_if(ds.inside_corrupt_cleanup, "interleaved_inside_corrupt_cleanup");
    rep.class_if(ds.inside_acquire, "interleaved_inside_acquire");
    rep.class_if(ds.free_run_tail, "free_run_tail");
    rep.class_if(ds.excluded_stale > 0, "excluded_known:F17a_window");
    rep.class_if(ds.excluded_corrupt > 0, "excluded_known:F17d_window");
    rep.class_if(ds.excluded_grace > 0, "excluded_known:F17e_stale_grace_timer");
    rep.class(match ds.steps {
        0..=9 => "steps:0-9",
        10..=19 => "steps:10-19",
        20..=39 => "steps:20-39",
        40..=99 => "steps:40-99",
        _ => "steps:100+",
    });
    match acquired_order.first() {
        Some(&w) => {
            let spawned = outcomes[w].iter().any(|o| o == "client:spawned_authority");
            rep.class(format!(
                "winner:{}",
                if spawned { "client_spawned_authority" } else { case.contenders[w].letter() }
            ));
        }
        None => {
            rep.class("nobody_acquired");
            rep.class(format!("nobody_acquired:{}", case.leftover.tag()));
        }
    }
    rep.class_if(acquired_order.len() >= 2, "several_acquired_in_turn");
    for o in outcomes.iter().flatten() {
        let short: String = o.split(':').take(3).collect::<Vec<_>>().join(":");
        if !short.contains("panic") {
            rep.count(&format!("outcome:{short}"), 1);
        } else {
            rep.count("outcome:panic", 1);
        }
    }
    rep.count("steps", ds.steps);
    rep.count("choices_consumed", ds.choices_used as u64);
    rep.count("waits_for_sleepers", ds.waits);
    rep.count("forced_releases_park_budget", ds.forced);
    rep.count("excluded_known_F17a_stale_window_releases", ds.excluded_stale);
    rep.count("excluded_known_F17d_corrupt_window_releases", ds.excluded_corrupt);
    rep.count("excluded_known_F17e_stale_grace_timer_releases", ds.excluded_grace);
    rep.count("cases_with_a_park_inside_an_operation_over_200ms", u64::from(max_park > 200));
    rep.nontrivial = ds.inside_cleanup || ds.inside_corrupt_cleanup || ds.inside_acquire;

    if std::env::var_os("C18_DEBUG").is_some() {
        eprintln!(
            "[c18] {} mix={} steps={} sched_wall={:?} waits={} forced={} max_park={}ms after_create={}ms inconclusive={:?} fails={:?} outcomes={:?}",
            case.leftover.tag(),
            letters.join(""),
            ds.steps,
            ds.wall,
            ds.waits,
            ds.forced,
            max_park,
            max_after_create,
            ds.inconclusive,
            fails.iter().map(|f| f.0.clone()).collect::<Vec<_>>(),
            outcomes
        );
    }

    // ---- inconclusive outcomes: never a verdict
    if let Some(why) = ds.inconclusive {
        rep.inconclusive(why);
        return rep;
    }
    if ds.free_run_tail {
        // the step / wall cap was reached and the rest ran unscheduled: the EXCLUDE_KNOWN_* rules
        // could not be enforced there, so no verdict
        rep.inconclusive("schedule_cap_reached");
        return rep;
    }
    if max_after_create > STALL_LIMIT_AFTER_CREATE_MS {
        rep.inconclusive("stalled_between_create_and_write");
        return rep;
    }
    if !matches!(ripd::pid_liveness(setup.dead), PidLiveness::Dead) {
        rep.inconclusive("dead_pid_reused");
        return rep;
    }

    // ---- (c) nobody acquires over the files of a live pid
    if case.leftover.live_owner() {
        if let Some(&w) = acquired_order.first() {
            fails.push((
                format!("acquired_over_live_lock|{}|{}", case.contenders[w].letter(), case.leftover.tag()),
                json!({"winner": w, "history": history, "schedule_trace": trace}),
            ));
        }
    }

    // ---- (d) progress
    if fails.is_empty() {
        let any_client = case.contenders.iter().any(|k| matches!(k, Kind::Client { .. }));
        let any_server = case.contenders.iter().any(|k| matches!(k, Kind::Server { .. }));
        if case.leftover.dead_pid_valid_lock()
            && any_server
            && !any_client
            && acquired_order.is_empty()
            && !ds.free_run_tail
            && ds.wall < Duration::from_millis(1500)
        {
            fails.push((
                format!("no_progress|server_loop|{}", case.leftover.tag()),
                json!({"outcomes": outcomes, "history": history, "schedule_trace": trace,
                       "authority_dir": dir_listing(&data)}),
            ));
        }
        if case.leftover.recovery_documented() || case.leftover.tag() == "garbage_lock_not_utf8" {
            // a fresh, uncontended server start after the dust has settled (no handler on this
            // thread: hook points pass straight through); one retry so that a machine stall
            // inside the loop's own 2 s deadline cannot produce a verdict
            let mut last_err = String::new();
            // the loop's first action is a plain try_acquire: do that first, it needs no HTTP client
            let mut ok = matches!(catch(|| AuthorityLockGuard::try_acquire(&data, &ws)), Ok(Ok(_)));
            for _ in 0..2 {
                if ok {
                    break;
                }
                let rt = tokio::runtime::Builder::new_current_thread().enable_all().build();
                let Ok(rt) = rt else { break };
                match catch(|| rt.block_on(ripd::verif::acquire_authority_lock_with_recovery(&data, &ws))) {
                    Ok(Ok(guard)) => {
                        drop(guard);
                        ok = true;
                        break;
                    }
                    Ok(Err(e)) => last_err = e,
                    Err(p) => last_err = format!("panic: {p}"),
                }
            }
            if !ok {
                if case.leftover.recovery_documented() {
                    fails.push((
                        format!("no_recovery|late_comer_cannot_acquire|{}", case.leftover.tag()),
                        json!({"error": last_err.replace(&*data.to_string_lossy(), "<data>"),
                               "outcomes": outcomes, "history": history, "schedule_trace": trace,
                               "authority_dir": dir_listing(&data)}),
                    ));
                } else {
                    rep.count("observed:late_comer_wedged_on_non_utf8_lock", 1);
                }
            }
        }
    }
    // the client attach loop never gets past a meta.json without lock.json (observation, not a verdict)
    if case.leftover == Leftover::MetaOnlyDead {
        for (i, k) in case.contenders.iter().enumerate() {
            if let Kind::Client { max_iters, .. } = k {
                if *max_iters >= 3 && outcomes[i].iter().any(|o| o == "client:gave_up") && acquired_order.is_empty() {
                    rep.count("observed:client_polls_forever_on_meta_without_lock", 1);
                }
            }
        }
    }

    for (sig, detail) in fails {
        rep.fail(mark_if_excluded(sig, case.no_exclusions), detail);
    }
    rep
}

/// The signatures of the confirmed defects F17a/b/d/e. With the EXCLUDE_KNOWN_* rules in force
/// (every generated case) the schedules that produce them are not run, so if one of them shows up
/// anyway it is NOT the known defect (or an exclusion rule has a hole): its cause gets a marker in
/// front, which keeps it from matching the known-finding key by prefix.
const KNOWN_FAMILIES: [&str; 8] = [
    "live_lock_taken|stale_cleanup|rename_after_reread",
    "two_authorities|stale_cleanup|reread_then_rename_races_reacquire",
    "live_lock_taken|corrupt_cleanup|rename_after_checks",
    "two_authorities|corrupt_cleanup|checks_then_rename_races_reacquire",
    "live_lock_taken|corrupt_cleanup|grace_timer_not_reset_takes_fresh_lock",
    "two_authorities|corrupt_cleanup|grace_timer_not_reset_takes_fresh_lock",
    "live_lock_taken|drop|unconditional_remove",
    "live_meta_taken|drop|unconditional_remove",
];

fn mark_if_excluded(sig: String, no_exclusions: bool) -> String {
    if no_exclusions || !KNOWN_FAMILIES.iter().any(|k| sig.starts_with(k)) {
        return sig;
    }
    match sig.rsplit_once('|') {
        Some((head, cause)) => format!("{head}|despite_exclusion:{cause}"),
        None => sig,
    }
}

include!("c18/procs.rs");

fn main() {
    // reqwest honours proxy variables; pings must go to 127.0.0.1 directly
    for k in ["http_proxy", "HTTP_PROXY", "https_proxy", "HTTPS_PROXY", "all_proxy", "ALL_PROXY"] {
        std::env::remove_var(k);
    }
    let mut check = Check::new("C18", "exploration");
    // `ripd::verif::acquire_authority_lock_with_recovery` builds a fresh reqwest client per call;
    // with the system CA bundle that costs ~60 ms of CPU and collapses under concurrency (OpenSSL
    // decoder locks: 16 threads ⇒ ~1.7 s per client). Every endpoint here is plain http on
    // 127.0.0.1, so the trust store is irrelevant: point OpenSSL at an empty one (~1 ms per client).
    {
        let root = rv::engine::scratch::root();
        let pem = root.join("empty-ca.pem");
        let dir = root.join("empty-ca-dir");
        let _ = std::fs::write(&pem, b"");
        let _ = std::fs::create_dir_all(&dir);
        std::env::set_var("SSL_CERT_FILE", &pem);
        std::env::set_var("SSL_CERT_DIR", &dir);
    }
    check.assume("all contenders are threads of ONE process (sandbox): every lock they write carries the harness pid, and pid_liveness(harness pid) is Alive; a 'dead previous authority' is the pid of a reaped child (`true`), checked Dead before and after the case (pid reuse inside a case is negligible: pids are handed out cyclically, pid_max >= 32768; a reused pid makes the case inconclusive); a 'live previous authority' is pid 1 or the harness pid, with static files nobody releases");
    check.assume("the client attach/recover loop lives in the binary crate rip-cli and cannot be linked: it is re-created call by call from rip-cli/src/local_authority.rs:34-199 with ripd's public functions (line numbers in the source of this check); spawning `rip serve` is modelled by running the server sequence on the same thread; its 8 s deadline is replaced by a generated iteration bound");
    check.assume("execution is serialised at the hook points (auth.* in local_authority.rs and the server loop, plus harness yield points start / h.*): interleavings finer than these points are not explored; the loops' own sleeps run in real time and overlap");
    check.assume("real-time discipline: a releasable contender is never kept parked longer than 150 ms (then it is released whatever the choice vector says), waits for sleeping contenders are <= 25 ms and only while nobody has been parked for 100 ms; so the code's 1 s invalid-lock grace and 2 s deadline are never defeated by the harness; a contender that nevertheless sat > 400 ms between create and write of its lock (machine stall) makes the case inconclusive");
    check.assume("TLS trust roots are emptied for this process (SSL_CERT_FILE / SSL_CERT_DIR point at an empty file / directory): the exported acquire loop builds a reqwest client per call and loading the system CA bundle dominates the cost; no https endpoint is used");
    check.assume("unreachable endpoint = http://127.0.0.1:9 (connection refused at once); reachable endpoint = a responder inside the harness answering 200 to everything");
    check.assume("verdicts come from the harness-side log of guard lifetimes (acquired after the acquire returned, released before the guard is dropped) and from lock.json / meta.json read while every contender is parked, asleep or finished; never from elapsed time");
    check.assume("progress (d) is asserted only where docs/02_architecture/runtime_and_control_plane.md promises recovery: dead-pid lock with or without meta, invalid lock JSON without meta after the grace period, no lock; not for a workspace-root mismatch, not for a lock that is not UTF-8 (counted)");
    if !matches!(ripd::pid_liveness(1), PidLiveness::Alive) {
        check.note("pid 1 is not visible as alive in this sandbox");
    }
    let rule = "case = leftover state of authority/{lock,meta}.json (9 states, 11 variants) x 2..4 contenders (server loop / client cleaner / plain try_acquire, with write_meta, hold steps) x choice vector over the auth.* points (serialised stepping, one contender released at a time); non-trivial = another contender was released while one sat between the check and the rename of a stale/corrupt cleanup, or between create and write of an acquire; distinct by case hash";
    let n = check.cases(800, 16_000);
    check.group(
        "sched",
        rule,
        GroupOpts { cases: n, max_shrink_iters: 24, watchdog_s: 300, ..Default::default() },
        case_strategy,
        run,
    );
    let n = check.cases(20_000, 400_000);
    check.group(
        "races",
        "same case shape and oracle, restricted to the leftover classes that need no waiting (none, dead-pid lock with/without meta, meta only, live-pid lock) and client loops of <= 3 iterations, so that many more schedules of the acquire / stale-cleanup / write_meta / drop steps are explored per second; non-trivial as above",
        GroupOpts { cases: n, max_shrink_iters: 60, watchdog_s: 300, ..Default::default() },
        races_case_strategy,
        run,
    );
    let ripd_bin = std::env::var_os("C18_RIPD_BIN").map(PathBuf::from).unwrap_or_else(|| PathBuf::from("/verif/target/repo-bins/debug/ripd"));
    let rip_bin = std::env::var_os("C18_RIP_BIN").map(PathBuf::from).unwrap_or_else(|| PathBuf::from("/verif/target/repo-bins/debug/rip"));
    if !ripd_bin.exists() || !rip_bin.exists() {
        println!("INCONCLUSIVE property=C18: repository binaries missing ({} / {})", ripd_bin.display(), rip_bin.display());
        std::process::exit(2);
    }
    let _ = PROC_BINS.set(ProcBins { ripd: ripd_bin, rip: rip_bin });
    check.assume("group procs: contenders are real processes of the repository's own binaries built from the working tree (ripd, `rip serve`, `rip threads ensure`); a process holds the authority role from the moment it owns a LISTEN socket (serve() binds only after acquiring the lock) until it dies; processes of a store are found through /proc/<pid>/environ (RIP_DATA_DIR=<the case's unique directory>)");
    let n = check.cases(200, 4_000);
    check.group(
        "procs",
        "REAL processes: leftover of a really crashed authority (ripd SIGKILLed; optionally meta removed, lock emptied or overwritten with garbage) or a clean store x wave of 1-5 contenders (`rip threads ensure` = the CLI auto-start/attach loop, `ripd`, `rip serve`) at generated start offsets x optional second wave against the live winner or after SIGKILLing it. Every 12 ms: processes of this store owning a LISTEN socket (two at once = two authorities). At quiescence: exactly one listener, lock.json and meta.json name it, its endpoint answers, a live winner survives a second wave untouched; a store nobody brought up is probed alone twice before it is called unusable. non-trivial = >=2 contenders; distinct by case hash",
        GroupOpts { cases: n, max_shrink_iters: 12, watchdog_s: 900, ..Default::default() },
        proc_case_strategy,
        run_procs,
    );
    check.finish();
}
