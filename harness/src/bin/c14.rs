//! C14 — rewind restores exactly the checkpointed files from any later state.
//!
//! Model: for every checkpoint, `path -> Some(bytes) | None` captured by the harness at checkpoint
//! time reading relative to the workspace ROOT. Histories: manual checkpoints over generated file
//! sets (existing / missing / nested; relative, `./`-relative, absolute inside the root), edits
//! (write tool, apply_patch with add/update/move/delete, direct delete / write, directory where a
//! file was, file where a directory was), rewinds in any order over all checkpoints made so far
//! (manual and automatic), store faults before a rewind. Oracle after every rewind: Ok ⇒ every
//! covered path has exactly the checkpointed bytes / is absent and every uncovered file is
//! untouched; Err ⇒ every file is byte-identical to before the rewind. Automatic checkpoint: when
//! a write / apply_patch call changed any file, a `checkpoint_created{auto:true}` frame precedes
//! `tool_started`, its files ⊇ the changed files, and rewinding to it gives back the pre-tool tree.

use std::collections::{BTreeMap, BTreeSet};
use std::path::PathBuf;

use proptest::prelude::*;
use rv::engine::runner::catch;
use rv::engine::{pick, CaseReport, Check, GroupOpts};
use rv::tree::Node;
use rv::ws_common::{changed_files, cwd, files_of, normalize_rel, store_dir, CwdClass, Rig, Sandbox, Seen};
use serde::{Deserialize, Serialize};
use serde_json::json;

/// F3-cwd: `Workspace::create_checkpoint` reads a relative path from the process cwd (existence
/// and bytes) but records it relative to the root. With cwd != root: manual checkpoints that name
/// a file relatively are skipped, and write/apply_patch run through the hook-less runner (the
/// automatic checkpoint always passes the tool's relative argument). Counted.
const EXCLUDE_KNOWN_F3_CWD: bool = false;
/// F21: `write` (atomic) onto a path that is a directory fails after writing its temp file and
/// leaves `<stem>.tmp-<uuid>` behind — a file the automatic checkpoint does not cover. Those
/// write steps are skipped. Counted.
const EXCLUDE_KNOWN_F21: bool = false;

fn excluded(flag: bool, name: &str) -> bool {
    if !flag {
        return false;
    }
    match std::env::var("VERIF_NO_EXCLUDE") {
        Ok(v) => !(v == "all" || v.split(',').any(|x| x.trim() == name)),
        Err(_) => true,
    }
}

/// Workspace-relative names every step draws from (small on purpose: collisions are the point).
/// `a.txt b.txt new.txt sub/c.txt sub/new2.txt` also exist, with other contents, in the two
/// foreign working directories.
const POOL: &[&str] = &[
    "a.txt", "b.txt", "sub/c.txt", "sub/deep/d.txt", "new.txt", "sub/new2.txt", "newdir/n.txt",
    "sp ace.txt", "\u{fc}n\u{ef}/\u{e9}.txt", "dir.d/x.md", "Makefile",
    // bytes that are ordinary in a Linux file name but special somewhere else
    "notes\\todo.txt", "sub/back\\slash.txt", "-dash.txt", "a..b/c.txt", "..hidden.txt", "we:ird.txt", "quo\"te.txt",
];

#[derive(Debug, Clone, Serialize, Deserialize)]
struct Content {
    text: String,
    /// prefix the bytes 0xff 0xfe (not UTF-8)
    #[serde(default)]
    raw: bool,
}

impl Content {
    fn bytes(&self) -> Vec<u8> {
        let mut b = Vec::new();
        if self.raw {
            b.extend_from_slice(&[0xff, 0xfe]);
        }
        b.extend_from_slice(self.text.as_bytes());
        b
    }
}

#[derive(Debug, Clone, Serialize, Deserialize)]
enum POp {
    /// `fit`: choose the name among those whose current state suits the op (missing for Add and
    /// Move to, existing for Delete / Update) instead of among all names
    Add { name: u16, text: String, fit: bool },
    Delete { name: u16, fit: bool },
    Update { name: u16, new_first: String, move_to: Option<u16>, fit: bool },
}

#[derive(Debug, Clone, Serialize, Deserialize)]
enum Step {
    /// manual checkpoint; form: 0 `a.txt`, 1 `./a.txt`, 2 `<root>/a.txt`, 3 `<root>/./a.txt`, 4 `sub/./c.txt`
    Checkpoint { files: Vec<(u16, u8)> },
    /// write tool; mode 0 atomic (default), 1 atomic:false, 2 append; undo = rewind to the automatic checkpoint right away
    /// `form` spells the path: 0 `a.txt`, 1 `./a.txt`, 4 `sub/./c.txt`, 5 `sub//c.txt`, 6 `./././a.txt`
    ToolWrite { name: u16, text: String, mode: u8, undo: bool, #[serde(default)] form: u8 },
    /// `form` spells every path of the patch: 0 plain, 1 `./a.txt`
    ToolPatch { ops: Vec<POp>, undo: bool, #[serde(default)] form: u8 },
    FsWrite { name: u16, content: Content },
    FsDelete { name: u16 },
    /// whatever is at the path is replaced by a directory
    FsMkdirOver { name: u16 },
    /// the parent directory of the (nested) path is replaced by a regular file
    FsFileOverDir { name: u16 },
    /// the top-level directory of the (nested) path is removed with everything below it
    FsRemoveDir { name: u16 },
    /// every name of the history is overwritten / created with new bytes (direct fs writes)
    FsChurn { content: Content },
    /// rewind to the `which`-th checkpoint made so far (manual or automatic)
    Rewind { which: u16 },
}

#[derive(Debug, Clone, Serialize, Deserialize)]
struct Case {
    cwd: String,
    /// the names this history works on (3..6 of POOL); every u16 in a step selects from these
    names: Vec<String>,
    /// initial files (a subset of `names`)
    tree: Vec<(String, Content)>,
    steps: Vec<Step>,
    /// store faults + rewind, executed after `steps` (a damaged checkpoint.json makes every later
    /// rewind of the session fail, so faults come last)
    #[serde(default)]
    tail: Vec<(u16, u8, u16)>,
    #[serde(default)]
    allow_known: bool,
}

// ------------------------------------------------------------------------------------------
// generators
// ------------------------------------------------------------------------------------------

fn content() -> BoxedStrategy<Content> {
    (
        proptest::collection::vec("[a-c]{0,3}", 0..4),
        prop_oneof![3 => Just("\n"), 1 => Just("\r\n")],
        any::<bool>(),
        prop_oneof![9 => Just(false), 1 => Just(true)],
    )
        .prop_map(|(lines, sep, trailing, raw)| {
            let mut text = lines.join(sep);
            if trailing && !lines.is_empty() {
                text.push_str(sep);
            }
            Content { text, raw }
        })
        .boxed()
}

fn pop() -> BoxedStrategy<POp> {
    prop_oneof![
        3 => (any::<u16>(), "[a-c]{0,3}", prop::bool::weighted(0.7)).prop_map(|(name, text, fit)| POp::Add { name, text, fit }),
        2 => (any::<u16>(), prop::bool::weighted(0.7)).prop_map(|(name, fit)| POp::Delete { name, fit }),
        4 => (any::<u16>(), "[a-c]{1,3}", proptest::option::weighted(0.45, any::<u16>()), prop::bool::weighted(0.7))
            .prop_map(|(name, new_first, move_to, fit)| POp::Update { name, new_first, move_to, fit }),
    ]
    .boxed()
}

fn step() -> BoxedStrategy<Step> {
    prop_oneof![
        4 => proptest::collection::vec((any::<u16>(), 0u8..5), 1..6).prop_map(|files| Step::Checkpoint { files }),
        4 => (any::<u16>(), "[a-c\n]{0,6}", prop_oneof![3 => Just(0u8), 1 => Just(1u8), 1 => Just(2u8)], prop::bool::weighted(0.3), prop_oneof![4 => Just(0u8), 2 => Just(1u8), 1 => Just(4u8), 1 => Just(5u8), 1 => Just(6u8)])
            .prop_map(|(name, text, mode, undo, form)| Step::ToolWrite { name, text, mode, undo, form }),
        4 => (proptest::collection::vec(pop(), 1..4), prop::bool::weighted(0.3), prop_oneof![3 => Just(0u8), 1 => Just(1u8)])
            .prop_map(|(ops, undo, form)| Step::ToolPatch { ops, undo, form }),
        2 => (any::<u16>(), content()).prop_map(|(name, content)| Step::FsWrite { name, content }),
        2 => any::<u16>().prop_map(|name| Step::FsDelete { name }),
        1 => any::<u16>().prop_map(|name| Step::FsMkdirOver { name }),
        1 => any::<u16>().prop_map(|name| Step::FsFileOverDir { name }),
        1 => any::<u16>().prop_map(|name| Step::FsRemoveDir { name }),
        4 => content().prop_map(|content| Step::FsChurn { content }),
        6 => prop_oneof![1 => Just(0u16), 2 => any::<u16>()].prop_map(|which| Step::Rewind { which }),
    ]
    .boxed()
}

fn case_strategy() -> BoxedStrategy<Case> {
    (
        prop_oneof![6 => Just("root"), 1 => Just("outer"), 1 => Just("elsewhere")],
        proptest::sample::subsequence(POOL.to_vec(), 3..=6),
        proptest::collection::vec((any::<bool>(), content()), 6),
        proptest::collection::vec((any::<u16>(), 0u8..5), 1..6),
        proptest::collection::vec(step(), 2..14),
        proptest::collection::vec((any::<u16>(), 0u8..7, any::<u16>()), 0..3),
        0u8..100,
    )
        .prop_map(|(cwd, names, present, first, mut steps, mut tail, steer)| {
            let names: Vec<String> = names.into_iter().map(|s| s.to_string()).collect();
            let tree: Vec<(String, Content)> = names
                .iter()
                .zip(present)
                .filter(|(_, (p, _))| *p)
                .map(|(n, (_, c))| (n.clone(), c))
                .collect();
            // most histories start with a checkpoint
            if steer < 80 {
                steps.insert(0, Step::Checkpoint { files: first });
            }
            // most histories end with a rewind (so the edits before it are judged)
            if steer % 4 != 3 {
                steps.push(Step::Rewind { which: if steer % 2 == 0 { 0 } else { 65535 } });
            }
            // two thirds of the histories carry no store fault
            if steer % 3 != 0 {
                tail.clear();
            }
            if EXCLUDE_KNOWN_F3_CWD && cwd != "root" && steer % 10 != 0 {
                // keep foreign-cwd histories productive: name checkpoint files absolutely
                for s in steps.iter_mut() {
                    if let Step::Checkpoint { files } = s {
                        for f in files.iter_mut() {
                            f.1 = 2 + (f.1 % 2);
                        }
                    }
                }
            }
            Case { cwd: cwd.to_string(), names, tree, steps, tail, allow_known: false }
        })
        .boxed()
}

// ------------------------------------------------------------------------------------------
// model
// ------------------------------------------------------------------------------------------

#[derive(Debug, Clone, PartialEq)]
enum St {
    File(Vec<u8>),
    Absent,
    Dir,
}

fn state(sb: &Sandbox, name: &str) -> St {
    match std::fs::symlink_metadata(sb.root.join(name)) {
        Ok(m) if m.is_dir() => St::Dir,
        Ok(m) if m.is_file() => St::File(std::fs::read(sb.root.join(name)).unwrap_or_default()),
        Ok(_) => St::Dir,
        Err(_) => St::Absent,
    }
}

fn ancestor_is_file(sb: &Sandbox, name: &str) -> bool {
    let mut p = PathBuf::new();
    let segs: Vec<&str> = name.split('/').collect();
    for s in &segs[..segs.len().saturating_sub(1)] {
        p.push(s);
        if let Ok(m) = std::fs::symlink_metadata(sb.root.join(&p)) {
            if m.is_file() {
                return true;
            }
        }
    }
    false
}

struct Cp {
    id: String,
    covered: BTreeMap<String, Option<Vec<u8>>>,
    /// "manual" | "auto(write)" | "auto(apply_patch)"
    origin: String,
    /// a file was named relatively while cwd != root (the known-finding region)
    rel_in_foreign_cwd: bool,
    damaged: bool,
}

struct World<'a> {
    sb: &'a Sandbox,
    names: &'a [String],
    rig: Rig,
    cps: Vec<Cp>,
    store_damaged: bool,
    cwd_ne_root: bool,
    ex_f3_cwd: bool,
    ex_f21: bool,
}

fn name_of<'a>(names: &'a [String], i: u16) -> &'a str {
    if names.is_empty() {
        return POOL[0];
    }
    &names[pick(i, names.len())]
}

/// Like `name_of`, but among the names whose current state is (not) a regular file when `fit`.
fn name_fit<'a>(sb: &Sandbox, names: &'a [String], i: u16, want_file: bool, fit: bool) -> &'a str {
    if fit {
        let c: Vec<&String> = names
            .iter()
            .filter(|n| matches!(state(sb, n), St::File(_)) == want_file && (want_file || state(sb, n) == St::Absent))
            .collect();
        if !c.is_empty() {
            return c[pick(i, c.len())];
        }
    }
    name_of(names, i)
}

fn form_path(sb: &Sandbox, name: &str, form: u8) -> (String, bool /*relative*/) {
    let root = sb.root.to_string_lossy();
    match form {
        1 => (format!("./{name}"), true),
        2 => (format!("{root}/{name}"), false),
        3 => (format!("{root}/./{name}"), false),
        4 => match name.split_once('/') {
            Some((d, rest)) => (format!("{d}/./{rest}"), true),
            None => (name.to_string(), true),
        },
        _ => (name.to_string(), true),
    }
}

fn cwd_tag(w: &World, cp: &Cp) -> &'static str {
    if !w.cwd_ne_root {
        "cwd_eq_root"
    } else if cp.rel_in_foreign_cwd {
        "cwd_ne_root_relative_path"
    } else {
        "cwd_ne_root_absolute_path"
    }
}

/// Rewind to `cps[idx]` (or to an unknown id) and judge the result.
fn do_rewind(w: &mut World, idx: Option<usize>, fault: &str, rep: &mut CaseReport, step_no: usize) {
    let pre = w.sb.ws();
    let pre_files = files_of(&pre);
    let id = match idx {
        Some(i) => w.cps[i].id.clone(),
        None => "00000000-0000-4000-8000-00000000dead".to_string(),
    };
    // evidence: does this rewind have real work to do?
    let mut obstructed = false;
    if let Some(i) = idx {
        let cp = &w.cps[i];
        let mut modified = false;
        let mut created = false;
        for (name, want) in &cp.covered {
            let cur = state(w.sb, name);
            match (want, &cur) {
                (Some(b), St::File(c)) if b != c => modified = true,
                (Some(_), St::Absent) => modified = true,
                (None, St::File(_)) => created = true,
                _ => {}
            }
            if cur == St::Dir || ancestor_is_file(w.sb, name) {
                obstructed = true;
            }
        }
        if modified && created {
            rep.nontrivial = true;
            rep.class("rewind:modified_and_created");
        }
        if cp.rel_in_foreign_cwd {
            rep.nontrivial = true;
        }
        rep.class_if(obstructed, "rewind:obstructed");
    }
    let events = match catch(|| w.rig.rewind(&id)) {
        Ok(ev) => ev,
        Err(p) => {
            rep.class("panic");
            rep.count("panics", 1);
            let _ = p;
            Vec::new()
        }
    };
    let seen = Seen::of(&events);
    let ok = !seen.rewound.is_empty();
    let post = w.sb.ws();
    let post_files = files_of(&post);
    let Some(i) = idx else {
        rep.class("rewind:unknown_id");
        if ok {
            rep.fail("rewind|any_cwd|unknown_id_accepted|no_such_checkpoint", json!({"step": step_no}));
        }
        if post_files != pre_files {
            rep.fail(
                "rewind|any_cwd|failed_but_workspace_changed|unknown_id",
                json!({"step": step_no, "changed": changed_files(&pre, &post)}),
            );
        }
        return;
    };
    let cp = &w.cps[i];
    let tag = cwd_tag(w, cp);
    let origin = cp.origin.clone();
    if ok {
        rep.class("rewind:ok");
        rep.count("rewinds_ok", 1);
        for (name, want) in &cp.covered {
            let cur = state(w.sb, name);
            let good = match (want, &cur) {
                (Some(b), St::File(c)) => b == c,
                (None, St::Absent) => true,
                _ => false,
            };
            if !good {
                let what = if want.is_some() { "covered_existing_not_restored" } else { "covered_missing_not_removed" };
                rep.fail(
                    format!("rewind|{tag}|{what}|{origin}"),
                    json!({"step": step_no, "path": name, "fault": fault,
                           "expected": want.as_ref().map(|b| String::from_utf8_lossy(b).into_owned()),
                           "found": format!("{:?}", brief(&cur))}),
                );
            }
        }
        let uncovered_changed: Vec<String> = changed_files(&pre, &post)
            .into_iter()
            .filter(|k| !cp.covered.contains_key(k))
            .collect();
        if !uncovered_changed.is_empty() {
            rep.fail(
                format!("rewind|{tag}|uncovered_file_changed|{origin}"),
                json!({"step": step_no, "paths": uncovered_changed, "fault": fault}),
            );
        }
    } else {
        rep.class("rewind:err");
        rep.count("rewinds_err", 1);
        if post_files != pre_files {
            rep.fail(
                format!("rewind|{tag}|failed_but_workspace_changed|{}", if fault.is_empty() { "no_fault" } else { fault }),
                json!({"step": step_no, "changed": changed_files(&pre, &post), "error": seen.rewind_failed}),
            );
        }
        let dirs_differ = pre != post;
        rep.count("failed_rewind_left_directory_changes", dirs_differ as u64);
        if fault.is_empty() && !w.store_damaged && !cp.damaged && !obstructed && !cp.rel_in_foreign_cwd {
            rep.fail(
                format!("rewind|{tag}|unexpected_failure|{origin}"),
                json!({"step": step_no, "error": seen.rewind_failed}),
            );
        }
    }
}

fn brief(s: &St) -> String {
    match s {
        St::File(b) => format!("file {:?}", String::from_utf8_lossy(b)),
        St::Absent => "absent".into(),
        St::Dir => "directory".into(),
    }
}

/// A write / apply_patch call through the runner; registers the automatic checkpoint.
fn do_tool(w: &mut World, tool: &str, cause: &str, args: serde_json::Value, undo: bool, rep: &mut CaseReport, step_no: usize) -> bool {
    let hooked = !(w.ex_f3_cwd && w.cwd_ne_root);
    if !hooked {
        rep.count("excluded_known_F3_cwd_auto_checkpoint_bypassed", 1);
    }
    let pre = w.sb.ws();
    let tool_s = tool.to_string();
    let events = match catch(|| w.rig.tool(hooked, &tool_s, args)) {
        Ok(ev) => ev,
        Err(p) => {
            rep.class("panic");
            rep.count("panics", 1);
            let _ = p;
            Vec::new()
        }
    };
    let post = w.sb.ws();
    let changed = changed_files(&pre, &post);
    let seen = Seen::of(&events);
    rep.class_if(!changed.is_empty(), &format!("tool_changed_files:{tool}"));
    let tool_ok = seen.exit_code == Some(0);
    let region = if w.cwd_ne_root { "cwd_ne_root_relative_path" } else { "cwd_eq_root" };
    if !hooked {
        return tool_ok;
    }
    let auto = seen.created.iter().find(|c| c.3).cloned();
    if let (Some((ci, _, _, _)), Some(si)) = (&auto, seen.started_idx) {
        if *ci > si {
            rep.fail(
                format!("auto_checkpoint|{region}|after_tool_started|{tool}|{cause}"),
                json!({"step": step_no, "checkpoint_event_index": ci, "tool_started_index": si}),
            );
        }
    }
    let Some((_, id, files, _)) = auto else {
        if !changed.is_empty() {
            rep.fail(
                format!("auto_checkpoint|{region}|missing|{tool}|{cause}"),
                json!({"step": step_no, "changed": changed, "create_failed": seen.create_failed}),
            );
        }
        return tool_ok;
    };
    rep.class(format!("auto_checkpoint:{tool}"));
    let mut covered = BTreeMap::new();
    for f in &files {
        if let Some(n) = normalize_rel(f) {
            let st = match pre.get(&n) {
                Some(Node::File(b)) => Some(b.clone()),
                Some(_) => continue, // a directory was named: nothing the model can say
                None => None,
            };
            covered.insert(n, st);
        }
    }
    let not_covered: BTreeSet<&String> = changed.iter().filter(|c| !covered.contains_key(*c)).collect();
    if !not_covered.is_empty() {
        let moved = tool == "apply_patch";
        rep.fail(
            format!("auto_checkpoint|{region}|does_not_cover_changed_file|{tool}|{cause}"),
            json!({"step": step_no, "changed": changed, "checkpoint_files": files, "patch": moved}),
        );
    }
    if tool == "apply_patch" && seen.exit_code == Some(0) && changed.len() >= 2 {
        rep.class("patch_changed_2plus_files");
    }
    w.cps.push(Cp {
        id: id.clone(),
        covered,
        origin: format!("auto({tool})"),
        rel_in_foreign_cwd: w.cwd_ne_root,
        damaged: false,
    });
    if undo && !w.store_damaged {
        // "so an edit can always be undone": straight back to the pre-tool tree
        let idx = w.cps.len() - 1;
        let ev = catch(|| w.rig.rewind(&id)).unwrap_or_default();
        let ok = !Seen::of(&ev).rewound.is_empty();
        let after = w.sb.ws();
        rep.class("undo");
        let _ = idx;
        if files_of(&after) != files_of(&pre) {
            rep.fail(
                format!("auto_checkpoint|{region}|undo_did_not_restore_pre_tool_tree|{tool}|{cause}"),
                json!({"step": step_no, "rewind_ok": ok, "still_different": changed_files(&pre, &after),
                       "checkpoint_files": files}),
            );
        }
    }
    tool_ok
}

fn run(case: &Case) -> CaseReport {
    let mut rep = CaseReport::new();
    let cwd_class = CwdClass::parse(&case.cwd);
    let tree: Vec<(String, Vec<u8>)> = case.tree.iter().map(|(n, c)| (n.clone(), c.bytes())).collect();
    let sb = Sandbox::new("c14", &tree);
    let names: Vec<String> = case.names.clone();
    let mut w = World {
        sb: &sb,
        names: &names,
        rig: Rig::new(&sb.root),
        cps: Vec::new(),
        store_damaged: false,
        cwd_ne_root: cwd_class != CwdClass::Root,
        ex_f3_cwd: excluded(EXCLUDE_KNOWN_F3_CWD, "F3_CWD") && !case.allow_known,
        ex_f21: excluded(EXCLUDE_KNOWN_F21, "F21") && !case.allow_known,
    };
    rep.class(format!("cwd:{}", case.cwd));
    let _cwd = cwd::enter(sb.cwd_dir(cwd_class));
    let outside_before = sb.outside();

    for (step_no, step) in case.steps.iter().enumerate() {
        match step {
            Step::Checkpoint { files } => {
                let mut paths = Vec::new();
                let mut covered = BTreeMap::new();
                let mut any_rel = false;
                let mut plain = true;
                for (n, form) in files {
                    let name = name_of(&names, *n);
                    let (p, rel) = form_path(&sb, name, *form);
                    any_rel |= rel;
                    rep.class(if rel { "cp_path:relative" } else { "cp_path:absolute" });
                    paths.push(PathBuf::from(p));
                    match state(&sb, name) {
                        St::File(b) => {
                            covered.insert(name.to_string(), Some(b));
                        }
                        St::Absent => {
                            covered.insert(name.to_string(), None);
                        }
                        St::Dir => plain = false,
                    }
                }
                let foreign_rel = any_rel && w.cwd_ne_root;
                if foreign_rel && w.ex_f3_cwd {
                    rep.count("excluded_known_F3_cwd_manual_checkpoint_skipped", 1);
                    continue;
                }
                let events = catch(|| w.rig.create_checkpoint("manual", paths)).unwrap_or_default();
                let seen = Seen::of(&events);
                match seen.created.first() {
                    Some((_, id, _, _)) => {
                        rep.class("manual_checkpoint");
                        rep.class_if(covered.values().any(|v| v.is_none()), "cp_covers_missing");
                        // two checkpoints holding different bytes for one path
                        for prev in &w.cps {
                            if covered.iter().any(|(k, v)| prev.covered.get(k).map(|pv| pv != v).unwrap_or(false)) {
                                rep.class("two_checkpoints_differ_on_a_path");
                            }
                        }
                        w.cps.push(Cp {
                            id: id.clone(),
                            covered,
                            origin: "manual".into(),
                            rel_in_foreign_cwd: foreign_rel,
                            damaged: false,
                        });
                    }
                    None => {
                        rep.class("manual_checkpoint_failed");
                        if plain && !foreign_rel {
                            rep.fail(
                                "checkpoint_create|unexpected_failure|plain_files",
                                json!({"step": step_no, "error": seen.create_failed}),
                            );
                        }
                    }
                }
            }
            Step::ToolWrite { name, text, mode, undo, form } => {
                let name = name_of(&names, *name);
                let spelled = match form {
                    1 => format!("./{name}"),
                    4 => match name.split_once('/') {
                        Some((d, rest)) => format!("{d}/./{rest}"),
                        None => name.to_string(),
                    },
                    5 => match name.split_once('/') {
                        Some((d, rest)) => format!("{d}//{rest}"),
                        None => name.to_string(),
                    },
                    6 => format!("./././{name}"),
                    _ => name.to_string(),
                };
                rep.class_if(spelled != name, "tool_write_path_spelled");
                if w.ex_f21 && *mode == 0 && state(&sb, name) == St::Dir {
                    rep.count("excluded_known_F21_write_onto_directory", 1);
                    continue;
                }
                let mut args = json!({"path": spelled, "content": text});
                match mode {
                    1 => args["atomic"] = json!(false),
                    2 => args["append"] = json!(true),
                    _ => {}
                }
                let cause = match state(&sb, name) {
                    St::Dir => "target_is_directory",
                    _ if ancestor_is_file(&sb, name) => "ancestor_is_file",
                    _ => "target_is_file_or_missing",
                };
                do_tool(&mut w, "write", cause, args, *undo, &mut rep, step_no);
            }
            Step::ToolPatch { ops, undo, form } => {
                let sp = |n: &str| if *form == 1 { format!("./{n}") } else { n.to_string() };
                rep.class_if(*form == 1, "tool_patch_paths_spelled");
                let mut t = String::from("*** Begin Patch\n");
                let mut has_move = false;
                for op in ops {
                    match op {
                        POp::Add { name, text, fit } => {
                            let n = name_fit(&sb, &names, *name, false, *fit);
                            t.push_str(&format!("*** Add File: {}\n+{text}\n", sp(n)));
                        }
                        POp::Delete { name, fit } => {
                            let n = name_fit(&sb, &names, *name, true, *fit);
                            t.push_str(&format!("*** Delete File: {}\n", sp(n)));
                        }
                        POp::Update { name, new_first, move_to, fit } => {
                            let n = name_fit(&sb, &names, *name, true, *fit);
                            t.push_str(&format!("*** Update File: {}\n", sp(n)));
                            if let Some(m) = move_to {
                                let m = name_fit(&sb, &names, *m, false, *fit);
                                t.push_str(&format!("*** Move to: {}\n", sp(m)));
                                has_move = true;
                            }
                            // hunk from the file's real first line (so the op usually applies)
                            let first = match state(&sb, n) {
                                St::File(b) => String::from_utf8(b).ok().and_then(|s| {
                                    s.split('\n').next().map(|l| l.trim_end_matches('\r').to_string())
                                }),
                                _ => None,
                            };
                            match first {
                                Some(l) if !l.is_empty() => t.push_str(&format!("@@\n-{l}\n+{new_first}\n")),
                                _ => t.push_str(&format!("@@\n+{new_first}\n")),
                            }
                        }
                    }
                }
                t.push_str("*** End Patch");
                let cause = if has_move { "with_move" } else { "no_move" };
                let ok = do_tool(&mut w, "apply_patch", cause, json!({"patch": t}), *undo, &mut rep, step_no);
                rep.class_if(has_move, "patch_has_move");
                rep.class_if(has_move && ok, "patch_with_move_applied");
            }
            Step::FsWrite { name, content } => {
                let p = sb.root.join(name_of(&names, *name));
                if let Some(parent) = p.parent() {
                    let _ = std::fs::create_dir_all(parent);
                }
                let _ = std::fs::write(&p, content.bytes());
            }
            Step::FsDelete { name } => {
                let _ = std::fs::remove_file(sb.root.join(name_of(&names, *name)));
            }
            Step::FsMkdirOver { name } => {
                let p = sb.root.join(name_of(&names, *name));
                let _ = std::fs::remove_file(&p);
                let _ = std::fs::create_dir_all(&p);
                rep.class("edit:dir_where_file_was");
            }
            Step::FsFileOverDir { name } => {
                let n = name_of(&names, *name);
                if let Some((dir, _)) = n.split_once('/') {
                    let p = sb.root.join(dir);
                    let _ = std::fs::remove_dir_all(&p);
                    let _ = std::fs::remove_file(&p);
                    let _ = std::fs::write(&p, b"now a file\n");
                    rep.class("edit:file_where_dir_was");
                }
            }
            Step::FsRemoveDir { name } => {
                let n = name_of(&names, *name);
                if let Some((dir, _)) = n.split_once('/') {
                    let _ = std::fs::remove_dir_all(sb.root.join(dir));
                    rep.class("edit:dir_removed");
                }
            }
            Step::FsChurn { content } => {
                for (k, n) in names.iter().enumerate() {
                    let p = sb.root.join(n);
                    if let Some(parent) = p.parent() {
                        let _ = std::fs::create_dir_all(parent);
                    }
                    let mut b = content.bytes();
                    b.extend_from_slice(format!("churn{k}\n").as_bytes());
                    let _ = std::fs::write(&p, b);
                }
                rep.class("edit:churn");
            }
            Step::Rewind { which } => {
                let idx = if w.cps.is_empty() { None } else { Some(pick(*which, w.cps.len())) };
                do_rewind(&mut w, idx, "", &mut rep, step_no);
            }
        }
    }

    for (which, kind, at) in &case.tail {
        let step_no = case.steps.len();
        if w.cps.is_empty() {
            break;
        }
        {
            {
                let idx = pick(*which, w.cps.len());
                let dir = store_dir(&sb.root).join(&w.cps[idx].id);
                let meta = dir.join("checkpoint.json");
                let mut fault = "";
                match kind {
                    0 => {
                        let blobs: Vec<String> = w.cps[idx]
                            .covered
                            .iter()
                            .filter(|(_, v)| v.is_some())
                            .map(|(k, _)| k.clone())
                            .collect();
                        if !blobs.is_empty() {
                            let b = &blobs[pick(*at, blobs.len())];
                            if std::fs::remove_file(dir.join("files").join(b)).is_ok() {
                                fault = "blob_deleted";
                            }
                        }
                    }
                    1 => {
                        if std::fs::remove_file(&meta).is_ok() {
                            fault = "metadata_deleted";
                        }
                    }
                    2 => {
                        if let Ok(b) = std::fs::read(&meta) {
                            if !b.is_empty() {
                                let cut = pick(*at, b.len());
                                let _ = std::fs::write(&meta, &b[..cut]);
                                fault = "metadata_truncated";
                                w.store_damaged = true;
                            }
                        }
                    }
                    3 => {
                        let _ = std::fs::write(&meta, b"{not json");
                        fault = "metadata_garbage";
                        w.store_damaged = true;
                    }
                    4 => {
                        let _ = std::fs::write(&meta, b"");
                        fault = "metadata_empty";
                        w.store_damaged = true;
                    }
                    5 => {
                        let _ = std::fs::write(&meta, b"[]");
                        fault = "metadata_wrong_shape";
                        w.store_damaged = true;
                    }
                    _ => {
                        if std::fs::remove_dir_all(dir.join("files")).is_ok() {
                            fault = "files_dir_deleted";
                        }
                    }
                }
                if fault.is_empty() {
                    continue;
                }
                w.cps[idx].damaged = true;
                rep.class(format!("fault:{fault}"));
                do_rewind(&mut w, Some(idx), fault, &mut rep, step_no);
            }
        }
    }

    rep.class(match w.cps.len() {
        0 => "checkpoints:0",
        1 => "checkpoints:1",
        2..=3 => "checkpoints:2-3",
        _ => "checkpoints:4+",
    });
    // nothing in this property's histories may touch the world outside the root either
    let outside_after = sb.outside();
    if outside_after != outside_before {
        rep.fail(
            format!("history|outside_modified|cwd_{}", case.cwd),
            json!({"diff": rv::tree::diff(&outside_before, &outside_after)}),
        );
    }
    rep
}

fn main() {
    let mut check = Check::new("C14", "exploration");
    if let Some(p) = check.args.replay.clone() {
        if let Ok(abs) = std::fs::canonicalize(&p) {
            check.args.replay = Some(abs);
        }
    }
    cwd::init_neutral();
    check.assume("a checkpoint covers the files named in the request (manual) / listed in the checkpoint_created frame (automatic); their checkpoint-time state is read by the harness relative to the workspace root, as the docs describe");
    check.assume("ripd::checkpoints::WorkspaceCheckpointHook is private to ripd; the harness uses a line-for-line equivalent built from rip_tools::CheckpointHook + rip_workspace::Workspace");
    check.note(format!(
        "excluded by construction (counted in counters.excluded_known_*): F3_CWD={} F21={}",
        excluded(EXCLUDE_KNOWN_F3_CWD, "F3_CWD"),
        excluded(EXCLUDE_KNOWN_F21, "F21")
    ));
    check.assume("files only: directories created or left empty by a rewind (or by its undo) are not counted as workspace changes");
    check.assume("a rewind may fail (leaving every file as it was) when a covered path is currently a directory or has a regular file as an ancestor, or when the store was damaged by a generated fault (any damaged checkpoint.json makes the session's listing fail); otherwise it must succeed");
    check.assume("store faults are the listed kinds (blob deleted, files/ deleted, checkpoint.json deleted / truncated / garbage / empty / wrong shape); silently altered blob bytes are not generated");
    check.assume("no pre-existing symlinks; checkpoint paths carry no trailing slash and no '..' (those are C13's domain)");
    check.assume(format!(
        "process cwd is per case: {}",
        if cwd::per_thread_supported() {
            "each shard thread detaches its fs attributes with unshare(CLONE_FS), so chdir is thread-private"
        } else {
            "unshare(CLONE_FS) unavailable: one shard, process-wide chdir per case"
        }
    ));
    let rule = "tree over an 11-name pool (existing/missing/nested) x cwd in {root, outer, elsewhere} x 2..14 steps of {manual checkpoint over 1-4 names given relative / ./relative / absolute-inside, write tool, apply_patch add/update/move/delete, direct write/delete/rm -r, dir-over-file, file-over-dir, churn of every name, rewind to any earlier checkpoint, store fault + rewind}; non-trivial = some rewind faced >=1 covered file modified and >=1 covered-missing file created, or cwd != root with a relatively named checkpoint file";
    let n = check.cases(12_000, 300_000);
    check.group(
        "histories",
        rule,
        GroupOpts { cases: n, threads: cwd::threads(), ..Default::default() },
        case_strategy,
        run,
    );
    check.finish();
}
