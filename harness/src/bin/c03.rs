//! C03 — replay fidelity: live frames, log, sidecar and snapshot are the same frames; any frame
//! survives a write/read round trip field for field and keeps its stream.
//!
//! Group `roundtrip` (inputs): a generated expected wire object W (gen::frame, independent of the
//! serde derive) -> Event -> text -> Event; through EventLog::append/replay(+replay_stream) and
//! write_snapshot/read_snapshot/verify_snapshot.
//! Group `four_way` (continuity histories): broadcast subscriber == raw log == full sidecar ==
//! replay_events == replay_stream, per thread, after every operation and at the end.
//! Group `four_way_sessions`: SSE subscriber (opened before the input is sent) == raw log ==
//! snapshot (raw + read_snapshot) == replay_stream; verify_snapshot Ok.

use std::collections::{BTreeMap, BTreeSet};
use std::path::Path;
use std::sync::atomic::{AtomicU64, Ordering};
use std::sync::OnceLock;
use std::time::{Duration, Instant};

use axum::body::{Body, BodyDataStream};
use axum::http::{Method, Request, StatusCode};
use axum::Router;
use futures_util::StreamExt;
use proptest::prelude::*;
use rip_kernel::{Event, StreamKind};
use rip_log::{read_snapshot, verify_snapshot, write_snapshot, EventLog};
use rv::engine::runner::catch;
use rv::engine::scratch::Scratch;
use rv::engine::{pick, CaseReport, Check, GroupOpts};
use rv::gen::frame::{kinds, wire_frame, wire_frame_of, FrameOpts, KindSpec, F};
use rv::gen::json::{deep, depth_of, JsonOpts};
use rv::gen::text::text;
use rv::provider::{partition, sse_done, sse_json, Provider, Reply};
use rv::runs::{provider_config, runtime, Authority};
use rv::store::{ops_strategy, Interp, Op, OpWeights, Sandbox};
use serde::{Deserialize, Serialize};
use serde_json::{json, Value};
use tower::ServiceExt;

// ---------------------------------------------------------------------------------------------
// known findings, excluded by construction
// ---------------------------------------------------------------------------------------------

/// serde_json refuses the 128th nested container when parsing text, but serialises any depth: a
/// frame whose line nests >= 128 containers (envelope object + payload) is written and can never
/// be read back (`EventLog::replay` fails for the whole log); one level earlier the snapshot
/// (frames wrapped in an array) is unreadable. Generated depths are capped at the last depth that
/// still parses (counted as `excluded_known_depth*`). The pinned reproducers (`allow_known`) run
/// uncapped when the finding is registered in known_findings.json or replayed with `--replay`.
const EXCLUDE_KNOWN_DEPTH: bool = true;
const SIG_DEPTH: &str = "roundtrip|depth_limit|unparseable_after_write";
/// deepest container nesting serde_json parses from text (recursion limit 128)
const JSON_MAX_NESTING: usize = 127;

/// serde_json is built without `float_roundtrip`: for ~10 % of doubles the shortest text written
/// for an f64 re-parses to a neighbouring f64 (1 ulp), so the frame read back differs from the
/// frame written. Generated float leaves in that region are replaced by the nearest text/parse
/// fixpoint (counted as `excluded_known_float`); pinned reproducers run them unchanged.
const EXCLUDE_KNOWN_FLOAT: bool = false;
const SIG_FLOAT: &str = "roundtrip|float|text_reparse_differs";

#[derive(Debug, Clone, Copy)]
struct Allow {
    /// known_findings.json lists SIG_DEPTH, or the case is replayed explicitly
    depth: bool,
    float: bool,
}

impl Allow {
    fn for_case(self, allow_known: bool) -> Allow {
        Allow {
            depth: !EXCLUDE_KNOWN_DEPTH || (allow_known && self.depth),
            float: !EXCLUDE_KNOWN_FLOAT || (allow_known && self.float),
        }
    }
}

// ---------------------------------------------------------------------------------------------
// frame table helpers (from gen::frame::kinds(), the independent expectation)
// ---------------------------------------------------------------------------------------------

fn specs() -> &'static Vec<KindSpec> {
    static S: OnceLock<Vec<KindSpec>> = OnceLock::new();
    S.get_or_init(kinds)
}

fn spec_index(tag: &str) -> Option<usize> {
    specs().iter().position(|k| k.tag == tag)
}

static TAG_COUNTS: [AtomicU64; 64] = [const { AtomicU64::new(0) }; 64];

fn is_stringy(f: &F) -> bool {
    match f {
        F::S | F::Short | F::Chunk => true,
        F::OptNull(i) | F::OptSkip(i) => is_stringy(i),
        _ => false,
    }
}

fn is_jsony(f: &F) -> bool {
    match f {
        F::J | F::JNonNull | F::JArtifacts => true,
        F::OptNull(i) | F::OptSkip(i) => is_jsony(i),
        _ => false,
    }
}

fn string_slots(k: &KindSpec) -> Vec<&'static str> {
    k.fields.iter().filter(|(_, f)| is_stringy(f)).map(|(n, _)| *n).collect()
}

#[derive(Debug, Clone, Copy, PartialEq)]
enum DeepSlot {
    /// a JSON-valued payload field: the value sits one level below the envelope object
    Top(&'static str),
    /// `resets[0].ref` of continuity_context_selection_decided: three levels below
    ResetRef,
}

impl DeepSlot {
    fn levels(self) -> usize {
        match self {
            DeepSlot::Top(_) => 1,
            DeepSlot::ResetRef => 3,
        }
    }
    fn name(self) -> String {
        match self {
            DeepSlot::Top(n) => n.to_string(),
            DeepSlot::ResetRef => "resets[0].ref".to_string(),
        }
    }
}

fn deep_slots(k: &KindSpec) -> Vec<DeepSlot> {
    let mut out: Vec<DeepSlot> = k
        .fields
        .iter()
        .filter(|(_, f)| is_jsony(f))
        .map(|(n, _)| DeepSlot::Top(n))
        .collect();
    if k.fields.iter().any(|(n, _)| *n == "resets") {
        out.push(DeepSlot::ResetRef);
    }
    out
}

fn stream_wire(k: StreamKind) -> &'static str {
    match k {
        StreamKind::Session => "session",
        StreamKind::Task => "task",
        StreamKind::Continuity => "continuity",
        StreamKind::Artifact => "artifact",
    }
}

// ---------------------------------------------------------------------------------------------
// value comparison
// ---------------------------------------------------------------------------------------------

#[derive(Debug)]
struct Diff {
    path: String,
    /// missing (in left, not in right) / extra (in right only) / changed
    kind: &'static str,
    left: String,
    right: String,
    float_leaf: bool,
}

fn excerpt(v: &Value) -> String {
    let s = v.to_string();
    if s.len() <= 160 {
        s
    } else {
        let mut cut = 160;
        while !s.is_char_boundary(cut) {
            cut -= 1;
        }
        format!("{}… ({} bytes)", &s[..cut], s.len())
    }
}

fn first_diff(l: &Value, r: &Value, path: &str) -> Option<Diff> {
    if l == r {
        return None;
    }
    match (l, r) {
        (Value::Object(a), Value::Object(b)) => {
            for (k, va) in a {
                match b.get(k) {
                    None => {
                        return Some(Diff { path: format!("{path}/{k}"), kind: "missing", left: excerpt(va), right: String::new(), float_leaf: false })
                    }
                    Some(vb) => {
                        if let Some(d) = first_diff(va, vb, &format!("{path}/{k}")) {
                            return Some(d);
                        }
                    }
                }
            }
            for (k, vb) in b {
                if !a.contains_key(k) {
                    return Some(Diff { path: format!("{path}/{k}"), kind: "extra", left: String::new(), right: excerpt(vb), float_leaf: false });
                }
            }
            None
        }
        (Value::Array(a), Value::Array(b)) => {
            for (i, (va, vb)) in a.iter().zip(b.iter()).enumerate() {
                if let Some(d) = first_diff(va, vb, &format!("{path}/{i}")) {
                    return Some(d);
                }
            }
            if a.len() > b.len() {
                Some(Diff { path: format!("{path}/{}", b.len()), kind: "missing", left: excerpt(&a[b.len()]), right: String::new(), float_leaf: false })
            } else {
                Some(Diff { path: format!("{path}/{}", a.len()), kind: "extra", left: String::new(), right: excerpt(&b[a.len()]), float_leaf: false })
            }
        }
        _ => Some(Diff {
            path: path.to_string(),
            kind: "changed",
            left: excerpt(l),
            right: excerpt(r),
            float_leaf: l.is_f64() && r.is_f64(),
        }),
    }
}

fn top_field(path: &str) -> &str {
    path.trim_start_matches('/').split('/').next().unwrap_or("")
}

/// first difference between two frame sequences: (index, kind, detail)
fn seq_diff(left: &[Value], right: &[Value]) -> Option<(usize, &'static str, Value)> {
    for (i, (a, b)) in left.iter().zip(right.iter()).enumerate() {
        if let Some(d) = first_diff(a, b, "") {
            return Some((i, "changed", json!({"index": i, "path": d.path, "field_diff": d.kind, "left": d.left, "right": d.right,
                "left_type": a["type"], "right_type": b["type"], "left_seq": a["seq"], "right_seq": b["seq"]})));
        }
    }
    if left.len() > right.len() {
        let i = right.len();
        return Some((i, "left_longer", json!({"index": i, "left_len": left.len(), "right_len": right.len(), "frame_only_left": excerpt(&left[i])})));
    }
    if right.len() > left.len() {
        let i = left.len();
        return Some((i, "right_longer", json!({"index": i, "left_len": left.len(), "right_len": right.len(), "frame_only_right": excerpt(&right[i])})));
    }
    None
}

/// left = an observed channel, right = the raw log
fn vs_log(kind: &str) -> &'static str {
    match kind {
        "left_longer" => "frame_not_in_log",
        "right_longer" => "frame_missing",
        _ => "changed",
    }
}

/// left = written, right = read back
fn read_back(kind: &str) -> &'static str {
    match kind {
        "left_longer" => "frame_lost",
        "right_longer" => "frame_added",
        _ => "changed",
    }
}

fn is_recursion_err(msg: &str) -> bool {
    msg.contains("recursion limit exceeded")
}

// ---------------------------------------------------------------------------------------------
// floats
// ---------------------------------------------------------------------------------------------

fn float_reparse(f: f64) -> Option<f64> {
    let t = serde_json::to_string(&f).ok()?;
    serde_json::from_str::<f64>(&t).ok()
}

fn float_is_fixpoint(f: f64) -> bool {
    float_reparse(f).map(|b| b.to_bits() == f.to_bits()).unwrap_or(false)
}

/// nearest value that survives text -> parse with this serde_json build
fn float_fixpoint(f: f64) -> f64 {
    let mut x = f;
    for _ in 0..6 {
        match float_reparse(x) {
            Some(b) if b.to_bits() == x.to_bits() => return x,
            Some(b) => x = b,
            None => return 0.5,
        }
    }
    0.5
}

/// (float leaves, leaves replaced)
fn sanitize_floats(v: &mut Value, replace: bool) -> (u64, u64) {
    match v {
        Value::Number(n) if n.is_f64() => {
            let f = n.as_f64().unwrap_or(0.0);
            if float_is_fixpoint(f) {
                (1, 0)
            } else if replace {
                let g = float_fixpoint(f);
                *v = serde_json::Number::from_f64(g).map(Value::Number).unwrap_or(Value::from(0));
                (1, 1)
            } else {
                (1, 0)
            }
        }
        Value::Array(a) => a.iter_mut().fold((0, 0), |acc, x| {
            let r = sanitize_floats(x, replace);
            (acc.0 + r.0, acc.1 + r.1)
        }),
        Value::Object(m) => m.values_mut().fold((0, 0), |acc, x| {
            let r = sanitize_floats(x, replace);
            (acc.0 + r.0, acc.1 + r.1)
        }),
        _ => (0, 0),
    }
}

// ---------------------------------------------------------------------------------------------
// group 1: roundtrip
// ---------------------------------------------------------------------------------------------

#[derive(Debug, Clone, Serialize, Deserialize, PartialEq)]
#[serde(rename_all = "snake_case")]
enum Patch {
    None,
    /// a string-valued payload field := `unit` repeated up to `bytes` bytes, then `tail`
    Big { slot: u16, unit: String, bytes: usize, tail: String },
    /// a JSON-valued payload field := a value nested exactly `depth` deep
    Deep { slot: u16, depth: usize, object: bool },
    /// a JSON-valued payload field := {"f":[…]} with these exact doubles (bit patterns, so that a
    /// replay file reproduces them exactly)
    Floats { slot: u16, bits: Vec<u64> },
}

#[derive(Debug, Clone, Serialize, Deserialize)]
struct FrameCase {
    wire: Value,
    patch: Patch,
}

#[derive(Debug, Clone, Serialize, Deserialize)]
struct RtCase {
    frames: Vec<FrameCase>,
    /// rewrite seqs to 0,1,2… per stream so that replay_validated/replay_stream/verify_snapshot apply
    renumber: bool,
    #[serde(default)]
    allow_known: bool,
}

fn rich_opts(big: bool) -> FrameOpts {
    FrameOpts {
        big_chunks: big,
        json: JsonOpts { depth: 4, floats: true, max_len: 4 },
    }
}

fn float_bits_s() -> BoxedStrategy<u64> {
    prop_oneof![
        4 => any::<f64>().prop_filter("finite", |f| f.is_finite()).prop_map(|f| f.to_bits()),
        3 => (0.0f64..1.0).prop_map(|f| f.to_bits()),
        2 => (-1000.0f64..1000.0).prop_map(|f| f.to_bits()),
        1 => (1e6f64..1e12).prop_map(|f| f.to_bits()),
        1 => prop::sample::select(vec![0.0f64, -0.0, 0.1, 0.30000000000000004, f64::MAX, f64::MIN_POSITIVE, 5e-324, 1e22, 1e23, 9007199254740993.0, 1.0, -1.5])
            .prop_map(|f| f.to_bits()),
    ]
    .boxed()
}

fn frame_case_strategy() -> BoxedStrategy<FrameCase> {
    let sp = specs();
    let plain = |w: Value| FrameCase { wire: w, patch: Patch::None };
    let big_kinds: Vec<BoxedStrategy<Value>> = sp
        .iter()
        .filter(|k| !string_slots(k).is_empty())
        .map(|k| wire_frame_of(k, FrameOpts::default()))
        .collect();
    let deep_kinds = || -> Vec<BoxedStrategy<Value>> {
        sp.iter()
            .filter(|k| !deep_slots(k).is_empty())
            .map(|k| wire_frame_of(k, FrameOpts::default()))
            .collect()
    };
    let big = (
        proptest::strategy::Union::new(big_kinds),
        any::<u16>(),
        prop::sample::select(vec!["a", "é", "€", "😀", "x\u{301}", "\\", "\"", "\n", "\u{0}", "ab cd "]),
        prop_oneof![2 => 65_536usize..262_144, 1 => 262_144usize..=1_048_576],
        text(6),
    )
        .prop_map(|(wire, slot, unit, bytes, tail)| FrameCase { wire, patch: Patch::Big { slot, unit: unit.to_string(), bytes, tail } });
    let deep_s = (
        proptest::strategy::Union::new(deep_kinds()),
        any::<u16>(),
        prop_oneof![3 => 100usize..=135, 2 => 120usize..=128],
        any::<bool>(),
    )
        .prop_map(|(wire, slot, depth, object)| FrameCase { wire, patch: Patch::Deep { slot, depth, object } });
    let floats = (
        proptest::strategy::Union::new(deep_kinds()),
        any::<u16>(),
        proptest::collection::vec(float_bits_s(), 1..6),
    )
        .prop_map(|(wire, slot, bits)| FrameCase { wire, patch: Patch::Floats { slot, bits } });
    prop_oneof![
        58 => wire_frame(rich_opts(false)).prop_map(plain),
        22 => wire_frame(rich_opts(true)).prop_map(plain),
        4 => big,
        9 => deep_s,
        7 => floats,
    ]
    .boxed()
}

fn rt_case_strategy() -> BoxedStrategy<RtCase> {
    (proptest::collection::vec(frame_case_strategy(), 1..=5), any::<bool>())
        .prop_map(|(frames, renumber)| RtCase { frames, renumber, allow_known: false })
        .boxed()
}

struct Expanded {
    wire: Value,
    tag: String,
    /// container nesting of the whole line (envelope object included)
    nest: usize,
}

fn apply_deep(w: &mut Value, slot: DeepSlot, v: Value) {
    match slot {
        DeepSlot::Top(name) => w[name] = v,
        DeepSlot::ResetRef => w["resets"] = json!([{ "input": "i", "action": "a", "reason": "r", "ref": v }]),
    }
}

fn expand(fc: &FrameCase, allow: Allow, rep: &mut CaseReport) -> Expanded {
    let mut w = fc.wire.clone();
    let tag = w["type"].as_str().unwrap_or("").to_string();
    let spec = spec_index(&tag).map(|i| &specs()[i]);
    match (&fc.patch, spec) {
        (Patch::Big { slot, unit, bytes, tail }, Some(k)) => {
            let slots = string_slots(k);
            if !slots.is_empty() && !unit.is_empty() {
                let name = slots[pick(*slot, slots.len())];
                let mut s = String::with_capacity(*bytes + tail.len() + 8);
                while s.len() + unit.len() <= *bytes {
                    s.push_str(unit);
                }
                s.push_str(tail);
                rep.class(if s.len() < 262_144 { "big_string:64k-256k" } else { "big_string:256k-1m" });
                rep.class(format!("big_unit:{}", unit.escape_default()));
                w[name] = Value::String(s);
            }
        }
        (Patch::Deep { slot, depth, object }, Some(k)) => {
            let slots = deep_slots(k);
            if !slots.is_empty() {
                let s = slots[pick(*slot, slots.len())];
                let cap = JSON_MAX_NESTING - s.levels();
                let d = if allow.depth { *depth } else { (*depth).min(cap) };
                if d != *depth {
                    rep.count("excluded_known_depth", 1);
                    rep.class("excluded:depth_capped");
                }
                rep.class(if d == cap { "deep:at_cap" } else if d < cap { "deep:below_cap" } else { "deep:over_cap" });
                rep.class(format!("deep_slot:{}.{}", k.tag, s.name()));
                apply_deep(&mut w, s, deep(d, *object));
            }
        }
        (Patch::Floats { slot, bits }, Some(k)) => {
            let slots = deep_slots(k);
            if !slots.is_empty() {
                let s = slots[pick(*slot, slots.len())];
                let vals: Vec<Value> = bits
                    .iter()
                    .filter_map(|b| serde_json::Number::from_f64(f64::from_bits(*b)).map(Value::Number))
                    .collect();
                rep.class("float_patch");
                apply_deep(&mut w, s, json!({ "f": vals }));
            }
        }
        _ => {}
    }
    let (leaves, replaced) = sanitize_floats(&mut w, !allow.float);
    if leaves > 0 {
        rep.class("float_present");
        rep.count("float_leaves", leaves);
    }
    if replaced > 0 {
        rep.count("excluded_known_float", replaced);
        rep.class("excluded:float_replaced");
    }
    let nest = depth_of(&w);
    Expanded { wire: w, tag, nest }
}

/// optional-field mix and payload depth of one frame, from the table
fn classify_frame(x: &Expanded, rep: &mut CaseReport) -> bool {
    let Some(i) = spec_index(&x.tag) else { return false };
    TAG_COUNTS[i.min(63)].fetch_add(1, Ordering::Relaxed);
    rep.class(format!("tag:{}", x.tag));
    let k = &specs()[i];
    let (mut present, mut absent) = (0, 0);
    let mut payload_depth = 0;
    for (name, f) in &k.fields {
        let v = x.wire.get(*name);
        match f {
            F::OptNull(_) => {
                if v.map(|v| !v.is_null()).unwrap_or(false) {
                    present += 1
                } else {
                    absent += 1
                }
            }
            F::OptSkip(_) | F::VecSkip(_) => {
                if v.is_some() {
                    present += 1
                } else {
                    absent += 1
                }
            }
            _ => {}
        }
        if let Some(v) = v {
            payload_depth = payload_depth.max(depth_of(v));
            if let Value::Array(a) = v {
                rep.class_if(a.is_empty(), "empty_collection");
            }
        }
    }
    rep.class(match (present, absent) {
        (0, 0) => "opt:none_defined",
        (_, 0) => "opt:all_present",
        (0, _) => "opt:all_absent",
        _ => "opt:mixed",
    });
    rep.class(match payload_depth {
        0 => "depth:0",
        1..=2 => "depth:1-2",
        3..=5 => "depth:3-5",
        6..=99 => "depth:6-99",
        _ => "depth:100+",
    });
    (present > 0 && absent > 0) || payload_depth >= 3
}

struct Checked {
    event: Event,
    value: Value,
    text: String,
    nest: usize,
}

/// In-memory oracles (i)(ii)(iii) for one frame. None = the frame cannot be used further.
fn check_frame(x: &Expanded, idx: usize, rep: &mut CaseReport) -> Option<Checked> {
    let w = &x.wire;
    let tag = x.tag.as_str();
    let e: Event = match catch(|| serde_json::from_value::<Event>(w.clone())) {
        Ok(Ok(e)) => e,
        Ok(Err(err)) => {
            rep.fail(format!("roundtrip|from_wire|rejected|{tag}"), json!({"frame": idx, "error": err.to_string(), "wire": excerpt(w)}));
            return None;
        }
        Err(p) => {
            rep.fail(format!("roundtrip|from_wire|panic|{tag}"), json!({"frame": idx, "panic": p}));
            return None;
        }
    };
    let ve = match serde_json::to_value(&e) {
        Ok(v) => v,
        Err(err) => {
            rep.fail(format!("roundtrip|to_value|error|{tag}"), json!({"frame": idx, "error": err.to_string()}));
            return None;
        }
    };
    // (ii) independent expected wire object
    if let Some(d) = first_diff(w, &ve, "") {
        rep.fail(
            format!("roundtrip|wire_object|{tag}.{}|{}", top_field(&d.path), d.kind),
            json!({"frame": idx, "path": d.path, "expected": d.left, "serialized": d.right}),
        );
    }
    // (iii) stream assignment, three independent sources
    let table = spec_index(tag).map(|i| specs()[i].stream.wire());
    let kind = stream_wire(e.stream_kind());
    if Some(kind) != table || Some(kind) != w["stream_kind"].as_str() {
        rep.fail(
            format!("roundtrip|stream|kind_misassigned|{tag}"),
            json!({"frame": idx, "stream_kind()": kind, "table": table, "wire": w["stream_kind"]}),
        );
    }
    if Some(e.stream_id()) != w["stream_id"].as_str() || ve["stream_id"] != w["stream_id"] || ve["session_id"] != w["session_id"] {
        rep.fail(
            format!("roundtrip|stream|id_misassigned|{tag}"),
            json!({"frame": idx, "stream_id()": e.stream_id(), "wire_stream_id": w["stream_id"], "serialized_stream_id": ve["stream_id"], "serialized_session_id": ve["session_id"]}),
        );
    }
    let text = match serde_json::to_string(&e) {
        Ok(t) => t,
        Err(err) => {
            rep.fail(format!("roundtrip|to_string|error|{tag}"), json!({"frame": idx, "error": err.to_string()}));
            return None;
        }
    };
    if text.contains('\n') || text.contains('\r') {
        rep.fail(format!("roundtrip|text|line_break_in_line|{tag}"), json!({"frame": idx}));
    }
    // (i) text round trip
    match serde_json::from_str::<Event>(&text) {
        Err(err) => {
            let msg = err.to_string();
            if is_recursion_err(&msg) {
                rep.fail(
                    format!("{SIG_DEPTH}|line"),
                    json!({"frame": idx, "type": tag, "line_nesting": x.nest, "error": msg, "line_bytes": text.len()}),
                );
            } else {
                rep.fail(format!("roundtrip|parse_back|rejected|{tag}"), json!({"frame": idx, "error": msg, "text": excerpt(&Value::String(text.clone()))}));
            }
            return None;
        }
        Ok(back) => {
            let vb = serde_json::to_value(&back).unwrap_or(Value::Null);
            if let Some(d) = first_diff(&ve, &vb, "") {
                if d.float_leaf {
                    rep.fail(format!("{SIG_FLOAT}|line"), json!({"frame": idx, "type": tag, "path": d.path, "written": d.left, "read_back": d.right}));
                } else {
                    rep.fail(
                        format!("roundtrip|text|value_changed|{tag}.{}|{}", top_field(&d.path), d.kind),
                        json!({"frame": idx, "path": d.path, "written": d.left, "read_back": d.right}),
                    );
                }
            } else {
                let text2 = serde_json::to_string(&back).unwrap_or_default();
                if text2 != text {
                    rep.fail(format!("roundtrip|text|rewrite_not_identical|{tag}"), json!({"frame": idx, "first": excerpt(&Value::String(text.clone())), "second": excerpt(&Value::String(text2))}));
                }
            }
            if back.stream_kind() != e.stream_kind() || back.stream_id() != e.stream_id() {
                rep.fail(
                    format!("roundtrip|stream|changed_after_read|{tag}"),
                    json!({"frame": idx, "before": [stream_wire(e.stream_kind()), e.stream_id()], "after": [stream_wire(back.stream_kind()), back.stream_id()]}),
                );
            }
        }
    }
    Some(Checked { event: e, value: ve, text, nest: x.nest })
}

fn io_fail(rep: &mut CaseReport, what: &str, err: &std::io::Error, detail: Value) {
    let msg = err.to_string();
    if is_recursion_err(&msg) {
        rep.fail(format!("{SIG_DEPTH}|{what}"), json!({"error": msg, "detail": detail}));
    } else {
        rep.fail(format!("roundtrip|{what}|error"), json!({"error": msg, "detail": detail}));
    }
}

fn events_to_values(evs: &[Event]) -> Vec<Value> {
    evs.iter().map(|e| serde_json::to_value(e).unwrap_or(Value::Null)).collect()
}

/// values read back vs values written; float-only differences get the float signature
fn compare_read_back(rep: &mut CaseReport, what: &str, written: &[Value], read: &[Value]) {
    if let Some((i, kind, detail)) = seq_diff(written, read) {
        let float_only = kind == "changed"
            && written.get(i).zip(read.get(i)).and_then(|(a, b)| first_diff(a, b, "")).map(|d| d.float_leaf).unwrap_or(false);
        if float_only {
            rep.fail(format!("{SIG_FLOAT}|{what}"), detail);
        } else {
            rep.fail(format!("roundtrip|{what}|{}", read_back(kind)), detail);
        }
    }
}

fn run_roundtrip(case: &RtCase, allow: Allow) -> CaseReport {
    let mut rep = CaseReport::new();
    let allow = allow.for_case(case.allow_known);
    let mut xs: Vec<Expanded> = case.frames.iter().map(|fc| expand(fc, allow, &mut rep)).collect();
    if case.renumber {
        rep.class("renumbered");
        let mut next: BTreeMap<(String, String), u64> = BTreeMap::new();
        for x in xs.iter_mut() {
            let key = (x.wire["stream_kind"].as_str().unwrap_or("").to_string(), x.wire["stream_id"].as_str().unwrap_or("").to_string());
            let n = next.entry(key).or_insert(0);
            x.wire["seq"] = Value::from(*n);
            *n += 1;
        }
        rep.class_if(next.values().any(|n| *n > 1), "multi_frame_stream");
    }
    let mut nontrivial = false;
    for x in &xs {
        nontrivial |= classify_frame(x, &mut rep);
    }
    rep.nontrivial = nontrivial;
    rep.count("frames", xs.len() as u64);

    let mut checked: Vec<Checked> = Vec::new();
    for (i, x) in xs.iter().enumerate() {
        match check_frame(x, i, &mut rep) {
            Some(c) => checked.push(c),
            None => {
                // an unreadable line would poison the file oracles below; they are only
                // meaningful for frames that passed the in-memory round trip
                if !allow.depth {
                    return rep;
                }
            }
        }
    }
    if checked.is_empty() {
        return rep;
    }

    // (iv) real file paths -------------------------------------------------------------------
    let scratch = Scratch::new("c03rt");
    let log_path = scratch.join("events.jsonl");
    let log = match EventLog::new(&log_path) {
        Ok(l) => l,
        Err(_) => {
            rep.inconclusive("scratch_log_open");
            return rep;
        }
    };
    for (i, c) in checked.iter().enumerate() {
        if let Err(err) = log.append(&c.event) {
            io_fail(&mut rep, "log_append", &err, json!({"frame": i}));
            return rep;
        }
    }
    let mut expected_bytes: Vec<u8> = Vec::new();
    for c in &checked {
        expected_bytes.extend_from_slice(c.text.as_bytes());
        expected_bytes.push(b'\n');
    }
    let file_bytes = std::fs::read(&log_path).unwrap_or_default();
    if file_bytes != expected_bytes {
        rep.fail("roundtrip|log_file|bytes_differ", json!({"file_len": file_bytes.len(), "expected_len": expected_bytes.len()}));
    }
    let written: Vec<Value> = checked.iter().map(|c| c.value.clone()).collect();
    // a reader that opens the file afresh (what a restart does)
    let reader = EventLog::new(&log_path).ok();
    let reader = reader.as_ref().unwrap_or(&log);
    match reader.replay() {
        Ok(evs) => compare_read_back(&mut rep, "log_replay", &written, &events_to_values(&evs)),
        Err(err) => io_fail(&mut rep, "log_replay", &err, json!({"frames": checked.len()})),
    }

    // snapshot: frames wrapped in an array, one more level of nesting
    let snap_set: Vec<&Checked> = checked.iter().filter(|c| allow.depth || c.nest + 1 <= JSON_MAX_NESTING).collect();
    let skipped = checked.len() - snap_set.len();
    if skipped > 0 {
        rep.count("excluded_known_depth_snapshot", skipped as u64);
        rep.class("excluded:depth_snapshot_skipped");
    }
    let snap_dir = scratch.join("snapshots");
    if !snap_set.is_empty() {
        let evs: Vec<Event> = snap_set.iter().map(|c| c.event.clone()).collect();
        let vals: Vec<Value> = snap_set.iter().map(|c| c.value.clone()).collect();
        match write_snapshot(&snap_dir, "all", &evs) {
            Err(err) => io_fail(&mut rep, "snapshot_write", &err, json!({})),
            Ok(path) => {
                match read_snapshot(&path) {
                    Ok(back) => compare_read_back(&mut rep, "snapshot_read", &vals, &events_to_values(&back)),
                    Err(err) => io_fail(&mut rep, "snapshot_read", &err, json!({"frames": evs.len()})),
                }
                // the file itself, by an independent reader
                match std::fs::read(&path).ok().and_then(|b| serde_json::from_slice::<Value>(&b).ok()) {
                    Some(Value::Array(raw)) => {
                        compare_read_back(&mut rep, "snapshot_file", &vals, &raw);
                    }
                    Some(_) => rep.fail("roundtrip|snapshot_file|not_an_array", json!({})),
                    None => {
                        if !allow.depth {
                            rep.fail("roundtrip|snapshot_file|unparseable", json!({}));
                        }
                    }
                }
            }
        }
    }

    // per-stream reads (need a valid numbering)
    if case.renumber {
        let mut streams: BTreeMap<(String, String), Vec<&Checked>> = BTreeMap::new();
        for c in &checked {
            streams
                .entry((stream_wire(c.event.stream_kind()).to_string(), c.event.stream_id().to_string()))
                .or_default()
                .push(c);
        }
        match reader.replay_validated() {
            Ok(_) => {}
            Err(err) => io_fail(&mut rep, "log_replay_validated", &err, json!({})),
        }
        for (g, ((kind, id), members)) in streams.iter().enumerate() {
            let sk = members[0].event.stream_kind();
            let vals: Vec<Value> = members.iter().map(|c| c.value.clone()).collect();
            match reader.replay_stream(sk, id) {
                Ok(evs) => {
                    compare_read_back(&mut rep, "replay_stream", &vals, &events_to_values(&evs));
                }
                Err(err) => io_fail(&mut rep, "replay_stream", &err, json!({"stream": [kind, id]})),
            }
            if members.iter().all(|c| allow.depth || c.nest + 1 <= JSON_MAX_NESTING) {
                let evs: Vec<Event> = members.iter().map(|c| c.event.clone()).collect();
                if let Ok(path) = write_snapshot(&snap_dir, &format!("g{g}"), &evs) {
                    if let Err(err) = verify_snapshot(reader, &path) {
                        let msg = err.to_string();
                        if is_recursion_err(&msg) {
                            rep.fail(format!("{SIG_DEPTH}|verify_snapshot"), json!({"error": msg}));
                        } else if msg.starts_with("snapshot mismatch at index") && members.iter().any(|c| {
                            let mut v = c.value.clone();
                            sanitize_floats(&mut v, true).1 > 0
                        }) {
                            rep.fail(format!("{SIG_FLOAT}|verify_snapshot"), json!({"error": msg}));
                        } else {
                            rep.fail("roundtrip|verify_snapshot|rejected", json!({"stream": [kind, id], "error": msg, "frames": members.len()}));
                        }
                    }
                    rep.count("verify_snapshot_calls", 1);
                }
            }
        }
    }
    rep
}

include!("c03/histories.rs");
include!("c03/sessions.rs");
include!("c03/entry.rs");
