// ---------------------------------------------------------------------------------------------
// group `procs` (included into c18.rs): REAL processes. Contenders are the repository's own
// binaries — `ripd`, `rip serve`, and `rip threads ensure` (the CLI's auto-start / auto-attach
// loop, which spawns a detached `rip serve`) — started at generated offsets on one store, on top
// of a generated leftover of a REALLY crashed authority (a ripd that was SIGKILLed, optionally
// with its meta removed or its lock emptied / overwritten with garbage), optionally followed by
// a second wave against the live winner or after killing it.
//
// Observation: a process "holds the authority role" from the moment it owns a LISTEN socket
// (serve() binds only after it acquired the lock) until it dies. Every poll computes the set of
// listening processes whose environment names this store (from /proc); two at once = two
// authorities. At quiescence the winner must be the one lock.json and meta.json name, answer a
// ping, and every CLI contender must have exited 0. A live winner must survive a second wave
// untouched. A store that no contender could bring up is probed once more, alone, before it is
// called unusable.
// ---------------------------------------------------------------------------------------------

use std::collections::BTreeSet;
use std::os::unix::process::CommandExt;
use std::process::{Child, Command, Stdio};

#[derive(Debug, Clone, Serialize, Deserialize)]
struct ProcCase {
    /// 0 clean store, 1 crashed authority, 2 crashed + meta.json removed, 3 crashed + lock.json
    /// emptied and no meta (crash between create and write), 4 crashed + lock.json garbage and no meta
    pre: u8,
    /// (kind, start offset in ms): kind 0 `rip threads ensure`, 1 `ripd`, 2 `rip serve`
    wave1: Vec<(u8, u8)>,
    kill_between: bool,
    wave2: Vec<(u8, u8)>,
}

fn wave_s(max: usize) -> BoxedStrategy<Vec<(u8, u8)>> {
    proptest::collection::vec((prop_oneof![3 => Just(0u8), 2 => Just(1u8), 1 => Just(2u8)], prop_oneof![2 => Just(0u8), 1 => 0u8..40]), 1..max)
        .prop_map(|mut v| {
            // at least one CLI contender per wave: it is the one that reports usability
            if !v.iter().any(|(k, _)| *k == 0) {
                v[0].0 = 0;
            }
            v
        })
        .boxed()
}

fn proc_case_strategy() -> BoxedStrategy<ProcCase> {
    (prop_oneof![2 => Just(0u8), 3 => Just(1u8), 1 => Just(2u8), 1 => Just(3u8), 1 => Just(4u8)], wave_s(6), any::<bool>(), prop_oneof![1 => Just(Vec::new()), 2 => wave_s(5)])
        .prop_map(|(pre, wave1, kill_between, wave2)| ProcCase { pre, wave1, kill_between, wave2 })
        .boxed()
}

struct ProcBins {
    ripd: PathBuf,
    rip: PathBuf,
}

static PROC_BINS: std::sync::OnceLock<ProcBins> = std::sync::OnceLock::new();

struct Kid {
    child: Child,
    #[allow(dead_code)]
    kind: u8,
    exit: Option<i32>,
}

fn spawn_kid(bin: &Path, args: &[&str], env: &[(String, String)], cwd: &Path, out: &Path, kind: u8) -> Option<Kid> {
    let o = std::fs::OpenOptions::new().create(true).append(true).open(out).ok()?;
    let e = o.try_clone().ok()?;
    let mut cmd = Command::new(bin);
    cmd.args(args)
        .env_clear()
        .envs(env.iter().map(|(k, v)| (k.as_str(), v.as_str())))
        .current_dir(cwd)
        .stdin(Stdio::null())
        .stdout(Stdio::from(o))
        .stderr(Stdio::from(e));
    unsafe {
        cmd.pre_exec(|| {
            libc::prctl(libc::PR_SET_PDEATHSIG, libc::SIGKILL);
            Ok(())
        });
    }
    cmd.spawn().ok().map(|child| Kid { child, kind, exit: None })
}

/// pids whose environment names this store. `seen` caches the answer per pid (a pid is looked at
/// once: reading every environ at every poll costs more than the processes under test).
struct PidScan {
    needle: Vec<u8>,
    floor: u32,
    seen: std::collections::BTreeMap<u32, bool>,
}

impl PidScan {
    fn new(data: &Path) -> PidScan {
        PidScan { needle: format!("RIP_DATA_DIR={}", data.display()).into_bytes(), floor: 0, seen: Default::default() }
    }
    /// a scan without memory: pids are recycled (pid_max is 32768 here and a thorough run spawns
    /// tens of thousands of processes), so a cached "not ours" can belong to a dead stranger whose
    /// pid one of our servers now has. Decisions (the listeners at the end of a wave, the usability
    /// probe) are taken from a fresh scan; the cache only serves the 12 ms polls in between.
    fn fresh(&self) -> PidScan {
        PidScan { needle: self.needle.clone(), floor: 0, seen: Default::default() }
    }
    fn pids(&mut self) -> Vec<u32> {
        let mut out = Vec::new();
        let Ok(rd) = std::fs::read_dir("/proc") else { return out };
        for e in rd.flatten() {
            let Some(pid) = e.file_name().to_str().and_then(|s| s.parse::<u32>().ok()) else { continue };
            let _ = self.floor;
            let mine = match self.seen.get(&pid) {
                Some(m) => *m,
                None => {
                    // an environ that is still empty belongs to a process between fork and exec:
                    // look again next time
                    match std::fs::read(format!("/proc/{pid}/environ")) {
                        Ok(env) if !env.is_empty() => {
                            let m = env.split(|b| *b == 0).any(|kv| kv == self.needle.as_slice());
                            self.seen.insert(pid, m);
                            m
                        }
                        _ => false,
                    }
                }
            };
            if mine {
                out.push(pid);
            }
        }
        out.sort();
        out
    }
}

fn store_pids(data: &Path) -> Vec<u32> {
    PidScan::new(data).pids()
}

fn listening_inodes() -> BTreeSet<u64> {
    let mut set = BTreeSet::new();
    for f in ["/proc/net/tcp", "/proc/net/tcp6"] {
        let Ok(text) = std::fs::read_to_string(f) else { continue };
        for line in text.lines().skip(1) {
            let cols: Vec<&str> = line.split_whitespace().collect();
            if cols.len() > 9 && cols[3] == "0A" {
                if let Ok(inode) = cols[9].parse::<u64>() {
                    set.insert(inode);
                }
            }
        }
    }
    set
}

/// processes of this store that own a LISTEN socket
fn listening_pids(scan: &mut PidScan) -> Vec<u32> {
    let inodes = listening_inodes();
    let mut out = Vec::new();
    for pid in scan.pids() {
        let Ok(rd) = std::fs::read_dir(format!("/proc/{pid}/fd")) else { continue };
        let mut listens = false;
        for e in rd.flatten() {
            if let Ok(t) = std::fs::read_link(e.path()) {
                let t = t.to_string_lossy();
                if let Some(rest) = t.strip_prefix("socket:[") {
                    if let Ok(inode) = rest.trim_end_matches(']').parse::<u64>() {
                        if inodes.contains(&inode) {
                            listens = true;
                            break;
                        }
                    }
                }
            }
        }
        if listens {
            out.push(pid);
        }
    }
    out
}

fn kill_store(data: &Path) {
    for _ in 0..3 {
        let pids = store_pids(data);
        if pids.is_empty() {
            return;
        }
        for pid in pids {
            unsafe {
                libc::kill(pid as i32, libc::SIGKILL);
            }
        }
        std::thread::sleep(Duration::from_millis(20));
    }
}

fn json_pid(path: &Path) -> Option<u64> {
    std::fs::read(path).ok().and_then(|b| serde_json::from_slice::<Value>(&b).ok()).and_then(|v| v["pid"].as_u64())
}

fn meta_endpoint(data: &Path) -> Option<String> {
    std::fs::read(data.join("authority").join("meta.json"))
        .ok()
        .and_then(|b| serde_json::from_slice::<Value>(&b).ok())
        .and_then(|v| v["endpoint"].as_str().map(|s| s.to_string()))
}

struct WaveOutcome {
    two_at_once: Option<Vec<u32>>,
    cli_exits: Vec<Option<i32>>,
    timed_out: bool,
    final_listening: Vec<u32>,
}

fn run_wave(wave: &[(u8, u8)], bins: &ProcBins, env: &[(String, String)], cwd: &Path, procdir: &Path, scan: &mut PidScan, tag: &str, servers: &mut Vec<Kid>) -> WaveOutcome {
    let mut order: Vec<(usize, u8, u8)> = wave.iter().enumerate().map(|(i, (k, d))| (i, *k, *d)).collect();
    order.sort_by_key(|(i, _, d)| (*d, *i));
    let t0 = Instant::now();
    let mut clis: Vec<Kid> = Vec::new();
    let mut two: Option<Vec<u32>> = None;
    let mut next = 0usize;
    let mut timed_out = false;
    let mut stable = 0u32;
    loop {
        while next < order.len() && t0.elapsed() >= Duration::from_millis(order[next].2 as u64) {
            let (i, kind, _) = order[next];
            let out = procdir.join(format!("{tag}_{i}_kind{kind}.out"));
            let kid = match kind {
                0 => spawn_kid(&bins.rip, &["threads", "ensure"], env, cwd, &out, 0),
                1 => spawn_kid(&bins.ripd, &[], env, cwd, &out, 1),
                _ => spawn_kid(&bins.rip, &["serve"], env, cwd, &out, 2),
            };
            if let Some(k) = kid {
                if kind == 0 {
                    clis.push(k);
                } else {
                    servers.push(k);
                }
            }
            next += 1;
        }
        let l = listening_pids(scan);
        if l.len() >= 2 && two.is_none() {
            // confirm with a second look: a pid that just died may still be listed for an instant
            let l2 = listening_pids(&mut scan.fresh());
            let both: Vec<u32> = l.iter().copied().filter(|p| l2.contains(p)).collect();
            if both.len() >= 2 {
                two = Some(both);
            }
        }
        for k in clis.iter_mut().chain(servers.iter_mut()) {
            if k.exit.is_none() {
                if let Ok(Some(st)) = k.child.try_wait() {
                    k.exit = Some(st.code().unwrap_or(-1));
                }
            }
        }
        let all_started = next >= order.len();
        let clis_done = clis.iter().all(|k| k.exit.is_some());
        // direct servers have settled when each one either exited or one process listens and the
        // picture did not change for a while
        if all_started && clis_done {
            stable += 1;
            if stable >= 16 {
                break;
            }
        } else {
            stable = 0;
        }
        if t0.elapsed() > Duration::from_secs(40) {
            timed_out = true;
            break;
        }
        std::thread::sleep(Duration::from_millis(12));
    }
    WaveOutcome { two_at_once: two, cli_exits: clis.iter().map(|k| k.exit).collect(), timed_out, final_listening: listening_pids(&mut scan.fresh()) }
}

fn ping_endpoint(ep: &str) -> bool {
    // plain blocking HTTP/1.1 GET over std (no runtime needed)
    use std::io::{Read, Write};
    let Some(addr) = ep.strip_prefix("http://") else { return false };
    let Ok(mut s) = std::net::TcpStream::connect(addr) else { return false };
    let _ = s.set_read_timeout(Some(Duration::from_secs(3)));
    if s.write_all(format!("GET /threads HTTP/1.1\r\nHost: {addr}\r\nConnection: close\r\n\r\n").as_bytes()).is_err() {
        return false;
    }
    let mut buf = [0u8; 32];
    matches!(s.read(&mut buf), Ok(n) if n >= 12 && buf.starts_with(b"HTTP/1.1 200"))
}

/// Liveness of an authority is judged by pinging the endpoint its meta.json names. On a machine
/// that runs thousands of other servers (the other shards of this very check) the ephemeral port
/// of a killed authority is handed out again within seconds: a FOREIGN process then answers the
/// ping, every contender attaches to it (or refuses to start: "store already has an authority")
/// and nobody recovers the store. That is an artefact of the test environment, not a verdict on
/// the recovery code: no process of this store listens, yet the dead authority's endpoint answers.
fn foreign_responder_on_dead_endpoint(data: &Path, scan: &mut PidScan) -> bool {
    listening_pids(&mut scan.fresh()).is_empty() && meta_endpoint(data).map(|ep| ping_endpoint(&ep)).unwrap_or(false)
}

fn run_procs(case: &ProcCase) -> CaseReport {
    let mut rep = CaseReport::new();
    let bins = PROC_BINS.get().expect("bins");
    let sb = Scratch::new("c18p");
    let root = sb.path().to_path_buf();
    let (data, ws, cwd, procdir, home) = (root.join("data"), root.join("ws"), root.join("cwd"), root.join("proc"), root.join("home"));
    for d in [&data, &ws, &cwd, &procdir, &home, &root.join(".git")] {
        let _ = std::fs::create_dir_all(d);
    }
    let env: Vec<(String, String)> = vec![
        ("PATH".into(), "/usr/local/bin:/usr/bin:/bin".into()),
        ("HOME".into(), home.display().to_string()),
        ("XDG_CONFIG_HOME".into(), home.join("xdg").display().to_string()),
        ("RIP_CONFIG_HOME".into(), home.join("cfg").display().to_string()),
        ("RIP_DATA_DIR".into(), data.display().to_string()),
        ("RIP_WORKSPACE_ROOT".into(), ws.display().to_string()),
        ("RIP_SERVER_ADDR".into(), "127.0.0.1:0".into()),
    ];
    rep.class(format!("pre:{}", ["clean", "crashed", "crashed_meta_removed", "crashed_lock_emptied", "crashed_lock_garbage"][case.pre as usize % 5]));
    let auth_dir = data.join("authority");
    let mut servers: Vec<Kid> = Vec::new();

    // ---- leftover of a really crashed authority
    if case.pre >= 1 {
        let Some(mut k) = spawn_kid(&bins.ripd, &[], &env, &cwd, &procdir.join("pre_ripd.out"), 1) else {
            rep.inconclusive("pre_spawn_failed");
            return rep;
        };
        let t0 = Instant::now();
        let mut up = false;
        while t0.elapsed() < Duration::from_secs(30) {
            if let Some(ep) = meta_endpoint(&data) {
                if ping_endpoint(&ep) {
                    up = true;
                    break;
                }
            }
            if let Ok(Some(_)) = k.child.try_wait() {
                break;
            }
            std::thread::sleep(Duration::from_millis(5));
        }
        let _ = k.child.kill();
        let _ = k.child.wait();
        if !up {
            kill_store(&data);
            rep.inconclusive("pre_authority_did_not_start");
            return rep;
        }
        match case.pre {
            2 => {
                let _ = std::fs::remove_file(auth_dir.join("meta.json"));
            }
            // an empty lock is what a crash between create and write leaves: meta does not exist yet
            3 => {
                let _ = std::fs::write(auth_dir.join("lock.json"), b"");
                let _ = std::fs::remove_file(auth_dir.join("meta.json"));
            }
            4 => {
                let _ = std::fs::write(auth_dir.join("lock.json"), b"{\"pid\": 12, garbage");
                let _ = std::fs::remove_file(auth_dir.join("meta.json"));
            }
            _ => {}
        }
    }

    let mut scan = PidScan::new(&data);
    let mut verdicts: Vec<(String, Value)> = Vec::new();
    let judge_wave = |name: &str, phase: &str, o: &WaveOutcome, expect_survivor: Option<u32>, verdicts: &mut Vec<(String, Value)>, rep: &mut CaseReport| -> Option<u32> {
        if o.timed_out {
            rep.inconclusive("wave_timed_out");
            return None;
        }
        if let Some(pids) = &o.two_at_once {
            verdicts.push((format!("procs|two_authorities|{phase}"), json!({"wave": name, "listening_pids": pids})));
        }
        let lock_pid = json_pid(&auth_dir.join("lock.json"));
        let meta_pid = json_pid(&auth_dir.join("meta.json"));
        let ep = meta_endpoint(&data);
        match o.final_listening.as_slice() {
            [] => {
                rep.class(format!("{name}:no_authority_at_the_end"));
                None
            }
            [p] => {
                if let Some(s) = expect_survivor {
                    if *p != s {
                        verdicts.push(("procs|live_authority_displaced".to_string(), json!({"wave": name, "was": s, "now": p, "lock_pid": lock_pid, "meta_pid": meta_pid})));
                    }
                }
                if lock_pid != Some(*p as u64) || meta_pid != Some(*p as u64) {
                    verdicts.push((format!("procs|final_state_inconsistent|files_do_not_name_the_listener|{phase}"), json!({"wave": name, "listener": p, "lock_pid": lock_pid, "meta_pid": meta_pid})));
                } else if !ep.as_deref().map(ping_endpoint).unwrap_or(false) {
                    verdicts.push((format!("procs|final_state_inconsistent|endpoint_does_not_answer|{phase}"), json!({"wave": name, "listener": p, "endpoint": ep})));
                }
                let bad: Vec<&Option<i32>> = o.cli_exits.iter().filter(|e| **e != Some(0)).collect();
                if !bad.is_empty() {
                    rep.count("cli_contenders_failed_although_an_authority_came_up", bad.len() as u64);
                }
                Some(*p)
            }
            many => {
                verdicts.push((format!("procs|two_authorities|{phase}"), json!({"wave": name, "listening_pids_at_the_end": many})));
                None
            }
        }
    };

    // ---- wave 1
    let phase1 = if case.pre == 0 { "no_leftovers" } else { "recovery" };
    let o1 = run_wave(&case.wave1, bins, &env, &cwd, &procdir, &mut scan, "w1", &mut servers);
    let mut winner = judge_wave("wave1", phase1, &o1, None, &mut verdicts, &mut rep);
    if winner.is_none() && !rep.is_inconclusive() && verdicts.is_empty() {
        // nobody brought the store up: probe alone, twice, before calling it unusable
        let mut usable = false;
        for attempt in 0..2 {
            let o = run_wave(&[(0, 0)], bins, &env, &cwd, &procdir, &mut scan, &format!("probe{attempt}"), &mut servers);
            if o.final_listening.len() == 1 && o.cli_exits == vec![Some(0)] {
                usable = true;
                winner = Some(o.final_listening[0]);
                break;
            }
        }
        if !usable && foreign_responder_on_dead_endpoint(&data, &mut scan) {
            rep.inconclusive("dead_authority_port_answered_by_a_foreign_process");
        } else if !usable {
            verdicts.push((format!("procs|store_not_usable|pre={}", case.pre), json!({"cli_exits": o1.cli_exits})));
        } else {
            rep.class("usable_only_on_a_later_probe");
        }
    }

    // ---- wave 2
    if !case.wave2.is_empty() && verdicts.is_empty() && !rep.is_inconclusive() {
        if let Some(w) = winner {
            let (phase2, expect) = if case.kill_between {
                unsafe {
                    libc::kill(w as i32, libc::SIGKILL);
                }
                for k in servers.iter_mut() {
                    let _ = k.child.try_wait();
                }
                std::thread::sleep(Duration::from_millis(30));
                rep.class("wave2:after_killing_the_winner");
                ("recovery", None)
            } else {
                rep.class("wave2:against_the_live_winner");
                ("live", Some(w))
            };
            let o2 = run_wave(&case.wave2, bins, &env, &cwd, &procdir, &mut scan, "w2", &mut servers);
            let w2 = judge_wave("wave2", phase2, &o2, expect, &mut verdicts, &mut rep);
            if w2.is_none() && verdicts.is_empty() && !rep.is_inconclusive() {
                let o = run_wave(&[(0, 0)], bins, &env, &cwd, &procdir, &mut scan, "probe_w2", &mut servers);
                if !(o.final_listening.len() == 1 && o.cli_exits == vec![Some(0)]) && foreign_responder_on_dead_endpoint(&data, &mut scan) {
                    rep.inconclusive("dead_authority_port_answered_by_a_foreign_process");
                } else if !(o.final_listening.len() == 1 && o.cli_exits == vec![Some(0)]) {
                    let tail = |p: &Path| std::fs::read_to_string(p).map(|t| t.chars().rev().take(600).collect::<String>().chars().rev().collect::<String>()).unwrap_or_default();
                    let outs: Vec<(String, String)> = std::fs::read_dir(&procdir).map(|rd| rd.flatten().map(|e| (e.file_name().to_string_lossy().to_string(), tail(&e.path()))).collect()).unwrap_or_default();
                    verdicts.push((format!("procs|store_not_usable|after_wave2|kill={}", case.kill_between), json!({
                        "cli_exits": o2.cli_exits, "probe_cli_exits": o.cli_exits, "probe_listening": o.final_listening, "probe_timed_out": o.timed_out,
                        "store_pids_now": store_pids(&data), "lock": std::fs::read_to_string(auth_dir.join("lock.json")).ok(), "meta": std::fs::read_to_string(auth_dir.join("meta.json")).ok(),
                        "authority_log_tail": tail(&auth_dir.join("authority.log")), "outs": outs})));
                }
            }
        }
    }

    // ---- cleanup: our children, and the detached `rip serve` the CLI spawned
    kill_store(&data);
    for k in servers.iter_mut() {
        let _ = k.child.kill();
        let _ = k.child.wait();
    }
    for (sig, detail) in verdicts {
        rep.fail(sig, detail);
    }
    rep.count("contenders", (case.wave1.len() + case.wave2.len()) as u64);
    rep.nontrivial = case.wave1.len() + case.wave2.len() >= 2;
    rep
}
