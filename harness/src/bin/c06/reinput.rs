//! Group `second_input`: the exactly-once / in-order clause across two API surfaces. A session
//! stream has one run; a further `POST /sessions/{id}/input` — on a plain session or on the session
//! a thread post created — must not put a second run onto the same stream. Subscribers attach
//! before the further input, between, and at the end; every one of them must receive the frames
//! of the log for that stream: seq 0,1,2,… each once, strictly increasing.

use std::time::Duration;

use proptest::prelude::*;
use rv::engine::CaseReport;
use rv::http::sse_collect;
use rv::runs::Authority;
use serde::{Deserialize, Serialize};
use serde_json::{json, Value};

#[derive(Debug, Clone, Serialize, Deserialize)]
pub struct ReCase {
    /// the session comes from a thread post (true) or from POST /sessions + input (false)
    pub via_thread: bool,
    /// first input: 0 plain prompt, 1 ls tool, 2 bash tool, 3 write tool
    pub first: u8,
    /// further inputs sent afterwards
    pub extra: Vec<u8>,
    /// the further input is sent right after the 202 of the first (true) or after the run ended
    pub early: bool,
}

pub fn strategy() -> BoxedStrategy<ReCase> {
    (any::<bool>(), 0u8..4, proptest::collection::vec(0u8..4, 1..3), any::<bool>())
        .prop_map(|(via_thread, first, extra, early)| ReCase { via_thread, first, extra, early })
        .boxed()
}

fn input(kind: u8, n: usize) -> String {
    match kind {
        1 => json!({"tool": "ls", "args": {"path": "."}}).to_string(),
        2 => json!({"tool": "bash", "args": {"command": format!("echo out{n}; echo err{n} >&2")}}).to_string(),
        3 => json!({"tool": "write", "args": {"path": format!("f{n}.txt"), "content": "x"}}).to_string(),
        _ => format!("prompt {n}"),
    }
}

thread_local! {
    static RT: tokio::runtime::Runtime = rv::runs::runtime(3);
}

async fn subscribe(auth: &Authority, sid: &str) -> Vec<Value> {
    let (_s, payloads, _) = sse_collect(&auth.router, &format!("/sessions/{sid}/events"), Duration::from_millis(60), |_| false).await;
    payloads.iter().filter_map(|p| serde_json::from_str(p).ok()).collect()
}

pub fn run(case: &ReCase) -> CaseReport {
    let mut rep = CaseReport::new();
    RT.with(|rt| {
        rt.block_on(async {
            let auth = Authority::new("c06re", None);
            let sid = if case.via_thread {
                let Some(t) = auth.ensure_thread().await else {
                    rep.inconclusive("no_thread");
                    return;
                };
                let (_s, v) = auth.post_message(&t, &input(case.first, 0), None).await;
                match v["session_id"].as_str() {
                    Some(s) => s.to_string(),
                    None => {
                        rep.inconclusive("post_rejected");
                        return;
                    }
                }
            } else {
                let Some(s) = auth.create_session().await else {
                    rep.inconclusive("no_session");
                    return;
                };
                let _ = auth.send_input(&s, &input(case.first, 0)).await;
                s
            };
            if !case.early && !auth.wait_snapshot(&sid, Duration::from_secs(30)).await {
                rep.inconclusive("first_run_not_ended");
                return;
            }
            let mut subs: Vec<(&'static str, Vec<Value>)> = Vec::new();
            subs.push(("before_further_input", subscribe(&auth, &sid).await));
            let mut accepted = 0u64;
            for (i, k) in case.extra.iter().enumerate() {
                let st = auth.send_input(&sid, &input(*k, i + 1)).await;
                rep.class(format!("further_input_status:{}", st.as_u16()));
                if st.as_u16() == 202 {
                    accepted += 1;
                }
                subs.push(("between", subscribe(&auth, &sid).await));
            }
            // quiescence: the first run ended (snapshot), and as many end frames as runs accepted
            if !auth.wait_snapshot(&sid, Duration::from_secs(30)).await {
                rep.inconclusive("run_not_ended");
                return;
            }
            if accepted > 0 {
                let t0 = std::time::Instant::now();
                loop {
                    let ends = auth.truth_session(&sid).iter().filter(|f| f["type"] == "session_ended").count() as u64;
                    if ends > accepted || t0.elapsed() > Duration::from_secs(10) {
                        break;
                    }
                    tokio::time::sleep(Duration::from_millis(5)).await;
                }
            }
            tokio::time::sleep(Duration::from_millis(10)).await;
            subs.push(("at_the_end", subscribe(&auth, &sid).await));
            let log = auth.truth_session(&sid);
            let log_seqs: Vec<u64> = log.iter().filter_map(|f| f["seq"].as_u64()).collect();
            rep.count("frames_in_log", log.len() as u64);
            // the stream itself: 0,1,2,… once each (what every subscriber is entitled to)
            if log_seqs.iter().enumerate().any(|(i, s)| *s != i as u64) {
                rep.fail("second_input|stream_not_0_1_2", json!({"log_seqs": log_seqs, "further_inputs_accepted": accepted, "via_thread": case.via_thread}));
            }
            for (when, frames) in &subs {
                let seqs: Vec<u64> = frames.iter().filter_map(|f| f["seq"].as_u64()).collect();
                // a subscriber that attached while the stream was still being produced may hold a
                // prefix; what it holds must be 0,1,2,… once each and equal to the log's frames
                if seqs.iter().enumerate().any(|(i, s)| *s != i as u64) {
                    rep.fail(format!("second_input|subscriber_seqs_not_0_1_2|{when}"), json!({"seqs": seqs, "log_seqs": log_seqs, "further_inputs_accepted": accepted, "via_thread": case.via_thread}));
                    continue;
                }
                for (i, f) in frames.iter().enumerate() {
                    if log.get(i) != Some(f) {
                        rep.fail(format!("second_input|subscriber_frame_differs_from_log|{when}"), json!({"index": i, "got": f, "log": log.get(i)}));
                        break;
                    }
                }
                if *when == "at_the_end" && seqs.len() != log_seqs.len() {
                    rep.fail("second_input|late_subscriber_misses_frames", json!({"seqs": seqs, "log_seqs": log_seqs}));
                }
            }
            rep.class(if case.via_thread { "session_of_a_thread_post" } else { "plain_session" });
            rep.nontrivial = !case.extra.is_empty();
            let Authority { sandbox, router } = auth;
            drop(router);
            tokio::time::sleep(Duration::from_millis(3)).await;
            drop(sandbox);
        })
    });
    rep
}
