//! Group `thread_big_join`: the join between history and live delivery on THREAD streams for
//! frames whose sidecar write takes milliseconds (multi-MiB messages). An in-process receiver on the
//! engine's own continuity store is the clock: the instant a frame is broadcast, a fresh subscriber
//! opens GET /threads/{id}/events on the real router. If the frame is broadcast before it can be
//! read back as history (sidecar / log), that subscriber gets it neither live nor in history.
//! The search for the window is timing based; the verdict (a frame of the log that the subscriber
//! never received, although later frames arrived) is not.

use std::time::Duration;

use proptest::prelude::*;
use rv::engine::CaseReport;
use rv::http::sse_collect;
use rv::store::Sandbox;
use serde::{Deserialize, Serialize};
use serde_json::{json, Value};

#[derive(Debug, Clone, Serialize, Deserialize)]
pub struct BigCase {
    /// small messages appended before
    pub pre: u8,
    /// sizes (KiB) of the big messages; a fresh subscriber attaches at the broadcast of each
    pub big_kib: Vec<u16>,
}

pub fn strategy() -> BoxedStrategy<BigCase> {
    (0u8..4, proptest::collection::vec(prop_oneof![2 => 512u16..2048, 2 => 2048u16..6144, 1 => 1u16..64], 1..4))
        .prop_map(|(pre, big_kib)| BigCase { pre, big_kib })
        .boxed()
}

thread_local! {
    static RT: tokio::runtime::Runtime = rv::runs::runtime(4);
}

pub fn run(case: &BigCase) -> CaseReport {
    let mut rep = CaseReport::new();
    RT.with(|rt| {
        rt.block_on(async {
            let sb = Sandbox::new("c06big");
            let (router, engine) = ripd::verif::build_router_and_engine(sb.data.clone(), sb.ws.clone(), None, false);
            let store = engine.continuities();
            let Ok(tid) = store.ensure_default() else {
                rep.inconclusive("no_thread");
                return;
            };
            for i in 0..case.pre {
                let _ = store.append_message(&tid, "user".into(), "test".into(), format!("pre {i}"));
            }
            let mut subscribers = Vec::new();
            for (k, kib) in case.big_kib.iter().enumerate() {
                let mut clock = store.subscribe();
                let content: String = "0123456789abcdef".repeat(*kib as usize * 64);
                let store2 = store.clone();
                let tid2 = tid.clone();
                let producer = tokio::task::spawn_blocking(move || store2.append_message(&tid2, "user".into(), "test".into(), content));
                // the instant the frame is broadcast …
                let seen = tokio::time::timeout(Duration::from_secs(30), async {
                    loop {
                        match clock.recv().await {
                            Ok(ev) if ev.session_id == tid => return Some(ev.seq),
                            Ok(_) => continue,
                            Err(_) => return None,
                        }
                    }
                })
                .await;
                let Ok(Some(seq)) = seen else {
                    rep.inconclusive("clock_missed_broadcast");
                    return;
                };
                // … a fresh subscriber attaches through the real handler
                let router2 = router.clone();
                let path = format!("/threads/{tid}/events");
                subscribers.push((k, seq, tokio::spawn(async move {
                    // reads until a frame with a seq beyond the joined one arrived (or idle)
                    sse_collect(&router2, &path, Duration::from_millis(2500), move |p| {
                        p.last()
                            .and_then(|l| serde_json::from_str::<Value>(l).ok())
                            .and_then(|v| v["seq"].as_u64())
                            .map(|s| s > seq)
                            .unwrap_or(false)
                    })
                    .await
                })));
                let _ = producer.await;
                // the stream moves on: a later small frame, which every subscriber must see live
                let _ = store.append_message(&tid, "user".into(), "test".into(), format!("after {k}"));
            }
            let truth: Vec<u64> = sb.truth_thread(&tid).unwrap_or_default().iter().map(|e| e.seq).collect();
            for (k, joined_seq, h) in subscribers {
                let Ok((_status, payloads, _)) = h.await else {
                    rep.inconclusive("subscriber_task_failed");
                    return;
                };
                let seqs: Vec<u64> = payloads.iter().filter_map(|p| serde_json::from_str::<Value>(p).ok()).filter_map(|v| v["seq"].as_u64()).collect();
                let Some(max) = seqs.iter().max().copied() else {
                    rep.inconclusive("subscriber_got_nothing");
                    continue;
                };
                rep.count("joins", 1);
                if max <= joined_seq {
                    // nothing beyond the joined frame arrived within the idle bound: cannot decide
                    rep.inconclusive("no_later_frame_arrived");
                    continue;
                }
                // everything up to the largest seq received must have been received exactly once, in order
                let expected: Vec<u64> = truth.iter().copied().filter(|s| *s <= max).collect();
                if seqs != expected {
                    let missing: Vec<u64> = expected.iter().copied().filter(|s| !seqs.contains(s)).collect();
                    let what = if missing.contains(&joined_seq) {
                        "lost_frame|thread|join_at_broadcast_of_large_frame"
                    } else if !missing.is_empty() {
                        "lost_frame|thread|mid_stream"
                    } else {
                        "duplicate_or_out_of_order|thread"
                    };
                    rep.fail(what, json!({"big_message": k, "kib": case.big_kib[k], "joined_seq": joined_seq, "received": seqs, "expected": expected}));
                }
            }
            rep.nontrivial = case.big_kib.iter().any(|k| *k >= 512);
            rep.class(format!("bigs:{}", case.big_kib.len()));
        })
    });
    rep
}
