//! C12 reference model M: an independent reading of the patch envelope (docs: ADR-0003,
//! 04_workspace_engine.md) and of the property text.
//!
//! * parser: `*** Begin Patch` / `*** End Patch`, `*** Add File:` (+lines), `*** Delete File:`,
//!   `*** Update File:` (+ optional `*** Move to:`) with `@@`-separated hunks of ' ', '+', '-' lines;
//! * application: ops in order on an in-memory tree; a hunk applies at the first place at or after
//!   the cursor where its before-lines occur; the cursor moves behind the replaced region;
//! * text files are sequences of (line, terminator); untouched lines keep their terminator, new
//!   lines take the file's style; the final-newline state is preserved.
//!
//! Where the docs leave a choice the model is parameterised by a `policy` bit set and records which
//! choices a given patch actually meets (`touched`); the check accepts every outcome.

use std::collections::{BTreeMap, BTreeSet};

use serde::{Deserialize, Serialize};

// ---------------------------------------------------------------- bytes that serialise readably

#[derive(Debug, Clone, PartialEq, Eq, Serialize, Deserialize)]
pub enum Content {
    Text(String),
    Bytes(Vec<u8>),
}

impl Content {
    pub fn from_bytes(b: Vec<u8>) -> Content {
        match String::from_utf8(b) {
            Ok(s) => Content::Text(s),
            Err(e) => Content::Bytes(e.into_bytes()),
        }
    }
    pub fn bytes(&self) -> Vec<u8> {
        match self {
            Content::Text(s) => s.as_bytes().to_vec(),
            Content::Bytes(b) => b.clone(),
        }
    }
}

// ---------------------------------------------------------------- lines

#[derive(Debug, Clone, Copy, PartialEq, Eq)]
pub enum Term {
    Lf,
    Crlf,
    /// no terminator: only possible on the last line
    None,
    /// a new line in a file without a single style: "\n" or "\r\n" are both accepted
    Any,
}

pub type Line = (String, Term);

/// Split text into (line, terminator). "\r\n" and "\n" terminate a line; a remainder without
/// terminator is a last line with `Term::None`. Empty text = zero lines.
pub fn split_lines(text: &str) -> Vec<Line> {
    let mut out = Vec::new();
    let mut rest = text;
    while let Some(i) = rest.find('\n') {
        let seg = &rest[..i];
        if let Some(s) = seg.strip_suffix('\r') {
            out.push((s.to_string(), Term::Crlf));
        } else {
            out.push((seg.to_string(), Term::Lf));
        }
        rest = &rest[i + 1..];
    }
    if !rest.is_empty() {
        out.push((rest.to_string(), Term::None));
    }
    out
}

#[derive(Debug, Clone, Copy, PartialEq, Eq)]
pub enum Style {
    Lf,
    Crlf,
    Mixed,
    /// no terminator anywhere (zero lines, or one line without newline)
    NoStyle,
}

pub fn style_of(lines: &[Line]) -> Style {
    let mut lf = false;
    let mut crlf = false;
    for (_, t) in lines {
        match t {
            Term::Lf => lf = true,
            Term::Crlf => crlf = true,
            Term::Any => {
                lf = true;
                crlf = true;
            }
            Term::None => {}
        }
    }
    match (lf, crlf) {
        (true, true) => Style::Mixed,
        (true, false) => Style::Lf,
        (false, true) => Style::Crlf,
        (false, false) => Style::NoStyle,
    }
}

pub fn render(lines: &[Line]) -> Vec<u8> {
    let mut out = Vec::new();
    for (l, t) in lines {
        out.extend_from_slice(l.as_bytes());
        match t {
            Term::Lf | Term::Any => out.push(b'\n'),
            Term::Crlf => out.extend_from_slice(b"\r\n"),
            Term::None => {}
        }
    }
    out
}

// policy bits (documented choices the model does not decide)
pub const D_ADD_OVERWRITE: u8 = 1; // Add File on an existing file: fail | overwrite
pub const D_MOVE_OVERWRITE: u8 = 2; // Move to an existing file: fail | overwrite
pub const D_PURE_INSERT_AT_CURSOR: u8 = 4; // hunk without before-lines: append at end | insert at cursor
pub const D_NOSTYLE_CRLF: u8 = 8; // new terminator in a file that has none: "\n" | "\r\n"
pub const D_EMPTY_FINAL_NL: u8 = 16; // lines added to a zero-line file: no final newline | final newline

pub const FLAG_EMPTY_UPDATED: u8 = 1; // an Update was applied while the file had zero lines
pub const FLAG_MIXED_UPDATED: u8 = 2; // an Update was applied while the file had mixed line endings

/// Edited lines before terminators are settled: `None` = new line / needs a terminator.
pub type Draft = Vec<(String, Option<Term>)>;

/// Settle terminators: old lines keep theirs, new lines take the style of the original file,
/// the final-newline state of the original file is preserved.
pub fn finalize(orig: &[Line], draft: Draft, policy: u8, touched: &mut u8) -> Vec<Line> {
    let style = style_of(orig);
    let n = draft.len();
    if n == 0 {
        return Vec::new();
    }
    let had_final_nl = match orig.last() {
        Some((_, t)) => *t != Term::None,
        None => {
            *touched |= D_EMPTY_FINAL_NL;
            policy & D_EMPTY_FINAL_NL != 0
        }
    };
    let default_term = |touched: &mut u8| match style {
        Style::Lf => Term::Lf,
        Style::Crlf => Term::Crlf,
        Style::Mixed => Term::Any,
        Style::NoStyle => {
            *touched |= D_NOSTYLE_CRLF;
            if policy & D_NOSTYLE_CRLF != 0 {
                Term::Crlf
            } else {
                Term::Lf
            }
        }
    };
    let mut out = Vec::with_capacity(n);
    for (i, (text, t)) in draft.into_iter().enumerate() {
        let last = i + 1 == n;
        let term = if last && !had_final_nl {
            Term::None
        } else {
            match t {
                Some(Term::Lf) => Term::Lf,
                Some(Term::Crlf) => Term::Crlf,
                Some(Term::Any) => Term::Any,
                Some(Term::None) | None => default_term(touched),
            }
        };
        out.push((text, term));
    }
    // canonical form: an empty last line without terminator contributes no bytes
    while matches!(out.last(), Some((t, Term::None)) if t.is_empty()) {
        out.pop();
    }
    out
}

// ---------------------------------------------------------------- tree

#[derive(Debug, Clone, PartialEq, Eq)]
pub enum MContent {
    Raw(Vec<u8>),
    Lines(Vec<Line>),
}

#[derive(Debug, Clone, PartialEq, Eq)]
pub struct MFile {
    pub content: MContent,
    pub flags: u8,
    /// op kinds that produced the current content ("add", "update", "move")
    pub by: Vec<&'static str>,
}

impl MFile {
    pub fn raw(b: Vec<u8>) -> MFile {
        MFile {
            content: MContent::Raw(b),
            flags: 0,
            by: Vec::new(),
        }
    }
    pub fn render(&self) -> Vec<u8> {
        match &self.content {
            MContent::Raw(b) => b.clone(),
            MContent::Lines(l) => render(l),
        }
    }
    /// Does `actual` satisfy the expectation? `ignore_terms`: "\n" and "\r\n" are interchangeable.
    pub fn matches(&self, actual: &[u8], ignore_terms: bool) -> bool {
        match &self.content {
            MContent::Raw(b) => b == actual,
            MContent::Lines(exp) => {
                let Ok(s) = std::str::from_utf8(actual) else {
                    return false;
                };
                let got = split_lines(s);
                if got.len() != exp.len() {
                    return false;
                }
                exp.iter().zip(got.iter()).all(|((et, ek), (gt, gk))| {
                    // a missing terminator (final-newline state) is never ignored
                    et == gt
                        && (ek == gk
                            || (*ek != Term::None
                                && *gk != Term::None
                                && (ignore_terms || *ek == Term::Any)))
                })
            }
        }
    }
    /// Text lines of the current content, or None when it is not UTF-8.
    pub fn lines(&self) -> Option<Vec<Line>> {
        match &self.content {
            MContent::Lines(l) => Some(l.clone()),
            MContent::Raw(b) => std::str::from_utf8(b).ok().map(split_lines),
        }
    }
}

#[derive(Debug, Clone, Default, PartialEq, Eq)]
pub struct Tree {
    pub files: BTreeMap<String, MFile>,
    pub dirs: BTreeSet<String>,
}

impl Tree {
    pub fn new(files: &[(String, Content)], dirs: &[String]) -> Tree {
        let mut t = Tree::default();
        for d in dirs {
            t.add_dir_chain(d);
        }
        for (p, c) in files {
            if let Some((parent, _)) = p.rsplit_once('/') {
                t.add_dir_chain(parent);
            }
            t.files.insert(p.clone(), MFile::raw(c.bytes()));
        }
        t
    }
    pub fn add_dir_chain(&mut self, d: &str) {
        let mut acc = String::new();
        for c in d.split('/').filter(|c| !c.is_empty()) {
            if !acc.is_empty() {
                acc.push('/');
            }
            acc.push_str(c);
            self.dirs.insert(acc.clone());
        }
    }
    /// Some(cause) when a proper ancestor of `p` is a regular file.
    pub fn ancestor_is_file(&self, p: &str) -> bool {
        let mut acc = String::new();
        let comps: Vec<&str> = p.split('/').collect();
        for c in &comps[..comps.len().saturating_sub(1)] {
            if !acc.is_empty() {
                acc.push('/');
            }
            acc.push_str(c);
            if self.files.contains_key(&acc) {
                return true;
            }
        }
        false
    }
    pub fn create_parents(&mut self, p: &str) {
        if let Some((parent, _)) = p.rsplit_once('/') {
            self.add_dir_chain(parent);
        }
    }
}

// ---------------------------------------------------------------- paths

#[derive(Debug, Clone, PartialEq, Eq)]
pub enum PathClass {
    /// documented: MUST be rejected
    Outside(&'static str),
    /// names the workspace root itself
    Root,
    Empty,
    Rel(String),
}

pub fn classify_path(raw: &str) -> PathClass {
    let t = raw.trim();
    if t.is_empty() {
        return PathClass::Empty;
    }
    if t.starts_with('/') {
        return PathClass::Outside("absolute");
    }
    let mut comps = Vec::new();
    for c in t.split('/') {
        match c {
            "" | "." => {}
            ".." => return PathClass::Outside("parent"),
            c => comps.push(c),
        }
    }
    if comps.is_empty() {
        PathClass::Root
    } else {
        PathClass::Rel(comps.join("/"))
    }
}

// ---------------------------------------------------------------- parser

#[derive(Debug, Clone, PartialEq, Eq)]
pub struct Hunk {
    /// (' ' | '+' | '-', text) in patch order
    pub lines: Vec<(char, String)>,
}

impl Hunk {
    pub fn before(&self) -> Vec<&str> {
        self.lines
            .iter()
            .filter(|(p, _)| *p != '+')
            .map(|(_, t)| t.as_str())
            .collect()
    }
}

#[derive(Debug, Clone, PartialEq, Eq)]
pub enum POp {
    Add { path: String, lines: Vec<String> },
    Delete { path: String },
    Update { path: String, move_to: Option<String>, hunks: Vec<Hunk> },
}

impl POp {
    pub fn kind(&self) -> &'static str {
        match self {
            POp::Add { .. } => "add",
            POp::Delete { .. } => "delete",
            POp::Update { move_to: None, .. } => "update",
            POp::Update { .. } => "update_move",
        }
    }
    pub fn paths(&self) -> Vec<&str> {
        match self {
            POp::Add { path, .. } | POp::Delete { path } => vec![path.as_str()],
            POp::Update { path, move_to, .. } => {
                let mut v = vec![path.as_str()];
                if let Some(m) = move_to {
                    v.push(m.as_str());
                }
                v
            }
        }
    }
}

#[derive(Debug, Clone, Default)]
pub struct Parsed {
    pub ops: Vec<POp>,
    /// lenient readings that were needed (the docs do not settle them)
    pub notes: Vec<&'static str>,
}

/// Parse per the documented envelope. `Err` = the text cannot be read as a patch (what such a
/// document "means" is undefined, so the check asserts atomicity only).
pub fn parse(text: &str) -> Result<Parsed, String> {
    let mut notes: Vec<&'static str> = Vec::new();
    let mut raw: Vec<&str> = text.split('\n').collect();
    if raw.last() == Some(&"") {
        raw.pop();
    }
    let nraw = raw.len();
    let terminated_last = text.ends_with('\n');
    let mut lines: Vec<&str> = Vec::with_capacity(nraw);
    for (i, l) in raw.into_iter().enumerate() {
        let is_terminated = i + 1 < nraw || terminated_last;
        if is_terminated {
            if let Some(s) = l.strip_suffix('\r') {
                if !notes.contains(&"crlf_patch_text") {
                    notes.push("crlf_patch_text");
                }
                lines.push(s);
                continue;
            }
        }
        lines.push(l);
    }
    if lines.first() != Some(&"*** Begin Patch") {
        return Err("missing header".into());
    }
    let mut ops = Vec::new();
    let mut i = 1;
    let mut footer = false;
    while i < lines.len() {
        let line = lines[i];
        i += 1;
        if line == "*** End Patch" {
            footer = true;
            break;
        }
        if let Some(p) = line.strip_prefix("*** Add File: ") {
            let mut content = Vec::new();
            while i < lines.len() && !lines[i].starts_with("*** ") {
                match lines[i].strip_prefix('+') {
                    Some(r) => content.push(r.to_string()),
                    None => return Err(format!("add line without '+': {:?}", lines[i])),
                }
                i += 1;
            }
            ops.push(POp::Add {
                path: p.to_string(),
                lines: content,
            });
            continue;
        }
        if let Some(p) = line.strip_prefix("*** Delete File: ") {
            ops.push(POp::Delete { path: p.to_string() });
            continue;
        }
        if let Some(p) = line.strip_prefix("*** Update File: ") {
            let mut move_to = None;
            if i < lines.len() {
                if let Some(m) = lines[i].strip_prefix("*** Move to: ") {
                    move_to = Some(m.to_string());
                    i += 1;
                }
            }
            let mut hunks: Vec<Hunk> = Vec::new();
            let mut cur: Vec<(char, String)> = Vec::new();
            while i < lines.len() {
                let l = lines[i];
                if l == "*** End of File" {
                    // Codex marker; not listed in the repo docs: lenient reading = ignorable
                    if !notes.contains(&"eof_marker") {
                        notes.push("eof_marker");
                    }
                    i += 1;
                    continue;
                }
                if l.starts_with("*** ") {
                    break;
                }
                i += 1;
                if let Some(rest) = l.strip_prefix("@@") {
                    if !rest.trim().is_empty() && !notes.contains(&"hunk_header_text") {
                        notes.push("hunk_header_text");
                    }
                    if !cur.is_empty() {
                        hunks.push(Hunk {
                            lines: std::mem::take(&mut cur),
                        });
                    }
                    continue;
                }
                let mut ch = l.chars();
                match ch.next() {
                    Some(c @ (' ' | '+' | '-')) => cur.push((c, ch.as_str().to_string())),
                    Some(_) => return Err(format!("bad hunk line prefix: {l:?}")),
                    None => return Err("blank line inside an update section".into()),
                }
            }
            if !cur.is_empty() {
                hunks.push(Hunk { lines: cur });
            }
            if hunks.is_empty() {
                return Err("update without hunks".into());
            }
            ops.push(POp::Update {
                path: p.to_string(),
                move_to,
                hunks,
            });
            continue;
        }
        return Err(format!("unexpected line: {line:?}"));
    }
    if !footer {
        notes.push("missing_footer");
    }
    Ok(Parsed { ops, notes })
}

// ---------------------------------------------------------------- application

#[derive(Debug, Clone, PartialEq, Eq)]
pub enum Cause {
    /// the operation cannot be performed at all: success would be a violation
    Hard(&'static str),
    /// the docs do not say whether this must fail (no assertion when the implementation succeeds)
    Soft(&'static str),
}

impl Cause {
    pub fn name(&self) -> &'static str {
        match self {
            Cause::Hard(s) | Cause::Soft(s) => s,
        }
    }
}

fn find_from(lines: &Draft, needle: &[&str], start: usize) -> Option<usize> {
    if needle.is_empty() || needle.len() > lines.len() {
        return None;
    }
    (start..=lines.len() - needle.len())
        .find(|&i| (0..needle.len()).all(|k| lines[i + k].0 == needle[k]))
}

/// Apply one hunk at `pos` (the before-lines are known to sit there): context lines keep the
/// physical line (and its terminator), '-' lines drop it, '+' lines are new.
pub fn splice_hunk(draft: &mut Draft, pos: usize, hunk: &Hunk) -> usize {
    let mut repl: Draft = Vec::new();
    let mut k = pos;
    for (p, t) in &hunk.lines {
        match p {
            ' ' => {
                repl.push(draft[k].clone());
                k += 1;
            }
            '-' => k += 1,
            _ => repl.push((t.clone(), None)),
        }
    }
    let n = repl.len();
    draft.splice(pos..k, repl);
    n
}

pub fn add_content(lines: &[String]) -> Vec<u8> {
    let mut out = Vec::new();
    for l in lines {
        out.extend_from_slice(l.as_bytes());
        out.push(b'\n');
    }
    out
}

/// Generator-health statistics gathered while applying (never part of a verdict).
#[derive(Debug, Clone, Default)]
pub struct Stats {
    /// hunks whose before-lines also occur somewhere before the cursor
    pub occurs_before_cursor: u32,
    /// hunks whose before-lines occur more than once at or after the cursor
    pub repeated_after_cursor: u32,
}

pub fn apply(tree: &Tree, ops: &[POp], policy: u8, touched: &mut u8) -> Result<Tree, (usize, Cause)> {
    let mut st = Stats::default();
    apply_stats(tree, ops, policy, touched, &mut st)
}

/// Apply ops in order. `Err((op index, cause))`.
pub fn apply_stats(
    tree: &Tree,
    ops: &[POp],
    policy: u8,
    touched: &mut u8,
    stats: &mut Stats,
) -> Result<Tree, (usize, Cause)> {
    let mut t = tree.clone();
    for (idx, op) in ops.iter().enumerate() {
        let fail = |c: Cause| Err((idx, c));
        match op {
            POp::Add { path, lines } => {
                let p = match classify_path(path) {
                    PathClass::Rel(p) => p,
                    PathClass::Root => return fail(Cause::Hard("path_is_root")),
                    PathClass::Empty => return fail(Cause::Hard("empty_path")),
                    PathClass::Outside(_) => return fail(Cause::Hard("outside")),
                };
                if t.ancestor_is_file(&p) {
                    return fail(Cause::Hard("parent_is_file"));
                }
                if t.dirs.contains(&p) {
                    return fail(Cause::Hard("add_onto_dir"));
                }
                if t.files.contains_key(&p) {
                    *touched |= D_ADD_OVERWRITE;
                    if policy & D_ADD_OVERWRITE == 0 {
                        return fail(Cause::Soft("add_exists"));
                    }
                }
                t.create_parents(&p);
                t.files.insert(
                    p,
                    MFile {
                        content: MContent::Raw(add_content(lines)),
                        flags: 0,
                        by: vec!["add"],
                    },
                );
            }
            POp::Delete { path } => {
                let p = match classify_path(path) {
                    PathClass::Rel(p) => p,
                    PathClass::Root => return fail(Cause::Hard("path_is_root")),
                    PathClass::Empty => return fail(Cause::Hard("empty_path")),
                    PathClass::Outside(_) => return fail(Cause::Hard("outside")),
                };
                if t.dirs.contains(&p) {
                    return fail(Cause::Hard("delete_dir"));
                }
                if t.files.remove(&p).is_none() {
                    return fail(Cause::Hard("delete_missing"));
                }
            }
            POp::Update { path, move_to, hunks } => {
                let p = match classify_path(path) {
                    PathClass::Rel(p) => p,
                    PathClass::Root => return fail(Cause::Hard("path_is_root")),
                    PathClass::Empty => return fail(Cause::Hard("empty_path")),
                    PathClass::Outside(_) => return fail(Cause::Hard("outside")),
                };
                if t.dirs.contains(&p) {
                    return fail(Cause::Hard("update_dir"));
                }
                let Some(file) = t.files.get(&p) else {
                    return fail(Cause::Hard("update_missing"));
                };
                let Some(orig) = file.lines() else {
                    return fail(Cause::Soft("non_utf8"));
                };
                let mut flags = file.flags;
                let mut by = file.by.clone();
                if orig.is_empty() {
                    flags |= FLAG_EMPTY_UPDATED;
                }
                if style_of(&orig) == Style::Mixed {
                    flags |= FLAG_MIXED_UPDATED;
                }
                let mut draft: Draft = orig.iter().map(|(l, t)| (l.clone(), Some(*t))).collect();
                let mut cursor = 0usize;
                for h in hunks {
                    let before = h.before();
                    if before.is_empty() {
                        let end = draft.len();
                        let pos = if cursor != end {
                            *touched |= D_PURE_INSERT_AT_CURSOR;
                            if policy & D_PURE_INSERT_AT_CURSOR != 0 {
                                cursor
                            } else {
                                end
                            }
                        } else {
                            end
                        };
                        let n = splice_hunk(&mut draft, pos, h);
                        cursor = pos + n;
                        continue;
                    }
                    let Some(pos) = find_from(&draft, &before, cursor) else {
                        return fail(Cause::Hard("context_not_found"));
                    };
                    if matches!(find_from(&draft, &before, 0), Some(p0) if p0 < pos) {
                        stats.occurs_before_cursor += 1;
                    }
                    if find_from(&draft, &before, pos + 1).is_some() {
                        stats.repeated_after_cursor += 1;
                    }
                    let n = splice_hunk(&mut draft, pos, h);
                    cursor = pos + n;
                }
                let new_lines = finalize(&orig, draft, policy, touched);
                if !by.contains(&"update") {
                    by.push("update");
                }
                let updated = MFile {
                    content: MContent::Lines(new_lines),
                    flags,
                    by,
                };
                match move_to {
                    None => {
                        t.files.insert(p, updated);
                    }
                    Some(m) => {
                        let q = match classify_path(m) {
                            PathClass::Rel(q) => q,
                            PathClass::Root => return fail(Cause::Hard("path_is_root")),
                            PathClass::Empty => return fail(Cause::Hard("empty_path")),
                            PathClass::Outside(_) => return fail(Cause::Hard("outside")),
                        };
                        if t.ancestor_is_file(&q) {
                            return fail(Cause::Hard("parent_is_file"));
                        }
                        if t.dirs.contains(&q) {
                            return fail(Cause::Hard("move_onto_dir"));
                        }
                        if t.files.contains_key(&q) {
                            *touched |= D_MOVE_OVERWRITE;
                            if policy & D_MOVE_OVERWRITE == 0 {
                                return fail(Cause::Soft("move_target_exists"));
                            }
                        }
                        let mut moved = updated;
                        if !moved.by.contains(&"move") {
                            moved.by.push("move");
                        }
                        t.files.remove(&p);
                        t.create_parents(&q);
                        t.files.insert(q, moved);
                    }
                }
            }
        }
    }
    Ok(t)
}

/// Normalised set of every path the patch names.
pub fn named_paths(ops: &[POp]) -> BTreeSet<String> {
    let mut s = BTreeSet::new();
    for op in ops {
        for p in op.paths() {
            if let PathClass::Rel(p) = classify_path(p) {
                s.insert(p);
            }
        }
    }
    s
}

/// First path (if any) the docs say MUST be rejected.
pub fn must_reject(ops: &[POp]) -> Option<&'static str> {
    for op in ops {
        for p in op.paths() {
            if let PathClass::Outside(why) = classify_path(p) {
                return Some(why);
            }
        }
    }
    None
}

pub struct Eval {
    /// (policy, outcome) for every combination of the choices this patch meets
    pub outcomes: Vec<(u8, Result<Tree, (usize, Cause)>)>,
    pub touched: u8,
    pub stats: Stats,
}

pub fn evaluate(tree: &Tree, ops: &[POp]) -> Eval {
    // discover which choices are met: fixpoint over policies (a lenient choice can expose others)
    let mut touched = 0u8;
    loop {
        let before = touched;
        let mut sub = before;
        // enumerate all subsets of `before`
        loop {
            let _ = apply(tree, ops, sub, &mut touched);
            if sub == 0 {
                break;
            }
            sub = (sub - 1) & before;
        }
        if touched == before {
            break;
        }
    }
    let mut outcomes = Vec::new();
    let mut stats = Stats::default();
    let mut sub = touched;
    loop {
        let mut t = 0u8;
        if sub == 0 {
            outcomes.push((sub, apply_stats(tree, ops, sub, &mut t, &mut stats)));
            break;
        }
        outcomes.push((sub, apply(tree, ops, sub, &mut t)));
        sub = (sub - 1) & touched;
    }
    // the strict reading (policy 0) first: it is the one shown in failure details
    outcomes.reverse();
    Eval { outcomes, touched, stats }
}
