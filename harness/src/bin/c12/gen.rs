//! C12 generator: workspace trees and patch documents (a) by construction, with the intended
//! result known from line positions (no search), and (b) by text-level mutation of (a).

use proptest::prelude::*;
use rv::engine::pick;
use serde::{Deserialize, Serialize};

use crate::model::{
    self, classify_path, finalize, splice_hunk, Content, Draft, Hunk, Line, MContent, MFile,
    PathClass, Term, Tree,
};
use crate::{EXCLUDE_KNOWN_ADD_SINGLE_BLANK_LINE, EXCLUDE_KNOWN_DIR_CONFLICT_ROLLBACK, EXCLUDE_KNOWN_UPDATE_EMPTY_FILE};

// ---------------------------------------------------------------- case

#[derive(Debug, Clone, Serialize, Deserialize)]
pub struct HunkSpec {
    /// index (in the file's lines at the moment this hunk applies) where the hunk's first
    /// before-line sits / where a pure insertion goes
    pub at: usize,
    pub lines: Vec<(char, String)>,
}

#[derive(Debug, Clone, Serialize, Deserialize)]
pub enum OpSpec {
    Add { path: String, lines: Vec<String> },
    Delete { path: String },
    Update { path: String, move_to: Option<String>, hunks: Vec<HunkSpec> },
}

#[derive(Debug, Clone, Serialize, Deserialize)]
pub struct FailSpec {
    pub op: usize,
    pub cause: String,
    /// the docs do not say that this must fail (overwrite semantics would be a legal reading)
    pub soft: bool,
}

#[derive(Debug, Clone, Serialize, Deserialize)]
pub struct Case {
    pub files: Vec<(String, Content)>,
    pub dirs: Vec<String>,
    /// the exact patch document ("@ABS@" stands for the absolute path of the sandbox outer dir)
    pub patch: String,
    /// construction record: None for text-mutated documents
    pub ops: Option<Vec<OpSpec>>,
    pub fail_at: Option<FailSpec>,
    pub mutation: Option<String>,
    pub via_tool: bool,
    /// alias class: symlinks (link path, link target text) to regular files inside the workspace.
    /// When non-empty only atomicity on failure is asserted (the docs are silent on symlinks).
    #[serde(default)]
    pub links: Vec<(String, String)>,
    /// generator-side exclusions of known-defect regions (name, count)
    #[serde(default)]
    pub excluded: Vec<(String, u32)>,
}

// ---------------------------------------------------------------- plan (raw random choices)

#[derive(Debug, Clone)]
pub struct FilePlan {
    dir: u16,
    name: u16,
    kind: u8,
    lines: Vec<u16>,
    final_nl: bool,
    pool: u8,
    unique: bool,
    raw: Vec<u8>,
}

#[derive(Debug, Clone)]
pub struct HunkPlan {
    gap: u8,
    cb: u8,
    del: u8,
    ins: Vec<u16>,
    ca: u8,
    overlap: bool,
}

#[derive(Debug, Clone)]
pub struct StepPlan {
    kind: u16,
    target: u16,
    newpath: u16,
    spell: u8,
    hunks: Vec<HunkPlan>,
    lines: Vec<u16>,
}

#[derive(Debug, Clone)]
pub struct FailPlan {
    kind: u8,
    pos: u16,
    target: u16,
    hunk_pos: u16,
    step: StepPlan,
}

#[derive(Debug, Clone)]
pub struct MutPlan {
    kind: u8,
    a: u16,
    b: u16,
}

#[derive(Debug, Clone)]
pub struct Plan {
    files: Vec<FilePlan>,
    extra_dirs: u8,
    steps: Vec<StepPlan>,
    fail: Option<FailPlan>,
    mutation: Option<MutPlan>,
    via_tool: bool,
    first_at: bool,
    final_newline: bool,
    alias: bool,
}

const DIRS: [&str; 5] = ["", "d", "d/e", "src", "deep/er/est"];
const NAMES: [&str; 13] = [
    "a.txt", "b.rs", "c", "sp ace.md", "ünï.txt", "Makefile", "x.y.z", "+odd-name",
    // ordinary bytes on Linux, special elsewhere (a backslash is left out: the implementation
    // reports changed paths with '\\' rewritten to '/', which the path model does not mirror)
    "-dash.txt", "a..b", "..hidden", "we:ird", "quo\"te",
];
const NEWPATHS: [&str; 10] = [
    "new.txt",
    "n2",
    "gen.rs",
    "moved.txt",
    "out/put.txt",
    "d/fresh.txt",
    "d/e/f/g.txt",
    "brand/new/dir/file",
    "src/lib2.rs",
    "ü/ñ.txt",
];
const POOL: [&str; 14] = [
    "alpha",
    "beta",
    "",
    "gamma",
    "  indent",
    "x = 1;",
    "é→☃ 😀",
    "*** End Patch",
    "+plus",
    "-minus",
    "@@ at",
    " lead",
    "car\rriage",
    "*** Add File: zz",
];

fn hunk_plan() -> impl Strategy<Value = HunkPlan> {
    (
        prop_oneof![3 => Just(0u8), 3 => 0u8..4, 1 => 0u8..12],
        0u8..4,
        prop_oneof![2 => Just(0u8), 4 => Just(1u8), 2 => Just(2u8), 1 => Just(3u8)],
        proptest::collection::vec(any::<u16>(), 0..3),
        0u8..4,
        prop_oneof![12 => Just(false), 1 => Just(true)],
    )
        .prop_map(|(gap, cb, del, ins, ca, overlap)| HunkPlan {
            gap,
            cb,
            del,
            ins,
            ca,
            overlap,
        })
}

fn step_plan() -> impl Strategy<Value = StepPlan> {
    (
        any::<u16>(),
        any::<u16>(),
        any::<u16>(),
        any::<u8>(),
        prop_oneof![
            3 => proptest::collection::vec(hunk_plan(), 1..2),
            4 => proptest::collection::vec(hunk_plan(), 2..5),
        ],
        proptest::collection::vec(any::<u16>(), 0..5),
    )
        .prop_map(|(kind, target, newpath, spell, hunks, lines)| StepPlan {
            kind,
            target,
            newpath,
            spell,
            hunks,
            lines,
        })
}

fn file_plan() -> impl Strategy<Value = FilePlan> {
    (
        any::<u16>(),
        any::<u16>(),
        // 0 LF, 1 CRLF, 2 mixed, 3 empty, 4 non-UTF-8, 5 single line without newline
        prop_oneof![6 => Just(0u8), 5 => Just(1u8), 3 => Just(2u8), 1 => Just(3u8), 1 => Just(4u8), 1 => Just(5u8)],
        proptest::collection::vec(any::<u16>(), 1..10),
        prop_oneof![3 => Just(true), 2 => Just(false)],
        prop_oneof![3 => 2u8..4, 2 => 4u8..15],
        prop_oneof![1 => Just(true), 1 => Just(false)],
        proptest::collection::vec(any::<u8>(), 0..12),
    )
        .prop_map(|(dir, name, kind, lines, final_nl, pool, unique, raw)| FilePlan {
            dir,
            name,
            kind,
            lines,
            final_nl,
            pool,
            unique,
            raw,
        })
}

/// `mode`: 0 = constructed, expected to succeed; 1 = constructed with an injected failing op;
/// 2 = text mutation of either; 3 = like 1, updates only, some files also reachable through a symlink.
pub fn plan(mode: u8) -> BoxedStrategy<Plan> {
    let fail = (
        0u8..10,
        // bias towards late positions
        prop_oneof![1 => any::<u16>(), 2 => 30000u16..=65535],
        any::<u16>(),
        any::<u16>(),
        step_plan(),
    )
        .prop_map(|(kind, pos, target, hunk_pos, step)| FailPlan {
            kind,
            pos,
            target,
            hunk_pos,
            step,
        });
    let fail: BoxedStrategy<Option<FailPlan>> = match mode {
        0 => Just(None).boxed(),
        1 | 3 => fail.prop_map(Some).boxed(),
        _ => prop_oneof![1 => Just(None), 1 => fail.prop_map(Some)].boxed(),
    };
    let mutation: BoxedStrategy<Option<MutPlan>> = if mode == 2 {
        (0u8..16, any::<u16>(), any::<u16>())
            .prop_map(|(kind, a, b)| Some(MutPlan { kind, a, b }))
            .boxed()
    } else {
        Just(None).boxed()
    };
    let steps = if mode == 0 {
        prop_oneof![
            1 => proptest::collection::vec(step_plan(), 1..2),
            5 => proptest::collection::vec(step_plan(), 2..7),
        ]
        .boxed()
    } else {
        prop_oneof![
            1 => proptest::collection::vec(step_plan(), 0..2),
            6 => proptest::collection::vec(step_plan(), 1..6),
        ]
        .boxed()
    };
    (
        proptest::collection::vec(file_plan(), 1..7),
        0u8..4,
        steps,
        fail,
        mutation,
        prop_oneof![3 => Just(false), 1 => Just(true)],
        any::<bool>(),
        any::<bool>(),
    )
        .prop_map(
            move |(files, extra_dirs, steps, fail, mutation, via_tool, first_at, final_newline)| Plan {
                files,
                extra_dirs,
                steps,
                fail,
                mutation,
                via_tool,
                first_at,
                final_newline,
                alias: mode == 3,
            },
        )
        .boxed()
}

pub fn case_strategy(mode: u8) -> BoxedStrategy<Case> {
    plan(mode).prop_map(|p| build(&p)).boxed()
}

// ---------------------------------------------------------------- building files

fn file_content(fp: &FilePlan) -> Vec<u8> {
    match fp.kind {
        3 => Vec::new(),
        4 => {
            // not valid UTF-8, with line structure
            let mut b = b"bin\n".to_vec();
            b.push(0xff);
            b.push(0xfe);
            b.extend(fp.raw.iter().map(|x| x | 0x80));
            b.extend_from_slice(b"\nend\n");
            b
        }
        _ => {
            let pool = (fp.pool as usize).clamp(2, POOL.len());
            let mut texts: Vec<String> = Vec::new();
            let n = if fp.kind == 5 { 1 } else { fp.lines.len() };
            for (i, p) in fp.lines.iter().take(n).enumerate() {
                let base = POOL[(*p as usize) % pool];
                if fp.unique {
                    texts.push(format!("{base} #{i}"));
                } else {
                    texts.push(base.to_string());
                }
            }
            let mut out = Vec::new();
            for (i, t) in texts.iter().enumerate() {
                let mut t = t.clone();
                let last = i + 1 == texts.len();
                let no_term = last && (fp.kind == 5 || !fp.final_nl);
                if no_term {
                    // a last line without terminator must be non-empty (else it is no line) and
                    // must not end in a lone CR (out of scope, see blind spots)
                    if t.is_empty() || t.ends_with('\r') {
                        t.push('z');
                    }
                    out.extend_from_slice(t.as_bytes());
                    break;
                }
                out.extend_from_slice(t.as_bytes());
                let crlf = match fp.kind {
                    1 => true,
                    2 => {
                        if i == 0 {
                            true
                        } else if i == 1 {
                            false
                        } else {
                            (fp.lines[i] >> 9) & 1 == 1
                        }
                    }
                    _ => false,
                };
                out.extend_from_slice(if crlf { b"\r\n" } else { b"\n" });
            }
            out
        }
    }
}

// ---------------------------------------------------------------- intent (positional) execution

/// Perform one constructed op positionally (no search). Err = the construction record does not
/// fit the tree (harness inconsistency; the case is then discarded as ambiguous).
pub fn intent_apply_op(t: &mut Tree, op: &OpSpec, policy: u8, touched: &mut u8) -> Result<(), String> {
    let rel = |raw: &str| match classify_path(raw) {
        PathClass::Rel(p) => Ok(p),
        other => Err(format!("intent path {raw:?} is {other:?}")),
    };
    match op {
        OpSpec::Add { path, lines } => {
            let p = rel(path)?;
            if t.files.contains_key(&p) || t.dirs.contains(&p) || t.ancestor_is_file(&p) {
                return Err(format!("intent add onto existing {p}"));
            }
            t.create_parents(&p);
            t.files.insert(
                p,
                MFile {
                    content: MContent::Raw(model::add_content(lines)),
                    flags: 0,
                    by: vec!["add"],
                },
            );
        }
        OpSpec::Delete { path } => {
            let p = rel(path)?;
            if t.files.remove(&p).is_none() {
                return Err(format!("intent delete of missing {p}"));
            }
        }
        OpSpec::Update { path, move_to, hunks } => {
            let p = rel(path)?;
            let file = t.files.get(&p).ok_or_else(|| format!("intent update of missing {p}"))?;
            let orig = file.lines().ok_or_else(|| format!("intent update of non-text {p}"))?;
            let mut flags = file.flags;
            let mut by = file.by.clone();
            if orig.is_empty() {
                flags |= model::FLAG_EMPTY_UPDATED;
            }
            if model::style_of(&orig) == model::Style::Mixed {
                flags |= model::FLAG_MIXED_UPDATED;
            }
            let mut draft: Draft = orig.iter().map(|(l, t)| (l.clone(), Some(*t))).collect();
            for h in hunks {
                let hk = Hunk { lines: h.lines.clone() };
                let before = hk.before();
                if h.at + before.len() > draft.len()
                    || (0..before.len()).any(|k| draft[h.at + k].0 != before[k])
                {
                    return Err(format!("intent hunk does not sit at {} in {p}", h.at));
                }
                splice_hunk(&mut draft, h.at, &hk);
            }
            let new_lines = finalize(&orig, draft, policy, touched);
            if !by.contains(&"update") {
                by.push("update");
            }
            let mut updated = MFile {
                content: MContent::Lines(new_lines),
                flags,
                by,
            };
            match move_to {
                None => {
                    t.files.insert(p, updated);
                }
                Some(m) => {
                    let q = rel(m)?;
                    if t.files.contains_key(&q) || t.dirs.contains(&q) || t.ancestor_is_file(&q) {
                        return Err(format!("intent move onto existing {q}"));
                    }
                    if !updated.by.contains(&"move") {
                        updated.by.push("move");
                    }
                    t.files.remove(&p);
                    t.create_parents(&q);
                    t.files.insert(q, updated);
                }
            }
        }
    }
    Ok(())
}

pub fn intent_apply(tree: &Tree, ops: &[OpSpec], policy: u8) -> Result<Tree, String> {
    let mut t = tree.clone();
    let mut touched = 0u8;
    for op in ops {
        intent_apply_op(&mut t, op, policy, &mut touched)?;
    }
    Ok(t)
}

// ---------------------------------------------------------------- rendering

pub fn render_patch(ops: &[OpSpec], first_at: bool, final_newline: bool) -> String {
    let mut s = String::from("*** Begin Patch\n");
    for op in ops {
        match op {
            OpSpec::Add { path, lines } => {
                s.push_str(&format!("*** Add File: {path}\n"));
                for l in lines {
                    s.push('+');
                    s.push_str(l);
                    s.push('\n');
                }
            }
            OpSpec::Delete { path } => s.push_str(&format!("*** Delete File: {path}\n")),
            OpSpec::Update { path, move_to, hunks } => {
                s.push_str(&format!("*** Update File: {path}\n"));
                if let Some(m) = move_to {
                    s.push_str(&format!("*** Move to: {m}\n"));
                }
                for (j, h) in hunks.iter().enumerate() {
                    if j > 0 || first_at {
                        s.push_str("@@\n");
                    }
                    for (p, l) in &h.lines {
                        s.push(*p);
                        s.push_str(l);
                        s.push('\n');
                    }
                }
            }
        }
    }
    s.push_str("*** End Patch");
    if final_newline {
        s.push('\n');
    }
    s
}

// ---------------------------------------------------------------- builder

struct Builder {
    st: Tree,
    deleted: Vec<String>,
    fresh: u32,
    excl_empty: u32,
    excl_blank_add: u32,
    excl_dir_conflict: u32,
    /// (link path, canonical file path)
    links: Vec<(String, String)>,
    alias_mode: bool,
}

fn spell(p: &str, spell: u8) -> String {
    match spell % 16 {
        13 => format!("./{p}"),
        14 => match p.split_once('/') {
            Some((a, b)) => format!("{a}/./{b}"),
            None => format!("./{p}"),
        },
        15 => match p.split_once('/') {
            Some((a, b)) => format!("{a}//{b}"),
            None => p.to_string(),
        },
        _ => p.to_string(),
    }
}

impl Builder {
    fn exists(&self, p: &str) -> bool {
        self.st.files.contains_key(p) || self.st.dirs.contains(p)
    }

    fn fresh_path(&mut self, choice: u16) -> String {
        let mut cands: Vec<String> = Vec::new();
        for p in NEWPATHS {
            if !self.exists(p) && !self.st.ancestor_is_file(p) {
                cands.push(p.to_string());
            }
        }
        let mut conflict: Vec<(String, String)> = Vec::new();
        for d in &self.deleted {
            if !self.exists(d) && !self.st.ancestor_is_file(d) {
                cands.push(d.clone());
                // turn a deleted file's path into a directory
                let child = format!("{d}/child.txt");
                conflict.push((child.clone(), d.clone()));
                cands.push(child);
                // ... and into a directory TREE (intermediate directories the patch engine creates
                // on the way and has to clear again when it restores the file)
                let deep = format!("{d}/nested/deeper/leaf.txt");
                conflict.push((deep.clone(), d.clone()));
                cands.push(deep);
            }
        }
        if !cands.is_empty() {
            let c = cands[pick(choice, cands.len())].clone();
            if let Some((_, d)) = conflict.iter().find(|(ch, _)| *ch == c) {
                if EXCLUDE_KNOWN_DIR_CONFLICT_ROLLBACK {
                    self.excl_dir_conflict += 1;
                    return d.clone();
                }
            }
            return c;
        }
        self.fresh += 1;
        format!("auto{}.txt", self.fresh)
    }

    fn missing_path(&mut self, choice: u16) -> String {
        // a path that names nothing (never created, or deleted earlier in this patch)
        let mut cands: Vec<String> = vec!["missing.txt".into(), "d/none.rs".into(), "no/such/dir/f".into()];
        cands.extend(self.deleted.iter().cloned());
        cands.retain(|p| !self.exists(p));
        if cands.is_empty() {
            self.fresh += 1;
            return format!("gone{}.txt", self.fresh);
        }
        cands[pick(choice, cands.len())].clone()
    }

    fn text_files(&self, allow_empty: bool) -> Vec<String> {
        self.st
            .files
            .iter()
            .filter(|(_, f)| match f.lines() {
                Some(l) => allow_empty || !l.is_empty(),
                None => false,
            })
            .map(|(p, _)| p.clone())
            .collect()
    }

    fn pick_update_target(&mut self, choice: u16) -> Option<String> {
        let all = self.text_files(true);
        if all.is_empty() {
            return None;
        }
        let i = pick(choice, all.len());
        let is_empty = |b: &Builder, p: &str| b.st.files[p].lines().map(|l| l.is_empty()).unwrap_or(false);
        if EXCLUDE_KNOWN_UPDATE_EMPTY_FILE && is_empty(self, &all[i]) {
            self.excl_empty += 1;
            for k in 1..all.len() {
                let j = (i + k) % all.len();
                if !is_empty(self, &all[j]) {
                    return Some(all[j].clone());
                }
            }
            return None;
        }
        Some(all[i].clone())
    }

    fn new_line_text(&mut self, choice: u16) -> String {
        if choice & 1 == 0 {
            POOL[((choice >> 1) as usize) % POOL.len()].to_string()
        } else {
            self.fresh += 1;
            format!("new line {}", self.fresh)
        }
    }

    fn build_hunks(&mut self, orig: &[Line], plans: &[HunkPlan]) -> Vec<HunkSpec> {
        let n = orig.len();
        let mut out = Vec::new();
        let mut o = 0usize;
        let mut prev_change_end = 0usize;
        let mut delta: isize = 0;
        for (j, h) in plans.iter().enumerate() {
            let mut s = (o + h.gap as usize).min(n);
            if h.overlap && j > 0 {
                s = o.saturating_sub(1 + (h.gap as usize) % 3).max(prev_change_end);
            }
            let cb = (h.cb as usize).min(n - s);
            let cs = s + cb;
            let d = (h.del as usize).min(n - cs);
            let ca = (h.ca as usize).min(n - cs - d);
            let e = cs + d + ca;
            let mut ins: Vec<String> = h.ins.iter().map(|c| self.new_line_text(*c)).collect();
            if d == 0 && ins.is_empty() && (cb + ca == 0 || h.gap % 4 != 0) {
                ins.push(self.new_line_text(h.gap as u16 * 2 + 1));
            }
            let mut lines: Vec<(char, String)> = Vec::new();
            for l in &orig[s..cs] {
                lines.push((' ', l.0.clone()));
            }
            for l in &orig[cs..cs + d] {
                lines.push(('-', l.0.clone()));
            }
            for l in &ins {
                lines.push(('+', l.clone()));
            }
            for l in &orig[cs + d..e] {
                lines.push((' ', l.0.clone()));
            }
            let at = (s as isize + delta) as usize;
            out.push(HunkSpec { at, lines });
            delta += ins.len() as isize - d as isize;
            o = e.max(o);
            prev_change_end = cs + d;
        }
        out
    }

    fn make_update(&mut self, sp: &StepPlan, with_move: bool) -> Option<OpSpec> {
        let target = self.pick_update_target(sp.target)?;
        let orig = self.st.files[&target].lines()?;
        let hunks = self.build_hunks(&orig, &sp.hunks);
        let move_to = if with_move {
            Some(spell(&self.fresh_path(sp.newpath), sp.spell >> 4))
        } else {
            None
        };
        Some(OpSpec::Update {
            path: spell(&target, sp.spell),
            move_to,
            hunks,
        })
    }

    fn make_add(&mut self, sp: &StepPlan) -> OpSpec {
        let path = self.fresh_path(sp.newpath);
        let mut lines: Vec<String> = sp.lines.iter().map(|c| self.new_line_text(*c)).collect();
        if EXCLUDE_KNOWN_ADD_SINGLE_BLANK_LINE && lines.len() == 1 && lines[0].is_empty() {
            self.excl_blank_add += 1;
            lines.push("after blank".into());
        }
        OpSpec::Add {
            path: spell(&path, sp.spell),
            lines,
        }
    }

    fn make_step(&mut self, sp: &StepPlan) -> OpSpec {
        if self.alias_mode {
            if let Some(OpSpec::Update { path, hunks, .. }) = self.make_update(&StepPlan { spell: 0, ..sp.clone() }, false) {
                let via = self.links.iter().find(|(_, t)| *t == path).map(|(l, _)| l.clone());
                let path = match via {
                    Some(l) if sp.spell & 1 == 0 => l,
                    _ => path,
                };
                return OpSpec::Update { path, move_to: None, hunks };
            }
            return self.make_add(&StepPlan { spell: 0, ..sp.clone() });
        }
        let k = pick(sp.kind, 100);
        let op = if k < 45 {
            self.make_update(sp, false)
        } else if k < 63 {
            self.make_update(sp, true)
        } else if k < 83 {
            None
        } else {
            let files: Vec<String> = self.st.files.keys().cloned().collect();
            if files.is_empty() {
                None
            } else {
                Some(OpSpec::Delete {
                    path: spell(&files[pick(sp.target, files.len())], sp.spell),
                })
            }
        };
        op.unwrap_or_else(|| self.make_add(sp))
    }

    fn commit(&mut self, op: &OpSpec) {
        let mut touched = 0u8;
        if let OpSpec::Delete { path } | OpSpec::Update { path, move_to: Some(_), .. } = op {
            if let PathClass::Rel(p) = classify_path(path) {
                if !self.deleted.contains(&p) {
                    self.deleted.push(p);
                }
            }
        }
        // by construction this cannot fail; if it does the closure will discard the case
        let op = match op {
            OpSpec::Update { path, move_to, hunks } => OpSpec::Update {
                path: self
                    .links
                    .iter()
                    .find(|(l, _)| l == path)
                    .map(|(_, t)| t.clone())
                    .unwrap_or_else(|| path.clone()),
                move_to: move_to.clone(),
                hunks: hunks.clone(),
            },
            other => other.clone(),
        };
        let _ = intent_apply_op(&mut self.st, &op, 0, &mut touched);
    }

    /// An op that cannot be performed on the current tree. (op, cause, soft)
    fn make_failing(&mut self, fp: &FailPlan) -> (OpSpec, &'static str, bool) {
        let simple_hunk = |text: &str| HunkSpec {
            at: 0,
            lines: vec![('-', text.to_string()), ('+', "replacement".to_string())],
        };
        let files: Vec<String> = self.st.files.keys().cloned().collect();
        let texts = self.text_files(true);
        let nonempty_texts = self.text_files(false);
        let mut kind = fp.kind;
        if self.alias_mode {
            kind = [0u8, 1, 4, 8][(fp.kind % 4) as usize];
        }
        loop {
            match kind {
                1 => {
                    let p = self.missing_path(fp.target);
                    return (
                        OpSpec::Update {
                            path: p,
                            move_to: None,
                            hunks: vec![simple_hunk("alpha")],
                        },
                        "update_missing",
                        false,
                    );
                }
                2 if !files.is_empty() => {
                    let p = files[pick(fp.target, files.len())].clone();
                    let lines: Vec<String> = fp.step.lines.iter().map(|c| self.new_line_text(*c)).collect();
                    return (OpSpec::Add { path: spell(&p, fp.step.spell), lines }, "add_exists", true);
                }
                3 if !nonempty_texts.is_empty() && !files.is_empty() => {
                    let src = nonempty_texts[pick(fp.target, nonempty_texts.len())].clone();
                    let dst = files[pick(fp.hunk_pos, files.len())].clone();
                    let orig = self.st.files[&src].lines().unwrap_or_default();
                    let hunks = self.build_hunks(&orig, &fp.step.hunks);
                    return (
                        OpSpec::Update {
                            path: src,
                            move_to: Some(spell(&dst, fp.step.spell)),
                            hunks,
                        },
                        "move_target_exists",
                        true,
                    );
                }
                4 | 9 if !texts.is_empty() => {
                    let p = texts[pick(fp.target, texts.len())].clone();
                    let orig = self.st.files[&p].lines().unwrap_or_default();
                    let mut hunks = if orig.is_empty() {
                        Vec::new()
                    } else {
                        self.build_hunks(&orig, &fp.step.hunks)
                    };
                    let bad = HunkSpec {
                        at: 0,
                        lines: if fp.hunk_pos & 1 == 0 {
                            vec![('-', "no such line ¤".to_string()), ('+', "x".to_string())]
                        } else {
                            vec![(' ', "no such context ¤".to_string()), ('+', "x".to_string())]
                        },
                    };
                    let at = pick(fp.hunk_pos, hunks.len() + 1);
                    hunks.insert(at, bad);
                    let move_to = if kind == 9 {
                        Some(self.fresh_path(fp.step.newpath))
                    } else {
                        None
                    };
                    return (
                        OpSpec::Update {
                            path: spell(&p, fp.step.spell),
                            move_to,
                            hunks,
                        },
                        "context_not_found",
                        false,
                    );
                }
                5 => {
                    let bins: Vec<String> = self
                        .st
                        .files
                        .iter()
                        .filter(|(_, f)| f.lines().is_none())
                        .map(|(p, _)| p.clone())
                        .collect();
                    if !bins.is_empty() {
                        let p = bins[pick(fp.target, bins.len())].clone();
                        return (
                            OpSpec::Update {
                                path: p,
                                move_to: None,
                                hunks: vec![simple_hunk("bin")],
                            },
                            "non_utf8",
                            true,
                        );
                    }
                }
                6 => {
                    let dirs: Vec<String> = self.st.dirs.iter().cloned().collect();
                    if !dirs.is_empty() {
                        let d = dirs[pick(fp.target, dirs.len())].clone();
                        return match fp.hunk_pos % 3 {
                            0 => (OpSpec::Delete { path: d }, "delete_dir", false),
                            1 => (
                                OpSpec::Update {
                                    path: d,
                                    move_to: None,
                                    hunks: vec![simple_hunk("alpha")],
                                },
                                "update_dir",
                                false,
                            ),
                            _ => (
                                OpSpec::Add {
                                    path: d,
                                    lines: vec!["x".into()],
                                },
                                "add_onto_dir",
                                false,
                            ),
                        };
                    }
                }
                7 if !files.is_empty() => {
                    let f = files[pick(fp.target, files.len())].clone();
                    let child = format!("{f}/child.txt");
                    if fp.hunk_pos & 1 == 0 || nonempty_texts.is_empty() {
                        return (
                            OpSpec::Add {
                                path: child,
                                lines: vec!["x".into()],
                            },
                            "parent_is_file",
                            false,
                        );
                    }
                    let src = nonempty_texts[pick(fp.hunk_pos, nonempty_texts.len())].clone();
                    let orig = self.st.files[&src].lines().unwrap_or_default();
                    let hunks = self.build_hunks(&orig, &fp.step.hunks);
                    return (
                        OpSpec::Update {
                            path: src,
                            move_to: Some(child),
                            hunks,
                        },
                        "parent_is_file",
                        false,
                    );
                }
                8 => {
                    // two hunks in the wrong order: the second one's lines sit before the cursor
                    let cands: Vec<String> = nonempty_texts
                        .iter()
                        .filter(|p| self.st.files[*p].lines().map(|l| l.len() >= 2).unwrap_or(false))
                        .cloned()
                        .collect();
                    if !cands.is_empty() {
                        let p = cands[pick(fp.target, cands.len())].clone();
                        let orig = self.st.files[&p].lines().unwrap_or_default();
                        let hi = 1 + pick(fp.hunk_pos, orig.len() - 1);
                        let lo = pick(fp.step.target, hi);
                        let h = |i: usize| HunkSpec {
                            at: 0,
                            lines: vec![('-', orig[i].0.clone()), ('+', format!("swapped {i}"))],
                        };
                        return (
                            OpSpec::Update {
                                path: p,
                                move_to: None,
                                hunks: vec![h(hi), h(lo)],
                            },
                            "context_not_found",
                            false,
                        );
                    }
                }
                0 => {
                    let p = self.missing_path(fp.target);
                    return (OpSpec::Delete { path: p }, "delete_missing", false);
                }
                _ => {}
            }
            // not feasible on this tree: fall back
            kind = if kind == 0 { 1 } else { 0 };
        }
    }
}

pub fn build(plan: &Plan) -> Case {
    // ---- workspace
    let mut files: Vec<(String, Content)> = Vec::new();
    for fp in &plan.files {
        let dir = DIRS[pick(fp.dir, DIRS.len())];
        let name = NAMES[pick(fp.name, NAMES.len())];
        let path = if dir.is_empty() {
            name.to_string()
        } else {
            format!("{dir}/{name}")
        };
        if files.iter().any(|(p, _)| *p == path) {
            continue;
        }
        files.push((path, Content::from_bytes(file_content(fp))));
    }
    let mut dirs: Vec<String> = Vec::new();
    if plan.extra_dirs & 1 != 0 {
        dirs.push("hollow".into());
    }
    if plan.extra_dirs & 2 != 0 {
        dirs.push("d/void".into());
    }
    let mut b = Builder {
        st: Tree::new(&files, &dirs),
        deleted: Vec::new(),
        fresh: 0,
        excl_empty: 0,
        excl_blank_add: 0,
        excl_dir_conflict: 0,
        links: Vec::new(),
        alias_mode: plan.alias,
    };
    let mut link_specs: Vec<(String, String)> = Vec::new();
    if plan.alias {
        // up to two text files get a second name: a relative symlink elsewhere in the tree
        let texts = b.text_files(false);
        let spots = [("ln-a", 0usize), ("d/ln-b", 1usize)];
        for (k, (lp, depth)) in spots.iter().enumerate() {
            if texts.is_empty() {
                break;
            }
            let sel = plan.files.get(k).map(|f| f.name).unwrap_or(0);
            let target = texts[pick(sel, texts.len())].clone();
            if b.links.iter().any(|(_, t)| *t == target) {
                continue;
            }
            let rel_target = format!("{}{}", "../".repeat(*depth), target);
            b.links.push((lp.to_string(), target));
            link_specs.push((lp.to_string(), rel_target));
        }
        b.st.add_dir_chain("d");
    }

    // ---- ops
    let mut ops: Vec<OpSpec> = Vec::new();
    let mut fail_at: Option<FailSpec> = None;
    let nsteps = plan.steps.len();
    let fail_pos = plan.fail.as_ref().map(|f| pick(f.pos, nsteps + 1));
    for i in 0..=nsteps {
        if fail_pos == Some(i) {
            if let Some(fp) = &plan.fail {
                let (op, cause, soft) = b.make_failing(fp);
                fail_at = Some(FailSpec {
                    op: ops.len(),
                    cause: cause.to_string(),
                    soft,
                });
                ops.push(op);
            }
        }
        if i < nsteps {
            let op = b.make_step(&plan.steps[i]);
            b.commit(&op);
            ops.push(op);
        }
    }

    let mut patch = render_patch(&ops, plan.first_at, plan.final_newline);
    let mut mutation = None;
    let mut ops_out = Some(ops);
    if let Some(m) = &plan.mutation {
        let (text, name) = mutate(&patch, m);
        patch = text;
        mutation = Some(name);
        ops_out = None;
        fail_at = None;
    }
    let mut excluded = Vec::new();
    if b.excl_empty > 0 {
        excluded.push(("update_empty_file".to_string(), b.excl_empty));
    }
    if b.excl_blank_add > 0 {
        excluded.push(("add_single_blank_line".to_string(), b.excl_blank_add));
    }
    if b.excl_dir_conflict > 0 {
        excluded.push(("dir_conflict_rollback".to_string(), b.excl_dir_conflict));
    }
    Case {
        files,
        dirs,
        patch,
        ops: ops_out,
        fail_at,
        mutation,
        via_tool: plan.via_tool,
        links: link_specs,
        excluded,
    }
}

// ---------------------------------------------------------------- text-level mutation

fn line_starts(text: &str) -> Vec<usize> {
    let mut v = vec![0];
    for (i, b) in text.bytes().enumerate() {
        if b == b'\n' && i + 1 < text.len() {
            v.push(i + 1);
        }
    }
    v
}

fn replace_line(text: &str, idx: usize, f: impl Fn(&str) -> Option<String>) -> String {
    let mut out = String::new();
    for (i, l) in text.split('\n').enumerate() {
        if i > 0 {
            out.push('\n');
        }
        if i == idx {
            match f(l) {
                Some(r) => out.push_str(&r),
                None => {
                    // drop the line (and the separator just written)
                    if i > 0 {
                        out.pop();
                    }
                }
            }
        } else {
            out.push_str(l);
        }
    }
    out
}

fn pick_line(text: &str, choice: u16, pred: impl Fn(&str) -> bool) -> Option<usize> {
    let idx: Vec<usize> = text
        .split('\n')
        .enumerate()
        .filter(|(_, l)| pred(l))
        .map(|(i, _)| i)
        .collect();
    if idx.is_empty() {
        None
    } else {
        Some(idx[pick(choice, idx.len())])
    }
}

fn is_path_header(l: &str) -> bool {
    l.starts_with("*** Add File: ")
        || l.starts_with("*** Delete File: ")
        || l.starts_with("*** Update File: ")
        || l.starts_with("*** Move to: ")
}

fn with_path(l: &str, f: impl Fn(&str) -> String) -> String {
    match l.split_once(": ") {
        Some((h, p)) => format!("{h}: {}", f(p)),
        None => l.to_string(),
    }
}

pub fn mutate(patch: &str, m: &MutPlan) -> (String, String) {
    let body_line = |l: &str| l.starts_with('+') || l.starts_with('-') || l.starts_with(' ');
    match m.kind {
        0 => {
            // drop the footer
            let t = patch.trim_end_matches('\n');
            let t = t.strip_suffix("*** End Patch").unwrap_or(t);
            (t.to_string(), "drop_footer".into())
        }
        1 => {
            let alts = ["*** Begin Patch ", "*** begin patch", "", "***Begin Patch", "\n*** Begin Patch"];
            let a = alts[pick(m.a, alts.len())];
            (
                replace_line(patch, 0, |_| if a.is_empty() { None } else { Some(a.to_string()) }),
                "bad_header".into(),
            )
        }
        2 => match pick_line(patch, m.a, body_line) {
            Some(i) => {
                let alts = ['?', '*', 'x', '\t', '>'];
                let c = alts[pick(m.b, alts.len())];
                (
                    replace_line(patch, i, |l| Some(format!("{c}{}", &l[1..]))),
                    "bad_prefix".into(),
                )
            }
            None => (patch.replace("*** End Patch", "*** End Patch?"), "bad_footer".into()),
        },
        3 => match pick_line(patch, m.a, body_line) {
            // missing prefix
            Some(i) => (replace_line(patch, i, |l| Some(l[1..].to_string())), "missing_prefix".into()),
            None => (format!("{patch}\ntrailing garbage"), "trailing_garbage".into()),
        },
        4 => {
            // '*** End of File' after a hunk line (or before the footer)
            match pick_line(patch, m.a, |l| body_line(l) || l == "*** End Patch") {
                Some(i) => {
                    let footer = patch.split('\n').nth(i) == Some("*** End Patch");
                    (
                        replace_line(patch, i, |l| {
                            Some(if footer {
                                format!("*** End of File\n{l}")
                            } else {
                                format!("{l}\n*** End of File")
                            })
                        }),
                        "eof_marker".into(),
                    )
                }
                None => (patch.to_string(), "none".into()),
            }
        }
        5 => (patch.replace('\n', "\r\n"), "crlf_patch_text".into()),
        6 => match pick_line(patch, m.a, is_path_header) {
            Some(i) => (
                replace_line(patch, i, |l| Some(with_path(l, |_| "@ABS@/escape.txt".to_string()))),
                "absolute_path".into(),
            ),
            None => (patch.to_string(), "none".into()),
        },
        7 => match pick_line(patch, m.a, is_path_header) {
            Some(i) => {
                let alts = ["../escape.txt", "d/../../escape.txt", "..", "a/../b.txt", "d/.."];
                let a = alts[pick(m.b, alts.len())];
                (
                    replace_line(patch, i, |l| Some(with_path(l, |_| a.to_string()))),
                    "parent_path".into(),
                )
            }
            None => (patch.to_string(), "none".into()),
        },
        8 => match pick_line(patch, m.a, is_path_header) {
            Some(i) => {
                let alts = [".", "./", "d/.", "d/", "", "   "];
                let a = alts[pick(m.b, alts.len())];
                (
                    replace_line(patch, i, |l| Some(with_path(l, |_| a.to_string()))),
                    "dot_path".into(),
                )
            }
            None => (patch.to_string(), "none".into()),
        },
        9 => match pick_line(patch, m.a, is_path_header) {
            // legal respelling of the same path
            Some(i) => (
                replace_line(patch, i, |l| {
                    Some(with_path(l, |p| match m.b % 3 {
                        0 => format!("./{p}"),
                        1 => format!("{p}/"),
                        _ => format!("./././{p}"),
                    }))
                }),
                "respelled_path".into(),
            ),
            None => (patch.to_string(), "none".into()),
        },
        10 => match pick_line(patch, m.a, |l| l.starts_with("@@")) {
            Some(i) => (replace_line(patch, i, |_| None), "drop_hunk_separator".into()),
            None => (patch.to_string(), "none".into()),
        },
        11 => {
            // truncate at a char boundary
            let mut cut = pick(m.a, patch.len() + 1);
            while !patch.is_char_boundary(cut) {
                cut -= 1;
            }
            (patch[..cut].to_string(), "truncate".into())
        }
        12 => match pick_line(patch, m.a, |l| body_line(l) || l.starts_with("@@")) {
            Some(i) => (replace_line(patch, i, |l| Some(format!("{l}\n"))), "blank_line".into()),
            None => (patch.to_string(), "none".into()),
        },
        13 => {
            // duplicate a whole line (op header or body line)
            let n = patch.split('\n').count();
            let i = pick(m.a, n);
            (replace_line(patch, i, |l| Some(format!("{l}\n{l}"))), "duplicate_line".into())
        }
        14 => {
            // drop a whole line
            let starts = line_starts(patch);
            let i = pick(m.a, starts.len());
            (replace_line(patch, i, |_| None), "drop_line".into())
        }
        _ => match pick_line(patch, m.a, |l| l.starts_with("*** Update File: ")) {
            // a Move line in the wrong place / an Update that lost its hunks
            Some(i) => (
                replace_line(patch, i, |l| {
                    Some(if m.b & 1 == 0 {
                        format!("*** Move to: moved-early.txt\n{l}")
                    } else {
                        format!("{l}\n*** Delete File: missing-after-update.txt")
                    })
                }),
                "misplaced_header".into(),
            ),
            None => (format!("garbage before\n{patch}"), "leading_garbage".into()),
        },
    }
}

#[allow(dead_code)]
pub fn term_name(t: Term) -> &'static str {
    match t {
        Term::Lf => "lf",
        Term::Crlf => "crlf",
        Term::None => "none",
        Term::Any => "any",
    }
}
